"""
C05 -- Python side of the exported metadata: the filters whose results are pasted into the generated constants.

* DSDLCodeGenerator.filter_bits2bytes_ceil(n): the least r with 8r >= n (raises ValueError iff n < 0).
* nunavut.lang.c.filter_literal, integer branch: the token is the decimal numeral of the value followed by a C integer
  suffix whose type is guaranteed by ISO C to be at least as wide as the DSDL type and has the DSDL type's signedness
  (no suffix: int >= 16 bit, L: long >= 32 bit, LL: long long >= 64 bit).  The postcondition is taken from the property
  ("constants carry exactly the values of the DSDL definition"), not from the code: whether the numeral denotes the
  value in C is then a statement of ISO C 6.4.4.1, evaluated per program by clang (props/c05.py).
* boolean branch: the configured true/false token according to the truth of the value.

Python semantics assumed: str(int) is the minimal decimal numeral with a leading '-' for negatives (SMT str.from_int on
the magnitude); str * bool is the string or the empty string; isinstance() on the pydsdl type hierarchy is decided by the
class of the symbolic object (BooleanType / UnsignedIntegerType / SignedIntegerType, the last two below IntegerType).
"""
from vk.epy import Contract, Raises, SBool, SInt, SObj, SStr, VBool, VConst, VInt, VStr, OutOfSubset
from vk.smt import app, Ite


def install(engine):
    I = engine.intrinsics
    engine.used("str(int): minimal decimal numeral, '-' prefix for negatives (SMT str.from_int); str * bool selects the string or ''")
    I["str:Int"] = lambda it, v: VStr(Ite(app("<", v.t, "0"), app("str.++", '"-"', app("str.from_int", app("-", v.t))), app("str.from_int", v.t)))

    def str_mul(it, a, b):
        if isinstance(b, VBool):
            return VStr(Ite(b.t, a.t, '""'))
        raise OutOfSubset("str * int")

    engine.binop_hooks["String.Mult"] = str_mul
    engine.isinstance_hooks["supers:UnsignedIntegerType"] = {"IntegerType", "ArithmeticType", "PrimitiveType", "SerializableType", "Any"}
    engine.isinstance_hooks["supers:SignedIntegerType"] = {"IntegerType", "ArithmeticType", "PrimitiveType", "SerializableType", "Any"}
    engine.isinstance_hooks["supers:BooleanType"] = {"PrimitiveType", "SerializableType", "Any"}
    I["CLanguage.get_option"] = lambda it, lang, name, *a: it.ctx.get_field(lang, "cast_format_option")
    engine.spec_fns["dec"] = lambda it, n: I["str:Int"](it, it.eval(n.args[0]))


PYDSDL = VConst({k: VConst(("class", k, {})) for k in ("BooleanType", "IntegerType", "UnsignedIntegerType", "SignedIntegerType", "FloatType", "Any")})
LANG = SObj("CLanguage", {"valuetoken_true": SStr, "valuetoken_false": SStr, "cast_format_option": SStr})

BITS2BYTES = Contract(
    target="nunavut/jinja/__init__.py:DSDLCodeGenerator.filter_bits2bytes_ceil",
    params={"n_bits": SInt},
    raises=[Raises("ValueError", "n_bits < 0")],
    ensures=[("least-byte-count-covering-the-bits", "8 * result >= n_bits and 8 * (result - 1) < n_bits"),
             ("non-negative", "result >= 0")],
)

_SFX = [("", 16, False), ("L", 32, False), ("LL", 64, False), ("U", 16, True), ("UL", 32, True), ("ULL", 64, True)]


def _literal(cls: str, unsigned: bool) -> Contract:
    cases = " or ".join(f"(result == dec(value) + '{s}' and ty.bit_length <= {bits})" for s, bits, u in _SFX if u == unsigned)
    rng = "0 <= value and value <= 18446744073709551615" if unsigned else "-9223372036854775808 <= value and value <= 9223372036854775807"
    ens = [("decimal-numeral-with-a-suffix-whose-ISO-C-type-is-wide-enough", cases if unsigned else f"implies(value > -9223372036854775808, {cases})")]
    if not unsigned:
        # ISO C 6.4.4.1: `-N` is the negation of the constant N, and 9223372036854775808 has no signed type: the token would
        # denote an unsigned 2**63 (clang) -- whatever is printed for the most negative value, it is not that numeral
        ens.append(("most-negative-64-bit-value-is-not-a-negated-out-of-range-numeral",
                    "implies(value == -9223372036854775808, not in_re(result, '-9223372036854775808[uUlL]*'))"))
    return Contract(
        target="nunavut/lang/c/__init__.py:filter_literal",
        params={"language": LANG, "value": SInt, "ty": SObj(cls, {"bit_length": SInt}), "cast_format": SStr},
        requires=["1 <= ty.bit_length and ty.bit_length <= 64", rng],
        bindings={"pydsdl": PYDSDL},
        ensures=ens,
        label=cls,
    )


LITERAL_UNSIGNED = _literal("UnsignedIntegerType", True)
LITERAL_SIGNED = _literal("SignedIntegerType", False)
LITERAL_BOOL = Contract(
    target="nunavut/lang/c/__init__.py:filter_literal",
    params={"language": LANG, "value": SBool, "ty": SObj("BooleanType", {}), "cast_format": SStr},
    bindings={"pydsdl": PYDSDL},
    ensures=[("configured-true-or-false-token", "result == ite(value, language.valuetoken_true, language.valuetoken_false)")],
    label="BooleanType",
)

"""
C07 -- reproducible output.  Effect contract (E-FX): with auditing off, no ambient input (clock, platform beyond the
interpreter version, cwd/absolute paths, hash order, process identity) may reach a generated file.

Python obligation: every ambient-source occurrence in the library (everything under nunavut/ except the bundled
Jinja2 and the CLI front end, whose environment/argv reads are *inputs*) is either dominated by a test of
`embed_auditing_info`, or listed in ALLOW with the reason why it cannot reach output unguarded.
Template obligation: every `Output` expression of every built-in template that contains a taint source
(`now_utc`, a `source_file_path` that is not reduced to `.name/.stem/.suffix`) is dominated by
`{% if nunavut.embed_auditing_info %}`.
"""

AUDIT_GUARD_PY = "embed_auditing_info"
AUDIT_GUARD_J2 = "nunavut.embed_auditing_info"

# key: (function qualname, kind-of-ambient-input)  ->  reason (becomes an assumption line in the evidence)
ALLOW = {
    ("nunavut.jinja:CodeGenerator._generate_code", "clock"):
        "utcnow() is stored only in env.now_utc; obligation `now_utc-only-read-by-templates` + template obligation cover its use",
    ("nunavut.jinja.environment:CodeGenEnvironment._create_platform_version", "platform#python_version"):
        "platform.python_version(): interpreter version, treated as part of the tool version (statement: 'tool version')",
    ("nunavut._namespace:Namespace.__hash__", "object identity / hash seed"):
        "hash of a str; only used for dict/set membership of Namespace objects (never iterated for output: obligation hash-ordered-iteration)",
    ("nunavut._utilities:DefaultValue.__hash__", "object identity / hash seed"):
        "hash of the wrapped value; DefaultValue objects are not used as keys of iterated collections",
    ("nunavut.jinja:DSDLCodeGenerator.filter_type_to_include_path", "absolute path"):
        "include_path.resolve() only under the template-supplied flag `resolve` (no built-in template passes it: obligation)",
    ("nunavut._postprocessors:ExternalProgramEditInPlace.__call__", "interpreter/platform"):
        "sys.executable is used to launch a user-supplied .py post-processor; its effect is the user program's (outside the property)",
    ("nunavut._namespace:Namespace.__init__", "absolute path"):
        "the output folder path object (absolute iff the caller's output dir is); only used to place files, never rendered unguarded: template obligation",
}

# hash-ordered iterations that are order-insensitive (site -> reason)
ALLOW_SET_ITERATION = {
    "nunavut.lang:LanguageContextBuilder._new_language_map":
        "iterates a set of language names to fill a dict keyed by name; consumers look languages up by key or sort "
        "(assumed: no template iterates get_supported_languages() for output)",
}

TEMPLATE_SOURCES = [
    (r"^now_utc$", "clock"),
    (r"source_file_path(?!\.(name|stem|suffix)\b)", "absolute source path"),
    (r"\boutput_folder\b|\bget_support_output_folder\b|\bget_root_namespace\(\)\.output_folder", "absolute output path"),
    (r"\bsource_file_path\.(parent|parents|anchor|drive|root)\b", "absolute source path"),
    # a whole type model handed to a serialising filter carries its (absolute) source_file_path along
    (r"\|(pickle|yamlfy)\b", "absolute source path inside the serialised type model"),
]


# keyed sorts / min / max over inputs whose order may be hash order: the key must be injective on the elements (or ties
# must be harmless); keyed by (function, key expression text) so that a changed key re-opens the obligation
INJECTIVE_SORT_KEYS = {
    ("nunavut.lang.html:_natural_sort", "lambda s: (natural_sort_key(s), key(s))"):
        "the raw name key(s) is part of the sort key: distinct namespaces have distinct full names; entries with equal "
        "full_name are versions of one type, which arrive from a dict view in insertion order (deterministic)",
    ("nunavut.lang.py:filter_newest_minor_version_aliases", "lambda x: int(x.version.minor)"):
        "max() over the types of one (short_name, major): the minor version is unique among them",
}

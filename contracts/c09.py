"""
C09 -- identifier stropping: contracts on TokenEncoder (nunavut/lang/_common.py) and the C / C++ failure handlers.

The encoder's configuration (keyword list, reserved patterns, encoding rules, prefixes, handlers) is read on every run
from the working tree by constructing the REAL TokenEncoder of each language natively and reading its fields; the
functions are then verified against contracts instantiated with these constants (the loops over configuration lists
are unrolled).  Regular expressions come from the compiled patterns' own text through CPython's regex parser (vk/pyre).

Assumed contracts on dependencies (listed in the evidence):
  * Pattern.match(s) is not None  <=>  s in match_lang(pattern)                       (vk/pyre.match_lang)
  * Pattern.sub(f, s) for patterns of the shape  [^] C{lo,hi} [$]  with one character class C:
        unanchored C+ :  result in ((Sigma \\ C) | img f)*;  s free of C => result == s;  the first character of s is kept
                         if it is not in C, otherwise the result starts with an image of f;  s != '' => result != ''
        ^C{lo,hi}     :  if s starts with a maximal run x of C (lo <= |x| <= hi) the result is f(x) + rest, else s
        C{lo,}$       :  if s (without '\\n') ends with a maximal run x of C (|x| >= lo) the result is rest + f(x), else s
  * ''.join(map(f, s)) is a concatenation of |s| images of f
  * format(n, '04X') for n >= 0 is in [0-9A-F]{4,};  str.isspace() == membership in (Unicode White_Space as \\s)+
  * re.match('^_+([A-Z]?)', s): greedy, classes disjoint: s == u + g + rest, u in _+, g in [A-Z]?, (g + rest) not in _.*,
    g == '' => rest not in [A-Z].*;  end() == |u| + |g|;  group(1) == g
  * str.lower() on g in [A-Z]? : '' -> '', an upper-case ASCII letter -> a lower-case ASCII letter (uninterpreted otherwise)
SMT strings range over code points <= 0x2FFFF; Python's go to 0x10FFFF (planes 3-16 are treated like every other
non-ASCII character by the class ranges, but are outside the solver's alphabet: stated assumption).
"""
import typing

from vk import pyre, smt
from vk.epy import (Contract, Loop, Raises, SBool, SInt, SObj, SStr, VBool, VConst, VInt, VNone, VObj, VOpt, VStr, NONE, TRUE, FALSE,
                    OutOfSubset, PyRaise, lift_py)
from vk.smt import And, Eq, Implies, Ite, Not, Or, app, str_lit

FILE = "nunavut/lang/_common.py"
OKCH = '(re.union (re.range "a" "z") (re.range "A" "Z") (re.range "0" "9") (str.to_re "_"))'
IDENT = f'(re.++ (re.union (re.range "a" "z") (re.range "A" "Z") (str.to_re "_")) (re.* {OKCH}))'
DIGIT0 = '(re.++ (re.range "0" "9") re.all)'
OKPLUS = f'(re.+ {OKCH})'
WS = pyre.ranges_to_re(pyre.category_ranges("space")) if hasattr(pyre, "category_ranges") else None


def in_re(t: str, r: str) -> str:
    return app("str.in_re", t, r)


def union(rs: typing.List[str]) -> str:
    if not rs:
        return "re.none"
    return rs[0] if len(rs) == 1 else app("re.union", *rs)


def lits(words: typing.List[str]) -> str:
    return union([app("str.to_re", str_lit(w)) for w in words])


class State:
    """concrete configuration of one language's real TokenEncoder + derived regular languages"""

    def __init__(self, lang: str):
        from nunavut.lang import LanguageContextBuilder
        self.lang = lang
        L = LanguageContextBuilder(include_experimental_languages=True).set_target_language(lang).create().get_target_language()
        e = L._token_encoder
        self.enc = e
        self.kw = list(e._reserved_identifiers)
        self.pat = dict(e._reserved_token_patterns_by_type)
        self.rules = dict(e._token_encoding_rules_by_identifier_type)
        self.pre, self.suf, self.encp = e._stropping_prefix, e._stropping_suffix, e._encoding_prefix
        self.ws = e._whitespace_encoding_char
        self.collapse = bool(e._collapse_whitespace_when_encoding)
        self.sh = e._stropping_failure_handler
        self.eh = e._encoding_failure_handler
        for v in (self.pre, self.suf, self.encp):
            if not isinstance(v, str):
                raise OutOfSubset(f"{lang}: stropping/encoding prefix is not a string: {v!r}")
        hexd = '(re.union (re.range "0" "9") (re.range "A" "F"))'
        enc_img = app("re.++", app("str.to_re", str_lit(self.encp)), app("(_ re.^ 4)", hexd), app("re.*", hexd))
        self.IMGCHAR = union(([app("str.to_re", str_lit(self.ws))] if self.ws is not None else []) + [enc_img])
        self.IMG = app("re.+", self.IMGCHAR)
        self.KW = lits(self.kw)

    def PAT(self, key: str) -> typing.Optional[str]:
        if key not in self.pat:
            return None
        return union([pyre.match_lang(p.pattern, p.flags) for p in self.pat[key]])

    def RULE_MATCH(self, key: str) -> typing.Optional[str]:
        if key not in self.rules:
            return None
        return union([pyre.match_lang(p.pattern, p.flags) for p in self.rules[key]])

    def RULE_SEARCH(self, key: str) -> typing.Optional[str]:
        if key not in self.rules:
            return None
        return union([pyre.search_lang(p.pattern, p.flags) for p in self.rules[key]])

    def self_spec(self) -> SObj:
        def handler(h):
            if h is None:
                return NONE
            return VConst(("contract", f"{h.__qualname__}"))
        return SObj("TokenEncoder", {
            "_reserved_token_patterns_by_type": VConst(("py", self.pat)),
            "_token_encoding_rules_by_identifier_type": VConst(("py", self.rules)),
            "_reserved_identifiers": VConst(("py", self.kw)),
            "_stropping_prefix": VStr(str_lit(self.pre)), "_stropping_suffix": VStr(str_lit(self.suf)), "_encoding_prefix": VStr(str_lit(self.encp)),
            "_whitespace_encoding_char": VStr(str_lit(self.ws)) if self.ws is not None else NONE,
            "_collapse_whitespace_when_encoding": TRUE if self.collapse else FALSE,
            "_stropping_failure_handler": handler(self.sh), "_encoding_failure_handler": handler(self.eh),
        })


def install(engine, st: State):
    I = engine.intrinsics
    U = engine.used
    wsre = pyre.match_lang(r"\s", 32).replace(" re.all)", ")", 1) if False else None  # noqa (kept simple below)
    space_cls = pyre.ranges_to_re(pyre.class_ranges(list(pyre.parse(r"\s", 32))[0][1] if list(pyre.parse(r"\s", 32))[0][0].name == "IN" else [list(pyre.parse(r"\s", 32))[0]]))

    # ---- strings ---------------------------------------------------------------------------------------------------
    def isspace(it, s):
        U("str.isspace(): non-empty and every character in the Unicode whitespace class of `\\s`")
        return VBool(in_re(s.t, app("re.+", space_cls)))

    I["String.isspace"] = isspace

    def lower(it, s):
        try:
            return VStr(str_lit(smt.smt_str(s.t).lower()))
        except AssertionError:
            pass
        U("str.lower() on the handler's captured group: '' -> '', [A-Z] -> [a-z] (uninterpreted otherwise)")
        r = VStr(it.ctx.fresh("String", "lower"))
        it.ctx.assume(Implies(Eq(s.t, '""'), Eq(r.t, '""')))
        it.ctx.assume(Implies(in_re(s.t, '(re.range "A" "Z")'), in_re(r.t, '(re.range "a" "z")')))
        return r

    I["String.lower"] = lower

    def fmt(it, tmpl, *args):
        text = smt.smt_str(tmpl.t)
        parts = text.split("{}")
        if len(parts) != len(args) + 1 or any("{" in p or "}" in p for p in parts) or not all(isinstance(a, VStr) for a in args):
            return VStr(it.ctx.fresh("String", "fmt"))
        out = []
        for i, p in enumerate(parts):
            if p:
                out.append(str_lit(p))
            if i < len(args):
                out.append(args[i].t)
        return VStr(app("str.++", *out) if len(out) > 1 else (out[0] if out else '""'))

    I["String.format"] = fmt

    def b_ord(it, c):
        return VInt(app("str.to_code", c.t))

    I["ord"] = b_ord

    def fmt04x(it, n):
        U("format(n, '04X') for n >= 0: at least four upper-case hexadecimal digits")
        r = VStr(it.ctx.fresh("String", "hex"))
        hexd = '(re.union (re.range "0" "9") (re.range "A" "F"))'
        it.ctx.assume(in_re(r.t, app("re.++", app("(_ re.^ 4)", hexd), app("re.*", hexd))))
        return r

    I["format:04X"] = fmt04x

    # "".join(map(f, s))
    I["map"] = lambda it, f, s: VConst(("mapped", f, s))

    def join(it, sep, mapped):
        if not (isinstance(mapped, VConst) and isinstance(mapped.obj, tuple) and mapped.obj[0] == "mapped" and sep.t == '""'):
            raise OutOfSubset("str.join")
        f, s = mapped.obj[1], mapped.obj[2]
        if not (isinstance(f, VConst) and f.obj[0] == "method" and f.obj[2] == "encode_character"):
            raise OutOfSubset("join(map(f, ...)) for an f without image contract")
        U("''.join(map(self.encode_character, s)): a concatenation of |s| images of encode_character (its proved postcondition)")
        r = VStr(it.ctx.fresh("String", "joined"))
        it.ctx.assume(in_re(r.t, app("re.*", st.IMGCHAR)))
        it.ctx.assume(Implies(app(">", app("str.len", s.t), "0"), app(">", app("str.len", r.t), "0")))
        return r

    I["String.join"] = join

    # ---- compiled patterns of the configuration ------------------------------------------------------------------------
    def is_pat(v):
        return isinstance(v, VConst) and isinstance(v.obj, tuple) and v.obj[0] == "py" and hasattr(v.obj[1], "pattern")

    def p_match(it, p, s):
        if not is_pat(p):
            raise OutOfSubset("match on a non-pattern")
        U("Pattern.match(s) is not None <=> s in the match language of the pattern text (vk/pyre.match_lang)")
        return VBool(in_re(s.t, pyre.match_lang(p.obj[1].pattern, p.obj[1].flags)))

    I["Const.match"] = p_match
    engine.isinstance_hooks["Const:str"] = lambda it, v: FALSE  # configuration strings are lifted to string literals; what stays opaque is a compiled pattern

    def p_sub(it, p, f, s):
        if not is_pat(p) or not (isinstance(f, VConst) and f.obj[0] == "method" and f.obj[2] == "_encoding_filter"):
            raise OutOfSubset("sub")
        shape = pyre.single_class_run(p.obj[1].pattern, p.obj[1].flags)
        if shape is None:
            raise OutOfSubset(f"re.sub contract: pattern {p.obj[1].pattern!r} is not a single class run")
        a_start, rs, lo, hi, a_end = shape
        U("Pattern.sub(self._encoding_filter, s) for single-class-run patterns: see the module docstring of contracts/c09.py")
        C = pyre.ranges_to_re(rs)
        NC = pyre.ranges_to_re(pyre._negate(list(rs)))
        ctx = it.ctx
        r = VStr(ctx.fresh("String", "sub"))
        IMG = st.IMG
        # no match anywhere => unchanged (the same fact as the shape-specific clauses below, in the vocabulary of the callers' contracts)
        ctx.assume(Implies(Not(in_re(s.t, pyre.search_lang(p.obj[1].pattern, p.obj[1].flags))), Eq(r.t, s.t)))
        run = app("re.++", app(f"(_ re.^ {lo})", C), app("re.*", C)) if hi is None else app(f"(_ re.loop {lo} {hi})", C)
        if not a_start and not a_end:
            if not (lo == 1 and hi is None):
                raise OutOfSubset("unanchored run with bounds")
            ctx.assume(in_re(r.t, app("re.*", app("re.union", NC, IMG))))
            ctx.assume(Implies(in_re(s.t, app("re.*", NC)), Eq(r.t, s.t)))
            ctx.assume(Implies(in_re(s.t, app("re.++", NC, "re.all")), Eq(app("str.at", r.t, "0"), app("str.at", s.t, "0"))))
            ctx.assume(Implies(in_re(s.t, app("re.++", C, "re.all")), in_re(r.t, app("re.++", IMG, "re.all"))))
            ctx.assume(Implies(Not(Eq(s.t, '""')), Not(Eq(r.t, '""'))))
            # the last character is kept likewise (needed for trailing-run rules applied afterwards)
            ctx.assume(Implies(in_re(s.t, app("re.++", "re.all", NC)), Eq(app("str.at", r.t, app("-", app("str.len", r.t), "1")), app("str.at", s.t, app("-", app("str.len", s.t), "1")))))
            ctx.assume(Implies(in_re(s.t, app("re.++", "re.all", C)), in_re(r.t, app("re.++", "re.all", IMG))))
            return r
        x, rest, img = ctx.fresh("String", "run"), ctx.fresh("String", "rest"), ctx.fresh("String", "img")
        # lemma (factor closure, by induction on length -- not provable by the solvers; checked by Lean: lean/Glue.lean L4_factor_closure): a factor of a word over an
        # alphabet A is a word over A; instantiated for A = identifier characters and the decomposition s == x ++ rest
        U("lemma 'factor closure': s in A* and s == x ++ rest (or rest ++ x) imply rest in A*, for A = [a-zA-Z0-9_] (Lean lemma L4_factor_closure, lean/Glue.lean)")
        okstar = app("re.*", OKCH)
        ctx.assume(Implies(in_re(s.t, okstar), in_re(rest, okstar)))
        # derived fact handed to the solver ready-made: every image is a word over A (proved here for an arbitrary image),
        # so with the lemma the whole result r (== img ++ rest, rest ++ img or s) is a word over A whenever s is
        ctx.prove(Implies(in_re(img, IMG), in_re(img, okstar)), "lemma", f"re.sub({p.obj[1].pattern!r}).images-are-identifier-characters")
        ctx.assume(Implies(in_re(s.t, okstar), in_re(r.t, okstar)))
        if a_start and not a_end:
            matched = in_re(s.t, app("re.++", run, "re.all"))
            maximal = Not(in_re(rest, app("re.++", C, "re.all"))) if hi is None else "true"
            ctx.assume(Implies(matched, And(Eq(s.t, app("str.++", x, rest)), in_re(x, run), maximal, in_re(img, IMG), Eq(r.t, app("str.++", img, rest)))))
            ctx.assume(Implies(Not(matched), Eq(r.t, s.t)))
            return r
        if a_end and not a_start:
            if hi is not None:
                raise OutOfSubset("bounded trailing run")
            # `$` also matches before a final newline: the contract is stated for newline-free strings (obligation)
            ctx.prove(in_re(s.t, app("re.*", pyre.ranges_to_re(pyre._negate([(10, 10)])))), "pre", f"re.sub({p.obj[1].pattern!r}).requires-no-newline")
            matched = in_re(s.t, app("re.++", "re.all", run))
            ctx.assume(Implies(matched, And(Eq(s.t, app("str.++", rest, x)), in_re(x, run), Not(in_re(rest, app("re.++", "re.all", C))), in_re(img, IMG), Eq(r.t, app("str.++", rest, img)))))
            ctx.assume(Implies(Not(matched), Eq(r.t, s.t)))
            return r
        raise OutOfSubset("run anchored at both ends")

    I["Const.sub"] = p_sub

    # ---- re.match(r"^_+([A-Z]?)", s) in the handlers ------------------------------------------------------------------
    def re_match(it, pat, s):
        text = smt.smt_str(pat.t)
        if text != r"^_+([A-Z]?)":
            raise OutOfSubset(f"re.match contract for {text!r}")
        U("re.match('^_+([A-Z]?)', s): greedy match with disjoint classes (see contracts/c09.py)")
        U("lemma 'factor closure' instantiated for s == u ++ g ++ rest in re.match (Lean lemma L4_factor_closure, lean/Glue.lean)")
        ctx = it.ctx
        okstar = app("re.*", OKCH)
        if not ctx.branch(VBool(in_re(s.t, '(re.++ (str.to_re "_") re.all)')), "re.match-succeeds"):
            return NONE
        u, rest = ctx.fresh("String", "us"), ctx.fresh("String", "rest")
        ctx.assume(in_re(u, '(re.+ (str.to_re "_"))'))
        ctx.assume(Implies(in_re(s.t, okstar), in_re(rest, okstar)))
        # two shapes of a successful match, explored as separate paths (each with positive, solver-friendly facts)
        if ctx.branch(VBool(in_re(s.t, '(re.++ (re.+ (str.to_re "_")) (re.range "A" "Z") re.all)')), "re.match-group-non-empty"):
            g = ctx.fresh("String", "grp")
            ctx.assume(in_re(g, '(re.range "A" "Z")'))
            ctx.assume(Eq(s.t, app("str.++", u, g, rest)))
            gv = VStr(g)
        else:
            # the run of underscores is maximal and no upper-case letter follows: rest is empty or starts with another character
            ctx.assume(Eq(s.t, app("str.++", u, rest)))
            ctx.assume(in_re(rest, '(re.opt (re.++ (re.diff re.allchar (re.union (re.range "A" "Z") (str.to_re "_"))) re.all))'))
            ctx.assume(Implies(in_re(s.t, okstar), in_re(rest, f'(re.opt (re.++ (re.union (re.range "a" "z") (re.range "0" "9")) (re.* {OKCH})))')))
            gv = VStr('""')
        end = app("+", app("str.len", u), app("str.len", gv.t)) if gv.t != '""' else app("str.len", u)
        m = ctx.new_obj("Match", {"_start": VInt("0"), "_end": VInt(end), "_g1": gv})
        ctx.__dict__.setdefault("known_suffix", {})[(s.t, end)] = rest  # s[m.end():] is `rest` (s == u ++ g ++ rest, end == |u| + |g|)
        return m

    engine.std_bindings = dict(engine.std_bindings)
    remod = dict(engine.std_bindings["re"].obj)
    remod["match"] = VConst(re_match)
    engine.std_bindings["re"] = VConst(remod)
    I["Match.group"] = lambda it, m, i: it.ctx.get_field(m, "_g1")
    engine.c09_match_rest = True

    # ---- dispatch of the per-configuration contract instances -------------------------------------------------------------
    def lit_of(v, what):
        try:
            return smt.smt_str(v.t)
        except (AssertionError, AttributeError):
            raise OutOfSubset(f"{what}: token type is not a literal")

    def d_matches(it, self_, s, patterns):
        key = engine.c09_lists.get(id(patterns.obj[1])) if isinstance(patterns, VConst) and isinstance(patterns.obj, tuple) else None
        if key is None:
            raise OutOfSubset("_matches on an unknown list")
        return it.call_contract(f"TokenEncoder._matches[{key}]", [self_, s, patterns], {})

    I["TokenEncoder._matches"] = d_matches
    for nm in ("_encode", "_strop_by_keyword", "_strop_by_pattern"):
        def d(it, self_, token, ttype, dry, nm=nm):
            k = lit_of(ttype, nm)
            key = f"TokenEncoder.{nm}[{k}]" if nm != "_strop_by_keyword" else "TokenEncoder._strop_by_keyword"
            if key not in engine.contracts:
                key = f"TokenEncoder.{nm}[<missing>]"
            return it.call_contract(key, [self_, token, ttype, dry], {})
        I[f"TokenEncoder.{nm}"] = d

    def d_dfta(it, self_, transform, token, ttype, dry):
        if not (isinstance(transform, VConst) and transform.obj[0] == "method"):
            raise OutOfSubset("_do_for_type_and_all with an unknown transform")
        return it.call_contract(f"TokenEncoder._do_for_type_and_all[{transform.obj[2]},{lit_of(ttype, 'dfta')}]", [self_, transform, token, ttype, dry], {})

    I["TokenEncoder._do_for_type_and_all"] = d_dfta
    engine.ghost_classes = set(getattr(engine, "ghost_classes", set())) | {"Match"}


def sm(term: str) -> str:
    """embed a raw SMT Bool term over contract expressions written as {0}, {1}, ...: smt('Bool', '<term>', args...)"""
    return term


def contracts(engine, st: State, id_types: typing.List[str]) -> typing.List[Contract]:
    """all contract instances of one language, callees first; they are also registered for modular calls"""
    S = st.self_spec
    out: typing.List[Contract] = []
    engine.c09_lists = {}
    lang = st.lang

    def reg(c: Contract, key: str):
        engine.add_contract(c, key)
        out.append(c)

    relangs = engine.__dict__.setdefault("c09_relangs", {})
    engine.spec_fns["inl"] = lambda it, n: VBool(in_re(it.eval(n.args[0]).t, relangs[n.args[1].value]))

    def mem(x: str, r: str) -> str:
        """membership of contract expression x in RegLan r (registered under a short name)"""
        name = next((k for k, v in relangs.items() if v == r), None)
        if name is None:
            name = f"{lang}.R{len(relangs)}"
            relangs[name] = r
        return f"inl({x}, '{name}')"

    T = f"{FILE}:TokenEncoder."
    # encode_character / _encoding_filter -----------------------------------------------------------------------------
    reg(Contract(result=SStr, target=T + "encode_character", params={"self": S(), "c": SStr}, requires=["len(c) == 1"],
                 ensures=[("image-is-the-whitespace-char-or-prefix-plus-hex", mem("result", st.IMGCHAR))], label=lang), "TokenEncoder.encode_character")
    reg(Contract(result=SStr, target=T + "_encoding_filter", params={"self": S(), "m": SObj("Match", {"string": SStr, "_start": SInt, "_end": SInt})},
                 requires=["0 <= m._start and m._start < m._end and m._end <= len(m.string)"],
                 ensures=[("replacement-consists-of-character-images", mem("result", st.IMG))], label=lang), "TokenEncoder._encoding_filter")
    # _matches per concrete list --------------------------------------------------------------------------------------------
    lists = [("keywords", st.kw, st.KW)]
    for k, v in st.pat.items():
        lists.append((f"patterns:{k}", v, st.PAT(k)))
    for tag, lst, lang_re in lists:
        engine.c09_lists[id(lst)] = tag
        reg(Contract(result=SBool, target=T + "_matches", params={"self": S(), "input_string": SStr, "patterns": VConst(("py", lst))}, loops={0: Loop(unroll=True)},
                     ensures=[("true-iff-some-entry-equals-or-matches", f"result == {mem('input_string', lang_re)}")], label=f"{lang}:{tag}", timeout=150), f"TokenEncoder._matches[{tag}]")
    # _strop_by_keyword ---------------------------------------------------------------------------------------------------------
    wrap = lambda x: f"'{st.pre}' + {x} + '{st.suf}'"  # noqa: E731
    kw = lambda x: mem(x, st.KW)  # noqa: E731
    reg(Contract(result=SStr, target=T + "_strop_by_keyword", params={"self": S(), "token": SStr, "token_type": SStr, "dry_run": SBool},
                 raises=[Raises("RuntimeError", f"dry_run and {kw('token')}")],
                 ensures=[("keyword-gets-prefix-and-suffix-anything-else-unchanged", f"result == ite({kw('token')}, {wrap('token')}, token)")], label=lang), "TokenEncoder._strop_by_keyword")
    # _strop_by_pattern per key ------------------------------------------------------------------------------------------------
    keys = sorted(set(list(st.pat) + ["all"] + id_types))
    for k in keys:
        P = st.PAT(k)
        if P is None:
            reg(Contract(result=SStr, target=T + "_strop_by_pattern", params={"self": S(), "token": SStr, "token_type": VStr(str_lit(k)), "dry_run": SBool},
                         raises=[Raises("KeyError", "True")], label=f"{lang}:{k}"), f"TokenEncoder._strop_by_pattern[{k}]")
            continue
        reg(Contract(result=SStr, target=T + "_strop_by_pattern", params={"self": S(), "token": SStr, "token_type": VStr(str_lit(k)), "dry_run": SBool},
                     raises=[Raises("RuntimeError", f"dry_run and {mem('token', P)}")],
                     ensures=[("reserved-pattern-gets-prefix-and-suffix-anything-else-unchanged", f"result == ite({mem('token', P)}, {wrap('token')}, token)")], label=f"{lang}:{k}"),
            f"TokenEncoder._strop_by_pattern[{k}]")
    # _encode per key ---------------------------------------------------------------------------------------------------------------
    rkeys = sorted(set(list(st.rules) + ["all"] + id_types))
    for k in rkeys:
        RM, RS = st.RULE_MATCH(k), st.RULE_SEARCH(k)
        if RM is None:
            reg(Contract(result=SStr, target=T + "_encode", params={"self": S(), "token": SStr, "token_type": VStr(str_lit(k)), "dry_run": SBool},
                         ensures=[("no-rules-for-this-type", "result == token")], loops={0: Loop(unroll=True)}, label=f"{lang}:{k}"), f"TokenEncoder._encode[{k}]")
            continue
        ens = [("dry-run-returns-the-token", "implies(dry_run, result == token)"),
               ("only-identifier-characters-remain", f"implies(not dry_run, {mem('result', app('re.*', OKCH))})"),
               ("nothing-to-encode-means-unchanged", f"implies(not dry_run and not {mem('token', RS)}, result == token)"),
               ("non-empty-stays-non-empty", "implies(not dry_run and len(token) > 0, len(result) > 0)")]
        ens += encode_extra(st, mem)
        reg(Contract(result=SStr, target=T + "_encode", params={"self": S(), "token": SStr, "token_type": VStr(str_lit(k)), "dry_run": SBool},
                     raises=[Raises("RuntimeError", f"dry_run and {mem('token', RM)}")], ensures=ens, loops={0: Loop(unroll=True)}, label=f"{lang}:{k}", timeout=150), f"TokenEncoder._encode[{k}]")
    # _do_for_type_and_all per transform and requested type ---------------------------------------------------------------------
    def bm(name):
        return lambda ctx, hint: VConst(("method", ctx.env["self"], name))

    def S1(x):
        return f"ite({kw(x)}, {wrap(x)}, {x})"

    okstar = app("re.*", OKCH)
    for t in id_types:
        two = t != "all"
        # -- _encode
        RMa, RSa = st.RULE_MATCH("all"), st.RULE_SEARCH("all")
        RMt, RSt = (st.RULE_MATCH(t), st.RULE_SEARCH(t)) if two else (None, None)
        rm = [r for r in (RMa, RMt) if r is not None]
        rs = [r for r in (RSa, RSt) if r is not None]
        if not rm:
            ens = [("no-rules", "result == token")]
            rai = []
        else:
            ens = [("dry-run-returns-the-token", "implies(dry_run, result == token)"),
                   ("only-identifier-characters-remain", f"implies(not dry_run, {mem('result', okstar)})"),
                   ("nothing-to-encode-means-unchanged", f"implies(not dry_run and not {mem('token', union(rs))}, result == token)"),
                   ("non-empty-stays-non-empty", "implies(not dry_run and len(token) > 0, len(result) > 0)")] + encode_extra(st, mem)
            rai = [Raises("RuntimeError", f"dry_run and {mem('token', union(rm))}")]
        reg(Contract(result=SStr, target=T + "_do_for_type_and_all", params={"self": S(), "transform": bm("_encode"), "token": SStr, "token_type": VStr(str_lit(t)), "dry_run": SBool},
                     raises=rai, ensures=ens, label=f"{lang}:_encode,{t}", timeout=150), f"TokenEncoder._do_for_type_and_all[_encode,{t}]")
        # -- _strop_by_keyword (applied for 'all' and again for the type: the keyword list is the same)
        res = S1(S1("token")) if two else S1("token")
        reg(Contract(result=SStr, target=T + "_do_for_type_and_all", params={"self": S(), "transform": bm("_strop_by_keyword"), "token": SStr, "token_type": VStr(str_lit(t)), "dry_run": SBool},
                     raises=[Raises("RuntimeError", f"dry_run and {kw('token')}")],
                     ensures=[("dry-run-returns-the-token", "implies(dry_run, result == token)"), ("keyword-stropping-applied-per-stage", f"implies(not dry_run, result == {res})"),
                              ("identifier-characters-are-preserved", f"implies({mem('token', okstar)}, {mem('result', okstar)})"),
                              ("non-empty-identifier-characters-are-preserved", f"implies({mem('token', OKPLUS)}, {mem('result', OKPLUS)})"),
                              ("identifiers-stay-identifiers", f"implies({mem('token', IDENT)}, {mem('result', IDENT)})")],
                     label=f"{lang}:_strop_by_keyword,{t}", timeout=150), f"TokenEncoder._do_for_type_and_all[_strop_by_keyword,{t}]")
        # -- _strop_by_pattern
        Pa, Pt = st.PAT("all"), (st.PAT(t) if two else None)
        r1 = f"ite({mem('token', Pa)}, {wrap('token')}, token)" if Pa is not None else "token"
        r2 = f"ite(inl2({r1}, '{t}'), {wrap(r1)}, {r1})" if Pt is not None else r1
        if Pt is not None:
            engine.spec_fns["inl2"] = lambda it, n, _st=st: VBool(in_re(it.eval(n.args[0]).t, _st.PAT(n.args[1].value)))
        pr = [r for r in (Pa, Pt) if r is not None]
        # a language whose encoding rules leave a leading digit alone must reserve it by pattern (then stropping fixes it)
        digit_stage = [] if any(n == "does-not-start-with-a-digit" for n, _ in encode_extra(st, mem)) else \
            [("a-leading-digit-is-stropped-into-an-identifier", f"implies(not dry_run and {mem('token', OKPLUS)}, {mem('result', IDENT)})")]
        reg(Contract(result=SStr, target=T + "_do_for_type_and_all", params={"self": S(), "transform": bm("_strop_by_pattern"), "token": SStr, "token_type": VStr(str_lit(t)), "dry_run": SBool},
                     raises=[Raises("RuntimeError", f"dry_run and {mem('token', union(pr))}")] if pr else [],
                     ensures=[("dry-run-returns-the-token", "implies(dry_run, result == token)"), ("pattern-stropping-applied-per-stage", f"implies(not dry_run, result == {r2})"),
                              ("identifier-characters-are-preserved", f"implies({mem('token', okstar)}, {mem('result', okstar)})"),
                              ("identifiers-stay-identifiers", f"implies({mem('token', IDENT)}, {mem('result', IDENT)})")] + digit_stage,
                     label=f"{lang}:_strop_by_pattern,{t}", timeout=150), f"TokenEncoder._do_for_type_and_all[_strop_by_pattern,{t}]")
    # failure handlers ------------------------------------------------------------------------------------------------------------------
    SAFE = '(re.++ (str.to_re "_") (re.opt (re.++ (re.diff re.allchar (re.union (re.range "A" "Z") (str.to_re "_"))) re.all)))'
    US = '(re.++ (str.to_re "_") re.all)'
    SAFE_ID = f'(re.++ (str.to_re "_") (re.opt (re.++ (re.union (re.range "a" "z") (re.range "0" "9")) (re.* {OKCH}))))'
    for h, file in ((st.sh, None), (st.eh, None)):
        if h is None or h.__qualname__ in engine.contracts:
            continue
        import inspect
        import pathlib
        rel = pathlib.Path(inspect.getsourcefile(h)).resolve().relative_to(engine.src_root.resolve()).as_posix()
        reg(Contract(result=SStr, target=f"{rel}:{h.__qualname__}",
                     params={"encoder": S(), "stropped": SStr, "token_type": SStr, "pending_error": VConst(("exception", "RuntimeError"))},
                     raises=[Raises("RuntimeError", f"not {mem('stropped', US)}")],
                     ensures=[("result-is-one-underscore-then-neither-upper-case-nor-underscore", mem("result", SAFE)),
                              ("identifier-characters-are-preserved", f"implies({mem('stropped', okstar)}, {mem('result', okstar)})"),
                              ("on-identifier-characters-the-result-is-underscore-then-lower-case-or-digit", f"implies({mem('stropped', okstar)}, {mem('result', SAFE_ID)})"),
                              ("identifiers-stay-identifiers", f"implies({mem('stropped', IDENT)}, {mem('result', IDENT)})")],
                     label=lang), h.__qualname__)
    # strop ---------------------------------------------------------------------------------------------------------------------------------
    for t in id_types:
        two = t != "all"
        Pa, Pt = st.PAT("all"), (st.PAT(t) if two else None)
        RSa, RSt = st.RULE_SEARCH("all"), (st.RULE_SEARCH(t) if two else None)
        pr = [r for r in (Pa, Pt) if r is not None]
        rs = [r for r in (RSa, RSt) if r is not None]
        reserved = lambda x: " or ".join([kw(x)] + ([mem(x, union(pr))] if pr else []))  # noqa: E731
        clean = f"{mem('token', IDENT)} and not ({reserved('token')})" + (f" and not {mem('token', union(rs))}" if rs else "")
        reg(Contract(result=SStr, target=T + "strop", params={"self": S(), "token": SStr, "token_type": VStr(str_lit(t))}, requires=["len(token) > 0"],
                     raises=[Raises("RuntimeError", f"not ({clean})", must=False)],  # an error is an allowed outcome, but never for a clean identifier
                     ensures=[("result-is-a-syntactically-valid-identifier", mem("result", IDENT)),
                              ("result-is-not-a-reserved-identifier", f"not {kw('result')}"),
                              ("result-matches-no-reserved-pattern", f"not ({mem('result', union(pr))})" if pr else "True"),
                              ("valid-unreserved-identifiers-are-returned-unchanged", f"implies({clean}, result == token)")],
                     label=f"{lang}:{t}", timeout=300), f"TokenEncoder.strop[{t}]")
    return out


def encode_extra(st: State, mem) -> typing.List[typing.Tuple[str, str]]:
    """language-specific facts the encoded token satisfies (what the identifier syntax needs beyond the character set)"""
    ens = []
    first_digit_rule = any(pyre.single_class_run(p.pattern, p.flags) and pyre.single_class_run(p.pattern, p.flags)[0] and (48, 57) in [r for r in pyre.single_class_run(p.pattern, p.flags)[1] if r == (48, 57)]
                           for p in st.rules.get("all", []))
    if first_digit_rule:
        ens.append(("does-not-start-with-a-digit", f"implies(not dry_run, not {mem('result', DIGIT0)})"))
        ens.append(("non-empty-token-encodes-to-an-identifier", f"implies(not dry_run and len(token) > 0, {mem('result', IDENT)})"))
    else:
        ens.append(("non-empty-token-encodes-to-identifier-characters", f"implies(not dry_run and len(token) > 0, {mem('result', OKPLUS)})"))
    return ens

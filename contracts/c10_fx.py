"""
C10 -- per-type output ignores siblings, order and earlier runs.  Shared-state frame (E-FX).

Every write to state that outlives the generation of one file (object attributes outside __init__, class attributes,
module globals, memoising decorators) found in the library is classified here.  An unclassified site fails.

  reset   : re-initialised at the start of every file, before the template is rendered (obligation: the resetting
            statement is in CodeGenerator._generate_code before the output file is opened)
  cache   : transparent memoisation of a function of its key only (purity assumed here; C09/C16 prove it for
            TokenEncoder.strop and the template lookup)
  build   : written only while the namespace tree / configuration / environment is built (obligation: not
            reachable from the per-file entry points)
  run     : written once per generate_all from run-level inputs only (same value for every file of the run)
"""

CLASSIFY = {
    "nunavut._namespace:Namespace._add_data_type": ("build", "namespace tree construction"),
    "nunavut._namespace:Namespace._add_nested_namespace": ("build", "namespace tree construction"),
    "nunavut._namespace:_NamespaceFactory.get_or_make_namespace": ("build", "namespace tree construction"),
    "nunavut.jinja.environment:CodeGenEnvironment._add_support_from_language_module_to_environment": ("run", "environment set-up / update_nunavut_globals"),
    "nunavut.jinja.environment:CodeGenEnvironment._update_language_support": ("run", "update_nunavut_globals: language globals"),
    "nunavut.jinja.environment:CodeGenEnvironment.now_utc": ("reset", "self._env.now_utc = ..."),
    "nunavut.jinja.environment:CodeGenEnvironmentBuilder.add_filters": ("build", "environment builder"),
    "nunavut.jinja.environment:CodeGenEnvironmentBuilder.add_globals": ("build", "environment builder"),
    "nunavut.jinja.environment:CodeGenEnvironmentBuilder.add_tests": ("build", "environment builder"),
    "nunavut.jinja.environment:CodeGenEnvironmentBuilder.set_allow_filter_test_or_use_query_overwrite": ("build", "environment builder"),
    "nunavut.jinja.environment:CodeGenEnvironmentBuilder.set_extensions": ("build", "environment builder"),
    "nunavut.jinja.environment:CodeGenEnvironmentBuilder.set_lstrip_blocks": ("build", "environment builder"),
    "nunavut.jinja.environment:CodeGenEnvironmentBuilder.set_trim_blocks": ("build", "environment builder"),
    "nunavut.jinja.loaders:DSDLTemplateLoader._type_to_template_internal": ("cache", "type -> template name, keyed by type (C16)"),
    "nunavut.lang._common:TokenEncoder.strop": ("cache", "lru_cache keyed by (encoder, token, type); strop is a function of its arguments and the immutable configuration (C09)", {"memoised:lru_cache"}),
    "nunavut._utilities:cached_property.__get__": ("cache", "the cached_property mechanism: one value per instance, stored in the instance's own __dict__", {"instance.__dict__"}),
    "nunavut.lang._common:UniqueNameGenerator.__call__": ("reset", "UniqueNameGenerator.reset()", {"self._index_map"}),
    "nunavut.lang._common:UniqueNameGenerator.reset": ("reset", "UniqueNameGenerator.reset()", {"cls._singleton"}),
    "nunavut.lang._config:LanguageConfig.add_section": ("build", "configuration"),
    "nunavut.lang._config:LanguageConfig.set": ("build", "configuration"),
    "nunavut.lang._config:LanguageConfig.update_section": ("build", "configuration"),
    "nunavut.lang._config:VersionReader.version": ("cache", "module version, read once"),
    "nunavut.lang._language:Language.get_dependency_builder": ("cache", "lru_cache keyed by the type", {"memoised:lru_cache"}),
    "nunavut.lang._language:Language.get_globals": ("cache", "globals map computed once from configuration"),
    "nunavut.lang._language:LanguageClassLoader.config": ("cache", "configuration loaded once"),
    "nunavut.lang._language:LanguageClassLoader.load_language_class": ("cache", "class lookup keyed by name", {"memoised:lru_cache"}),
    "nunavut.lang.c:Language._token_encoder": ("cache", "TokenEncoder built once from configuration", {"memoised:cached_property"}),
    "nunavut.lang.cpp:Language._token_encoder": ("cache", "TokenEncoder built once from configuration", {"memoised:cached_property"}),
    "nunavut.lang.py:Language._token_encoder": ("cache", "TokenEncoder built once from configuration", {"memoised:cached_property"}),
    "nunavut.lang.cpp:_make_textwrap": ("cache", "lru_cache keyed by its arguments", {"memoised:lru_cache"}),
    "nunavut.lang:LanguageContext.get_supported_languages": ("cache", "language map built once"),
    "nunavut.lang:LanguageContextBuilder.set_target_language": ("build", "context builder"),
    "nunavut.lang:LanguageContextBuilder.set_target_language_configuration_override": ("build", "context builder"),
}

# in-place mutation of a parameter that is fine: the parameter is the object the function exists to fill
PARAM_MUTATION_OK = {
    "nunavut.jinja.environment:CodeGenEnvironment._add_to_environment": "`collection` is the environment's own filter/test/global table: filling it is the function's purpose (construction time)",
    "nunavut.lang.cpp:Language._validate_globals": "globals_map is the fresh dict Language.get_globals() creates and caches",
    "nunavut.lang.cpp:Language._validate_language_options": "options is this language object's own option map, filled once in Language.__init__ (configuration time)",
    "nunavut.lang.py:Language._validate_language_options": "options is this language object's own option map, filled once in Language.__init__ (configuration time)",
    "nunavut._dependencies:DependencyBuilder._extract_dependent_types": "inout_dependencies is the accumulator the recursion fills",
    "nunavut._dependencies:DependencyBuilder._extract_dependent_types_handle_array_type": "inout_dependencies is the accumulator",
}

PER_FILE_ROOTS = ["nunavut.jinja:DSDLCodeGenerator._generate_type", "nunavut.jinja:SupportGenerator._generate_header",
                  "nunavut.jinja:SupportGenerator._copy_header"]

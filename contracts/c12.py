"""
C12 -- regeneration over existing output.  Ghost file system for ONE path p: (exists, mode, content).

Assumed contracts (OS / pathlib): Path.exists() reads `exists`; Path.stat().st_mode reads `mode`; Path.chmod(m)
requires exists and sets mode := m; open(p, 'w') requires (not exists) or owner-write bit in mode, truncates, keeps the
mode of an existing file.
"""
from vk.epy import Contract, Loop, Raises, SBool, SConst, SInt, SObj, SStr, VBool, VInt, VObj, VConst, NONE
from vk.smt import app

PATH = SObj("GhostPath", {"exists_": SBool, "mode": SInt, "content": SStr})


def install(engine):
    I = engine.intrinsics
    engine.used("pathlib.Path.exists/stat/chmod on one path modelled by ghost fields (exists_, mode, content); chmod requires the file to exist")
    I["GhostPath.exists"] = lambda it, p: it.ctx.get_field(p, "exists_")

    def stat(it, p):
        from vk.epy import PyRaise
        if not it.ctx.branch(it.ctx.get_field(p, "exists_"), "stat-existing"):
            raise PyRaise("FileNotFoundError")
        return it.ctx.new_obj("StatResult", {"st_mode": it.ctx.get_field(p, "mode")})

    I["GhostPath.stat"] = stat

    def chmod(it, p, m):
        from vk.epy import PyRaise
        if not it.ctx.branch(it.ctx.get_field(p, "exists_"), "chmod-existing"):
            raise PyRaise("FileNotFoundError")
        it.ctx.set_field(p, "mode", m)
        return NONE

    I["GhostPath.chmod"] = chmod

    def bitor(it, a, b):
        # permission bits: 16-bit vectors are enough for st_mode
        return VInt(f"(bv2nat (bvor ((_ int2bv 16) {a.t}) ((_ int2bv 16) {b.t})))")

    engine.binop_hooks["Int.BitOr"] = bitor
    engine.binop_hooks["Int.BitAnd"] = lambda it, a, b: VInt(f"(bv2nat (bvand ((_ int2bv 16) {a.t}) ((_ int2bv 16) {b.t})))")
    engine.binop_hooks["Int.BitXor"] = lambda it, a, b: VInt(f"(bv2nat (bvxor ((_ int2bv 16) {a.t}) ((_ int2bv 16) {b.t})))")

    def owner_writable(it, n):
        m = it.eval(n.args[0])
        return VBool(f"(= (mod (div {m.t} 128) 2) 1)")

    engine.spec_fns["owner_writable"] = owner_writable
    engine.spec_fns["bits_or"] = lambda it, n: bitor(it, it.eval(n.args[0]), it.eval(n.args[1]))


HANDLE_OVERWRITE = Contract(
    target="nunavut/jinja/__init__.py:CodeGenerator._handle_overwrite",
    params={"self": SObj("CodeGenerator", {}), "output_path": PATH, "allow_overwrite": SBool},
    requires=["0 <= output_path.mode and output_path.mode < 65536"],
    raises=[Raises("PermissionError", "output_path.exists_ and not allow_overwrite",
                   ensures=[("conflict-leaves-the-file-alone", "output_path.mode == old(output_path.mode) and output_path.content == old(output_path.content) and output_path.exists_")])],
    ensures=[
        ("existing-file-becomes-owner-writable", "implies(old(output_path.exists_), owner_writable(output_path.mode))"),
        ("only-write-bits-added", "implies(old(output_path.exists_), output_path.mode == bits_or(old(output_path.mode), 144))"),
        ("content-untouched", "output_path.content == old(output_path.content) and output_path.exists_ == old(output_path.exists_)"),
        ("absent-path-untouched", "implies(not old(output_path.exists_), output_path.mode == old(output_path.mode))"),
    ],
    modifies=["output_path.mode"],
)

SET_FILE_MODE = Contract(
    target="nunavut/_postprocessors.py:SetFileMode.__call__",
    params={"self": SObj("SetFileMode", {"_file_mode": SInt}), "generated": PATH},
    requires=["generated.exists_", "0 <= generated.mode and generated.mode < 65536", "0 <= self._file_mode and self._file_mode < 4096"],
    ensures=[("requested-permission-bits", "generated.mode == self._file_mode"), ("same-path-returned", "result is generated"),
             ("content-untouched", "generated.content == old(generated.content)")],
    modifies=["generated.mode"],
)


SET_FILE_MODE_INIT = Contract(
    target="nunavut/_postprocessors.py:SetFileMode.__init__",
    params={"self": SObj("SetFileMode", {"_file_mode": SInt}), "file_mode": SInt},
    # the mode handed to every generated file is the REQUESTED one: nothing of the process (umask, platform) enters
    ensures=[("requested-mode-is-kept-as-given", "self._file_mode == file_mode")],
    modifies=["self._file_mode"],
)

"""
C13 -- configuration sources are merged with a fixed precedence.  Contracts over the nested-value datatype of
vk/valtheory.py (value semantics).  The merge specification M/Mk is written from the property statement.
"""
from vk.epy import Contract, Loop, Raises, SBool, SConst, SData, SInt, SObj, SOpt, SStr, STuple
from vk.valtheory import PRELUDE

VAL = SData("Val")
DV_CLASS = ("class", "DefaultValue", {})

ASSIGN = Contract(
    target="nunavut/_utilities.py:DefaultValue.assign_to_if_not_default",
    params={"cls": SConst(DV_CLASS), "target": VAL, "key": SStr, "value": VAL},
    requires=["is_map(target)", "present(value)"],
    result=VAL,
    ensures=[
        ("default-never-displaces-explicit",
         "implies(is_dflt(value) and present(at(old(target), key)) and not is_dflt(at(old(target), key)),"
         " target == old(target) and result == at(old(target), key))"),
        ("otherwise-assigned",
         "implies(not (is_dflt(value) and present(at(old(target), key)) and not is_dflt(at(old(target), key))),"
         " target == put(old(target), key, value) and result == value)"),
    ],
    modifies=["target"],
    bindings={"DefaultValue": DV_CLASS},
    decls=PRELUDE,
    theory="datatype",
)

DEEP = Contract(
    target="nunavut/_utilities.py:deep_update",
    params={"target": VAL, "source": VAL},
    requires=["is_map(source)", "present(target)"],
    result=VAL,
    ensures=[("result-is-the-merge", "result == M(old(target), source)")],
    modifies=["target"],
    decreases="depth(source)",
    loops={0: Loop(invariant=[
        "is_map(target)",
        "forall('String', lambda k: at(target, k) == ite(processed(k), Mk(old(target), source, k), at(old(target), k)))",
        "forall('String', lambda k: implies(processed(k), present(at(source, k))))",
    ])},
    bindings={"DefaultValue": DV_CLASS, "DeepUpdateT": "T", "deep_update": ("contract", "deep_update")},
    decls=PRELUDE,
    theory="datatype",
    timeout=30,
)

# no_default_value(func).wrapper : strips a DefaultValue at the top level
FUNC_ANY = Contract(
    target="nunavut/_utilities.py:no_default_value",  # the decorated function: arbitrary result
    params={},
    result=VAL,
    ensures=[("ghost", "result == raw")],
    requires=[],
)

WRAPPER = Contract(
    target="nunavut/_utilities.py:no_default_value.wrapper",
    params={},  # *args/**kwargs are passed through untouched; checked syntactically by the binder below
    ghost={"raw": VAL},
    requires=["present(raw)"],
    ensures=[("never-returns-a-DefaultValue", "not is_dflt(result)"),
             ("same-value", "result == undefault(raw)")],
    bindings={"DefaultValue": DV_CLASS, "func": ("contract", "func")},
    decls=PRELUDE,
    theory="datatype",
)

UPDATE_SECTION = Contract(
    target="nunavut/lang/_config.py:LanguageConfig.update_section",
    params={"self": SObj("LanguageConfig", {"_sections": VAL}), "section_name": SStr, "configuration": VAL},
    requires=["is_map(self._sections)", "is_map(configuration)"],
    ensures=[
        ("section-is-merged",
         "self._sections == put(old(self._sections), section_name, M(or_empty(at(old(self._sections), section_name)), configuration))"),
    ],
    modifies=["self._sections"],
    bindings={"deep_update": ("contract", "deep_update")},
    decls=PRELUDE,
    theory="datatype",
)

UNSET = SData("Val")

GET_RAW = Contract(
    target="nunavut/lang/_config.py:LanguageConfig._get_config_value_raw",
    params={"self": SObj("LanguageConfig", {"_sections": VAL, "_UNSET": VAL}), "section_name": SStr, "key": SStr,
            "default_value": VAL},
    requires=["is_map(self._sections)", "present(default_value)",
              "implies(present(at(self._sections, section_name)), is_map(at(self._sections, section_name)))"],
    raises=[Raises("KeyError",
                   "default_value is self._UNSET and (not present(at(self._sections, section_name))"
                   " or not present(at(at(self._sections, section_name), key)))")],
    ensures=[
        ("value-if-present",
         "implies(present(at(self._sections, section_name)) and present(at(at(self._sections, section_name), key)),"
         " result == at(at(self._sections, section_name), key))"),
        ("default-otherwise",
         "implies(not (present(at(self._sections, section_name)) and present(at(at(self._sections, section_name), key))),"
         " result == default_value)"),
        ("config-untouched", "self._sections == old(self._sections)"),
    ],
    decls=PRELUDE,
    theory="datatype",
)

WRAPPER.params = {}

# LanguageConfig.update: every section of the document is merged into the section of the same name
SEC_PATTERN = SObj("Pattern", {})
UPDATE = Contract(
    target="nunavut/lang/_config.py:LanguageConfig.update",
    params={"self": SObj("LanguageConfig", {"_sections": VAL, "SECTION_NAME_PATTERN": SEC_PATTERN}), "configuration": VAL},
    requires=["is_map(self._sections)", "is_map(configuration)",
              "forall('String', lambda q: implies(present(at(configuration, q)), is_map(at(configuration, q))))"],
    ensures=[
        ("every-section-merged-others-kept",
         "forall('String', lambda q: at(self._sections, q) == ite(present(at(configuration, q)),"
         " M(or_empty(at(old(self._sections), q)), at(configuration, q)), at(old(self._sections), q)))"),
    ],
    raises=[Raises("ValueError", "True", must=False)],  # invalid section name (pattern check abstracted)
    modifies=["self._sections"],
    loops={0: Loop(invariant=[
        "is_map(self._sections)",
        "forall('String', lambda q: at(self._sections, q) == ite(processed(q),"
        " M(or_empty(at(old(self._sections), q)), at(configuration, q)), at(old(self._sections), q)))",
        "forall('String', lambda q: implies(processed(q), present(at(configuration, q))))",
    ])},
    decls=PRELUDE,
    theory="datatype",
)

UPDATE_SECTION_CALLEE = UPDATE_SECTION  # used modularly from update()

SET_OVERRIDE = Contract(
    target="nunavut/lang/__init__.py:LanguageContextBuilder.set_target_language_configuration_override",
    params={"self": SObj("LanguageContextBuilder", {"_target_language_config": VAL}), "key": SStr, "value": VAL},
    requires=["is_map(self._target_language_config)", "present(value)"],
    ensures=[
        ("None-leaves-overrides-untouched", "implies(value is None, self._target_language_config == old(self._target_language_config))"),
        ("otherwise-recorded", "implies(value is not None, self._target_language_config == put(old(self._target_language_config), key, value))"),
    ],
    modifies=["self._target_language_config"],
    decls=PRELUDE,
    theory="datatype",
)

# cpp: the language-standard shorthand sets its documented group of options as a unit, nothing else changes
CPP_VALIDATE = Contract(
    target="nunavut/lang/cpp/__init__.py:Language._validate_language_options",
    params={"self": SObj("CppLanguage", {}), "defaults": VAL, "options": VAL},
    requires=["is_map(defaults)", "is_map(options)",
              "implies(present(at(options, 'std')), is_str(at(options, 'std')))",
              "forall('String', lambda q: implies(present(at(defaults, q)), is_map(at(defaults, q))))"],
    result=VAL,
    ensures=[
        ("shorthand-sets-its-group-as-a-unit",
         "implies(present(at(defaults, skey(at(old(options), 'std')))),"
         " result == overlay(old(options), at(defaults, skey(at(old(options), 'std')))))"),
        ("no-shorthand-nothing-changes",
         "implies(not present(at(defaults, skey(at(old(options), 'std')))), result == old(options))"),
    ],
    raises=[Raises("ValueError", "not present(at(options, 'std'))"),
            Raises("ValueError", "True", must=False)],  # ctor_convention validation (abstracted)
    modifies=["options"],
    bindings={"ConstructorConvention": ("class", "ConstructorConvention", {"DEFAULT": ("enum", "ConstructorConvention.DEFAULT")})},
    decls=PRELUDE,
    theory="datatype",
)

# ---- CLI: store_true flags must be default-marked when not given, so that they cannot displace file values ----------
ARGS = SObj("Args", {
    "target_endianness": VAL, "omit_float_serialization_support": SBool, "enable_serialization_asserts": SBool,
    "enable_override_variable_array_capacity": SBool, "language_standard": VAL, "configuration": VAL,
    "target_language": VAL, "experimental_languages": SBool, "output_extension": VAL, "namespace_output_stem": VAL,
})
BUILDER = SObj("LanguageContextBuilder", {"_target_language_config": VAL})

B_OPAQUE = lambda name, params: Contract(  # noqa: E731  builder methods that do not touch the override map (frame assumed; E-FX checks it)
    target=f"nunavut/lang/__init__.py:LanguageContextBuilder.{name}", params=dict({"self": BUILDER}, **params), result=None)

B_SET_EXT = Contract(
    target="nunavut/lang/__init__.py:LanguageContextBuilder.set_target_language_extension",
    params={"self": BUILDER, "target_language_extension": VAL},
    requires=["is_map(self._target_language_config)", "present(target_language_extension)"],
    ensures=[("options-untouched", "at(self._target_language_config, 'options') == at(old(self._target_language_config), 'options')"),
             ("still-a-map", "is_map(self._target_language_config)")],
    modifies=["self._target_language_config"],
    bindings={"Language": ("class", "Language", {"WKCV_DEFINITION_FILE_EXTENSION": None})},
    decls=PRELUDE, theory="datatype",
)

B_CREATE = Contract(
    target="nunavut/lang/__init__.py:LanguageContextBuilder.create",
    params={"self": BUILDER},
    # call-site requirement taken from the property: a flag that was not given on the command line reaches the merge
    # default-marked, a given flag as an explicit True; optional values only when given
    requires=[
        "at(at(self._target_language_config, 'options'), 'omit_float_serialization_support') == ite(g_omit, smt('Val', '(leaf (abool true))'), smt('Val', '(dflt (abool false))'))",
        "at(at(self._target_language_config, 'options'), 'enable_serialization_asserts') == ite(g_asserts, smt('Val', '(leaf (abool true))'), smt('Val', '(dflt (abool false))'))",
        "at(at(self._target_language_config, 'options'), 'enable_override_variable_array_capacity') == ite(g_override, smt('Val', '(leaf (abool true))'), smt('Val', '(dflt (abool false))'))",
        "at(at(self._target_language_config, 'options'), 'target_endianness') == ite(g_endian is None, ABSENT(), g_endian)",
        "at(at(self._target_language_config, 'options'), 'std') == ite(g_std is None, ABSENT(), g_std)",
    ],
    result=SObj("LanguageContext", {}),
    decls=PRELUDE, theory="datatype",
)

CLI_CONTEXT = Contract(
    target="nunavut/cli/runners.py:ArgparseRunner._create_language_context",
    params={"self": SObj("ArgparseRunner", {"_args": ARGS})},
    ghost={"g_omit": SBool, "g_asserts": SBool, "g_override": SBool, "g_endian": VAL, "g_std": VAL},
    requires=["g_omit == self._args.omit_float_serialization_support", "g_asserts == self._args.enable_serialization_asserts",
              "g_override == self._args.enable_override_variable_array_capacity", "g_endian == self._args.target_endianness",
              "g_std == self._args.language_standard", "present(g_endian)", "present(g_std)",
              "present(self._args.output_extension)", "present(self._args.namespace_output_stem)",
              "not is_dflt(g_endian)", "not is_dflt(g_std)"],
    ensures=[],
    may_raise_other=True,
    bindings={
        "DefaultValue": DV_CLASS,
        "LanguageContextBuilder": ("class", "LanguageContextBuilder", {}),
        "Language": ("class", "Language", {"WKCV_NAMESPACE_FILE_STEM": None, "WKCV_LANGUAGE_OPTIONS": None}),
        "pathlib": {"Path": ("class", "Path", {})},
    },
    decls=PRELUDE, theory="datatype",
)

"""
C13, aliasing clause "the source documents are left unmodified": ownership (freshness) obligation on deep_update,
decided on the real AST.

Every value that deep_update stores into `target` (or returns as the new target) must be
  * owned by target already / fresh:   `{}`, `target.get(key, {})`, `target[...]`
  * the result of a recursive deep_update whose first argument is owned/fresh (its own contract gives: the result is
    that first argument mutated in place, or a deep-fresh copy of the source),
  * a deep copy:                        copy.deepcopy(<anything>)
  * or a non-map leaf of the source (scalars/lists are shared by reference; the merge never mutates them in place --
    checked: no mutating method call on anything but `target`).
A shallow copy (copy.copy / dict(x) / x.copy()) of a source map is NOT fresh: nested maps stay shared.
"""
import ast
import typing

from vk import efx


def classify(e: ast.expr, fresh_names: typing.Set[str]) -> str:
    t = ast.unparse(e)
    if isinstance(e, ast.Dict) and not e.keys:
        return "fresh"
    if isinstance(e, ast.Call):
        f = ast.unparse(e.func)
        if f in ("copy.deepcopy", "deepcopy"):
            return "fresh"
        if f in ("copy.copy", "dict", "copy") or f.endswith(".copy"):
            return "shallow"
        if f == "target.get":
            return "owned" if len(e.args) < 2 or classify(e.args[1], fresh_names) in ("fresh", "owned") else "borrowed"
        if f == "deep_update":
            a = classify(e.args[0], fresh_names)
            return "owned" if a in ("fresh", "owned") else a
        if f in ("cast", "typing.cast"):
            return classify(e.args[1], fresh_names)
        return "unknown"
    if isinstance(e, ast.Subscript) and ast.unparse(e.value) == "target":
        return "owned"
    if isinstance(e, ast.Name):
        if e.id == "target" or e.id in fresh_names:
            return "owned"
        return "borrowed"
    return "unknown"


def check(fn: ast.FunctionDef, assign_fn: ast.FunctionDef) -> typing.List[typing.Tuple[str, typing.Optional[bool], str]]:
    """-> list of (obligation name, ok | None, detail)"""
    out = []
    n_store = 0
    for node, guards in efx.walk_with_guards(fn):
        if isinstance(node, ast.Assign):
            for t in node.targets:
                is_store = isinstance(t, ast.Subscript) and ast.unparse(t.value) == "target"
                is_rebind = isinstance(t, ast.Name) and t.id == "target"
                if not (is_store or is_rebind):
                    continue
                n_store += 1
                c = classify(node.value, set())
                name = f"deep_update#freshness:store{n_store}@{ast.unparse(t)}"
                if c in ("fresh", "owned"):
                    out.append((name, True, f"{ast.unparse(node.value)} is {c}"))
                elif c == "unknown":
                    out.append((name, None, f"cannot classify {ast.unparse(node.value)}"))
                else:
                    out.append((name, False, f"line {node.lineno}: `{ast.unparse(node)}` stores a {c} reference: nested maps of the "
                                             "source document stay shared with the merged configuration"))
        if isinstance(node, ast.Call):
            f = ast.unparse(node.func)
            if f.endswith("assign_to_if_not_default"):
                # stores `value` by reference: allowed only for non-map leaves (guard: not isinstance(value, Mapping))
                ok = efx.guard_holds(guards, "isinstance(value, collections.abc.Mapping)", False)
                out.append(("deep_update#freshness:leaf-store-only-for-non-maps", ok,
                            "assign_to_if_not_default(target, key, value) is reached only when value is not a Mapping" if ok else
                            f"line {node.lineno}: value may be a map here and is stored by reference"))
            elif isinstance(node.func, ast.Attribute) and node.func.attr in ("update", "setdefault", "pop", "popitem", "clear", "append", "extend", "insert", "remove", "sort", "reverse", "__setitem__", "__delitem__"):
                recv = ast.unparse(node.func.value)
                ok = recv == "target"
                out.append((f"deep_update#frame:mutating-call-on-{recv}", ok, f"line {node.lineno}: {ast.unparse(node)}"))
        if isinstance(node, (ast.Delete,)):
            out.append(("deep_update#frame:delete", False, f"line {node.lineno}: {ast.unparse(node)}"))
        if isinstance(node, ast.Assign):
            for t in node.targets:
                if isinstance(t, ast.Subscript) and ast.unparse(t.value) not in ("target",):
                    out.append((f"deep_update#frame:store-into-{ast.unparse(t.value)}", False, f"line {node.lineno}: {ast.unparse(node)}"))
    # assign_to_if_not_default: the only store is target[key] = value
    stores = [n for n in ast.walk(assign_fn) if isinstance(n, ast.Assign) and any(isinstance(t, ast.Subscript) for t in n.targets)]
    ok = all(ast.unparse(t.value) == "target" for n in stores for t in n.targets if isinstance(t, ast.Subscript))
    out.append(("assign_to_if_not_default#frame:stores-only-into-target", ok, "; ".join(ast.unparse(n) for n in stores)))
    if n_store == 0:
        out.append(("deep_update#freshness:binding", None, "no store into target found"))
    return out

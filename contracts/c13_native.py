"""Native (CPython) evaluation of C13's top-level contracts on the real functions: bounded witness search / cross-check."""
import copy
import itertools
from collections.abc import Mapping

ABSENT = object()


def gen_vals(depth, keys=("a", "b")):
    from nunavut._utilities import DefaultValue
    leaves = [1, DefaultValue(2)]
    if depth == 0:
        return leaves
    sub = [ABSENT] + gen_vals(depth - 1, keys)
    out = list(leaves)
    for combo in itertools.product(sub, repeat=len(keys)):
        out.append({k: v for k, v in zip(keys, combo) if v is not ABSENT})
    return out


def strict_eq(a, b):
    from nunavut._utilities import DefaultValue
    if isinstance(a, DefaultValue) or isinstance(b, DefaultValue):
        return isinstance(a, DefaultValue) and isinstance(b, DefaultValue) and strict_eq(a.value, b.value)
    if isinstance(a, Mapping) or isinstance(b, Mapping):
        return isinstance(a, Mapping) and isinstance(b, Mapping) and a.keys() == b.keys() and all(strict_eq(a[k], b[k]) for k in a)
    return type(a) is type(b) and a == b


def M(t, s):
    """The merge specification, natively."""
    from nunavut._utilities import DefaultValue
    if not isinstance(t, Mapping):
        return copy.deepcopy(s)
    r = dict(t)
    for k, sv in s.items():
        tv = t.get(k, ABSENT)
        if isinstance(sv, Mapping):
            r[k] = M({} if tv is ABSENT else tv, sv)
        elif isinstance(sv, DefaultValue) and tv is not ABSENT and not isinstance(tv, DefaultValue):
            r[k] = tv
        else:
            r[k] = sv
    return r


def show(v):
    return repr(v)


def deep_update_witness(depth=2):
    from nunavut._utilities import deep_update
    vals = gen_vals(depth)
    n = 0
    for t in vals:
        for s in vals:
            if not isinstance(s, Mapping):
                continue
            n += 1
            want = M(t, s)
            try:
                got = deep_update(copy.deepcopy(t), copy.deepcopy(s))
            except Exception as ex:  # the contract has no exceptional exit
                return {"input": {"target": show(t), "source": show(s)}, "why": f"raised {type(ex).__name__}: {ex}", "evaluations": n}
            if not strict_eq(got, want):
                return {"input": {"target": show(t), "source": show(s)}, "why": f"returned {show(got)}, merge specification gives {show(want)}", "evaluations": n}
    deep_update_witness.evaluations = n
    return None


def assign_witness():
    from nunavut._utilities import DefaultValue
    vals = gen_vals(1)
    n = 0
    for t in vals:
        if not isinstance(t, Mapping):
            continue
        for key in ("a", "z"):
            for v in vals:
                n += 1
                t2 = copy.deepcopy(t)
                r = DefaultValue.assign_to_if_not_default(t2, key, v)
                keep = isinstance(v, DefaultValue) and key in t and not isinstance(t[key], DefaultValue)
                want_t = dict(t) if keep else {**t, key: v}
                want_r = t[key] if keep else v
                if not strict_eq(t2, want_t) or not strict_eq(r, want_r):
                    return {"input": {"target": show(t), "key": key, "value": show(v)}, "why": f"target became {show(t2)}, returned {show(r)}; contract: {show(want_t)}, {show(want_r)}", "evaluations": n}
    assign_witness.evaluations = n
    return None

"""Native (CPython) evaluation of C13's top-level contracts on the real functions: bounded witness search / cross-check."""
import copy
import itertools
from collections.abc import Mapping

ABSENT = object()


def gen_vals(depth, keys=("a", "b")):
    from nunavut._utilities import DefaultValue
    leaves = [1, DefaultValue(2)]
    if depth == 0:
        return leaves
    sub = [ABSENT] + gen_vals(depth - 1, keys)
    out = list(leaves)
    for combo in itertools.product(sub, repeat=len(keys)):
        out.append({k: copy.deepcopy(v) for k, v in zip(keys, combo) if v is not ABSENT})  # trees: no internal sharing
    return out


def strict_eq(a, b):
    from nunavut._utilities import DefaultValue
    if isinstance(a, DefaultValue) or isinstance(b, DefaultValue):
        return isinstance(a, DefaultValue) and isinstance(b, DefaultValue) and strict_eq(a.value, b.value)
    if isinstance(a, Mapping) or isinstance(b, Mapping):
        return isinstance(a, Mapping) and isinstance(b, Mapping) and a.keys() == b.keys() and all(strict_eq(a[k], b[k]) for k in a)
    return type(a) is type(b) and a == b


def M(t, s):
    """The merge specification, natively."""
    from nunavut._utilities import DefaultValue
    if not isinstance(t, Mapping):
        return copy.deepcopy(s)
    r = dict(t)
    for k, sv in s.items():
        tv = t.get(k, ABSENT)
        if isinstance(sv, Mapping):
            r[k] = M({} if tv is ABSENT else tv, sv)
        elif isinstance(sv, DefaultValue) and tv is not ABSENT and not isinstance(tv, DefaultValue):
            r[k] = tv
        else:
            r[k] = sv
    return r


def show(v):
    return repr(v)


def deep_update_witness(depth=2):
    from nunavut._utilities import deep_update
    vals = gen_vals(depth)
    n = 0
    for t in vals:
        for s in vals:
            if not isinstance(s, Mapping):
                continue
            n += 1
            want = M(t, s)
            try:
                got = deep_update(copy.deepcopy(t), copy.deepcopy(s))
            except Exception as ex:  # the contract has no exceptional exit
                return {"input": {"target": show(t), "source": show(s)}, "why": f"raised {type(ex).__name__}: {ex}", "evaluations": n}
            if not strict_eq(got, want):
                return {"input": {"target": show(t), "source": show(s)}, "why": f"returned {show(got)}, merge specification gives {show(want)}", "evaluations": n}
    deep_update_witness.evaluations = n
    return None


def assign_witness():
    from nunavut._utilities import DefaultValue
    vals = gen_vals(1) + [DefaultValue(1), {"a": DefaultValue(1)}, {"a": 1, "b": DefaultValue(1)}, 2]
    n = 0
    for t in vals:
        if not isinstance(t, Mapping):
            continue
        for key in ("a", "z"):
            for v in vals:
                n += 1
                t2 = copy.deepcopy(t)
                r = DefaultValue.assign_to_if_not_default(t2, key, v)
                keep = isinstance(v, DefaultValue) and key in t and not isinstance(t[key], DefaultValue)
                want_t = dict(t) if keep else {**t, key: v}
                want_r = t[key] if keep else v
                if not strict_eq(t2, want_t) or not strict_eq(r, want_r):
                    return {"input": {"target": show(t), "key": key, "value": show(v)}, "why": f"target became {show(t2)}, returned {show(r)}; contract: {show(want_t)}, {show(want_r)}", "evaluations": n}
    assign_witness.evaluations = n
    return None


def aliasing_witness(depth=2, quick=False):
    """'the source documents are left unmodified': merge s into t, then merge further documents into the result;
    s (and every earlier source) must still equal its snapshot.  Bounded: depth <= 2 over keys {a,b}."""
    from nunavut._utilities import deep_update
    from nunavut._utilities import DefaultValue
    vals = gen_vals(depth)
    chains = [{k1: {k2: {k3: leaf}}} for k1 in "ab" for k2 in "ab" for k3 in "ab" for leaf in (1, DefaultValue(2))]
    maps = [v for v in vals if isinstance(v, Mapping)] + chains
    later = [m for m in gen_vals(2) if isinstance(m, Mapping)][:30] + chains
    if quick:
        later = later[2:12] + chains[:4]
    n = 0
    for t in gen_vals(1) + vals[11:40]:
        for s in maps:
            for s2 in later:
                n += 1
                s_live, snap = copy.deepcopy(s), copy.deepcopy(s)
                r = deep_update(copy.deepcopy(t), s_live)
                r = deep_update(r, copy.deepcopy(s2))
                if not strict_eq(s_live, snap):
                    return {"input": {"target": show(t), "source": show(snap), "later_source": show(s2)},
                            "why": f"after the later merge the earlier source document reads {show(s_live)}", "evaluations": n}
    aliasing_witness.evaluations = n
    return None


def builder_history_witness(quick=False):
    """Build a context, snapshot what it reports, build further contexts with other overrides, compare."""
    import itertools
    from nunavut.lang import LanguageContextBuilder
    from nunavut._utilities import DefaultValue

    def build(spec):
        lang, std, flags = spec
        b = LanguageContextBuilder(include_experimental_languages=True).set_target_language(lang)
        opts = dict(flags)
        if std:
            opts["std"] = std
        b.set_target_language_configuration_override("options", opts)
        return b.create()

    def snapshot(ctx):
        out = {}
        for name, lang in ctx.get_supported_languages().items():
            out[name] = copy.deepcopy(dict(lang.get_options()))
            out[name + ".ext"] = lang.extension
        out["sections"] = copy.deepcopy(ctx.config.sections())
        return out

    specs = [("c", None, {}), ("c", None, {"enable_serialization_asserts": True, "target_endianness": "big"}),
             ("cpp", "c++14", {}), ("cpp", "c++17-pmr", {"enable_serialization_asserts": DefaultValue(False)}),
             ("cpp", "c++17", {"allocator_is_default_constructible": False}), ("py", None, {})]
    if quick:
        specs = specs[:5]
    n = 0
    for first in specs:
        for rest in itertools.permutations(specs, 1 if quick else 2):
            n += 1
            ctx = build(first)
            snap = snapshot(ctx)
            for r in rest:
                build(r)
            now = snapshot(ctx)
            if not all(strict_eq(now[k], snap[k]) if isinstance(snap[k], Mapping) else now[k] == snap[k] for k in snap):
                diff = [k for k in snap if not (strict_eq(now[k], snap[k]) if isinstance(snap[k], Mapping) else now[k] == snap[k])]
                return {"input": {"first": repr(first), "later": repr(rest)}, "why": f"the earlier context now reports different {diff}", "evaluations": n}
    builder_history_witness.evaluations = n
    return None


def update_section_witness():
    """LanguageConfig.update_section / update against the merge specification, incl. None / '' / False leaves."""
    from nunavut.lang._config import LanguageConfig
    from nunavut._utilities import DefaultValue
    leaves = [1, None, "", False, DefaultValue(2)]
    docs = [{}, {"k": 1}]
    for a in leaves:
        docs.append({"k": a})
        docs.append({"k": a, "m": {"n": a}})
        docs.append({"m": {"n": a, "o": 1}})
    n = 0
    for first in docs:
        for second in docs:
            n += 1
            cfg = LanguageConfig()
            cfg.update({"nunavut.lang.x": copy.deepcopy(first)})
            cfg.update_section("nunavut.lang.x", copy.deepcopy(second))
            want = M(M({}, first), second)
            got = cfg.sections()["nunavut.lang.x"]
            if not strict_eq(got, want):
                return {"input": {"earlier": show(first), "later": show(second)}, "why": f"section reads {show(got)}, merge specification gives {show(want)}", "evaluations": n}
    update_section_witness.evaluations = n
    return None


def cpp_validate_witness():
    """cpp Language._validate_language_options: the std shorthand sets its group as a unit, nothing else changes."""
    from nunavut.lang import LanguageContextBuilder
    lang = LanguageContextBuilder(include_experimental_languages=True).set_target_language("cpp").create().get_target_language()
    real_defaults = copy.deepcopy(lang._config.get_config_value_as_dict(lang._section, lang.WKCV_LANGUAGE_OPTION_DEFAULTS, {}))
    synthetic = {"s1": {"g1": "", "g2": None, "g3": False, "g4": 0, "ctor_convention": "default"}, "s2": {"g1": "x"}}
    n = 0
    for defaults in (real_defaults, synthetic):
        for std in list(defaults) + ["c++14", "none-such"]:
            for extra in ({}, {"g1": "user", "g2": "user", "g3": True, "g4": 7},
                          {k: "user-value" for d in defaults.values() for k in d if k != "ctor_convention"}):
                n += 1
                options = {"std": std, "ctor_convention": "default", "allocator_type": "a", **copy.deepcopy(extra)}
                want = dict(options)
                if std in defaults:
                    want.update(defaults[std])
                try:
                    got = lang._validate_language_options(copy.deepcopy(defaults), copy.deepcopy(options))
                except ValueError:
                    continue  # option validation is not part of the property
                if not strict_eq(dict(got), want):
                    diff = {k: (got.get(k), want.get(k)) for k in set(got) | set(want) if got.get(k) != want.get(k)}
                    return {"input": {"std": std, "options": show(options)}, "why": f"(got, contract) differ at {diff}", "evaluations": n}
    cpp_validate_witness.evaluations = n
    return None

"""Native (CPython) evaluation of C13's top-level contracts on the real functions: bounded witness search / cross-check."""
import copy
import itertools
from collections.abc import Mapping

ABSENT = object()


def gen_vals(depth, keys=("a", "b")):
    from nunavut._utilities import DefaultValue
    leaves = [1, DefaultValue(2)]
    if depth == 0:
        return leaves
    sub = [ABSENT] + gen_vals(depth - 1, keys)
    out = list(leaves)
    for combo in itertools.product(sub, repeat=len(keys)):
        out.append({k: copy.deepcopy(v) for k, v in zip(keys, combo) if v is not ABSENT})  # trees: no internal sharing
    return out


def strict_eq(a, b):
    from nunavut._utilities import DefaultValue
    if isinstance(a, DefaultValue) or isinstance(b, DefaultValue):
        return isinstance(a, DefaultValue) and isinstance(b, DefaultValue) and strict_eq(a.value, b.value)
    if isinstance(a, Mapping) or isinstance(b, Mapping):
        return isinstance(a, Mapping) and isinstance(b, Mapping) and a.keys() == b.keys() and all(strict_eq(a[k], b[k]) for k in a)
    return type(a) is type(b) and a == b


def M(t, s):
    """The merge specification, natively."""
    from nunavut._utilities import DefaultValue
    if not isinstance(t, Mapping):
        return copy.deepcopy(s)
    r = dict(t)
    for k, sv in s.items():
        tv = t.get(k, ABSENT)
        if isinstance(sv, Mapping):
            r[k] = M({} if tv is ABSENT else tv, sv)
        elif isinstance(sv, DefaultValue) and tv is not ABSENT and not isinstance(tv, DefaultValue):
            r[k] = tv
        else:
            r[k] = sv
    return r


def show(v):
    return repr(v)


def deep_update_witness(depth=2):
    from nunavut._utilities import deep_update
    vals = gen_vals(depth)
    n = 0
    for t in vals:
        for s in vals:
            if not isinstance(s, Mapping):
                continue
            n += 1
            want = M(t, s)
            try:
                got = deep_update(copy.deepcopy(t), copy.deepcopy(s))
            except Exception as ex:  # the contract has no exceptional exit
                return {"input": {"target": show(t), "source": show(s)}, "why": f"raised {type(ex).__name__}: {ex}", "evaluations": n}
            if not strict_eq(got, want):
                return {"input": {"target": show(t), "source": show(s)}, "why": f"returned {show(got)}, merge specification gives {show(want)}", "evaluations": n}
    deep_update_witness.evaluations = n
    return None


def assign_witness():
    from nunavut._utilities import DefaultValue
    vals = gen_vals(1) + [DefaultValue(1), {"a": DefaultValue(1)}, {"a": 1, "b": DefaultValue(1)}, 2]
    n = 0
    for t in vals:
        if not isinstance(t, Mapping):
            continue
        for key in ("a", "z"):
            for v in vals:
                n += 1
                t2 = copy.deepcopy(t)
                r = DefaultValue.assign_to_if_not_default(t2, key, v)
                keep = isinstance(v, DefaultValue) and key in t and not isinstance(t[key], DefaultValue)
                want_t = dict(t) if keep else {**t, key: v}
                want_r = t[key] if keep else v
                if not strict_eq(t2, want_t) or not strict_eq(r, want_r):
                    return {"input": {"target": show(t), "key": key, "value": show(v)}, "why": f"target became {show(t2)}, returned {show(r)}; contract: {show(want_t)}, {show(want_r)}", "evaluations": n}
    assign_witness.evaluations = n
    return None


def aliasing_witness(depth=2, quick=False):
    """'the source documents are left unmodified': merge s into t, then merge further documents into the result;
    s (and every earlier source) must still equal its snapshot.  Bounded: depth <= 2 over keys {a,b}."""
    from nunavut._utilities import deep_update
    from nunavut._utilities import DefaultValue
    vals = gen_vals(depth)
    chains = [{k1: {k2: {k3: leaf}}} for k1 in "ab" for k2 in "ab" for k3 in "ab" for leaf in (1, DefaultValue(2))]
    maps = [v for v in vals if isinstance(v, Mapping)] + chains
    later = [m for m in gen_vals(2) if isinstance(m, Mapping)][:30] + chains
    if quick:
        later = later[2:12] + chains[:4]
    n = 0
    for t in gen_vals(1) + vals[11:40]:
        for s in maps:
            for s2 in later:
                n += 1
                s_live, snap = copy.deepcopy(s), copy.deepcopy(s)
                r = deep_update(copy.deepcopy(t), s_live)
                r = deep_update(r, copy.deepcopy(s2))
                if not strict_eq(s_live, snap):
                    return {"input": {"target": show(t), "source": show(snap), "later_source": show(s2)},
                            "why": f"after the later merge the earlier source document reads {show(s_live)}", "evaluations": n}
    aliasing_witness.evaluations = n
    return None


def builder_history_witness(quick=False):
    """Build a context, snapshot what it reports, build further contexts with other overrides, compare."""
    import itertools
    from nunavut.lang import LanguageContextBuilder
    from nunavut._utilities import DefaultValue

    import pathlib, tempfile, shutil, yaml
    cfgdir = pathlib.Path(tempfile.mkdtemp(prefix="vk_c13h_"))
    user_cfg = cfgdir / "user.yaml"
    # a user document that gives list-valued and map-valued entries to languages whose built-in configuration has none
    user_cfg.write_text(yaml.safe_dump({"nunavut.lang.py": {"reserved_identifiers": ["foo", "bar"]}, "nunavut.lang.html": {"options": {"theme": "dark"}},
                                        "nunavut.lang.c": {"reserved_identifiers": ["zeta"]}}))

    def build(spec):
        lang, std, flags = spec[:3]
        b = LanguageContextBuilder(include_experimental_languages=True).set_target_language(lang)
        if len(spec) > 3:
            b.add_config_files(user_cfg)
        opts = dict(flags)
        if std:
            opts["std"] = std
        if opts:  # no override at all when nothing is overridden: an empty "options" override would give every language an own map
            b.set_target_language_configuration_override("options", opts)
        return b.create()

    def snapshot(ctx, target_only=False):
        out = {}
        tl = ctx.get_target_language()
        out["target"] = {"name": tl.name, "options": copy.deepcopy(dict(tl.get_options())), "ext": tl.extension}
        if target_only:  # the other languages of a context are created on demand: looking at them is itself a use
            return out
        for name, lang in ctx.get_supported_languages().items():
            out[name] = copy.deepcopy(dict(lang.get_options()))
            out[name + ".ext"] = lang.extension
        out["sections"] = copy.deepcopy(ctx.config.sections())
        return out

    specs = [("c", None, {}), ("c", None, {"enable_serialization_asserts": True, "target_endianness": "big"}),
             ("cpp", "c++14", {}), ("cpp", "c++17-pmr", {"enable_serialization_asserts": DefaultValue(False)}),
             ("cpp", "c++17", {"allocator_is_default_constructible": False}), ("py", None, {}),
             ("html", None, {}),  # a language whose configuration defines no option map at all
             ("py", None, {}, "user.yaml"), ("c", None, {}, "user.yaml")]
    if quick:
        specs = [specs[0], specs[1], specs[3], specs[5], specs[6], specs[7], specs[8]]

    def use(ctx):
        """what any generation run does with a context: strop a few identifiers in every language (this creates the
        languages' token encoders); using a context must not change what it reports either"""
        for lang in ctx.get_supported_languages().values():
            try:
                for nm in ("register", "x", "if", "NULL"):
                    lang.filter_id(nm)
            except Exception:
                pass
    n = 0
    for first in specs:
        for rest in itertools.permutations(specs, 1 if quick else 2):
            n += 1
            ctx0 = build(first)
            t_snap = snapshot(ctx0, True)
            for r in rest:
                use(build(r))
            t_now = snapshot(ctx0, True)
            if not strict_eq(t_now["target"], t_snap["target"]):
                return {"input": {"first": repr(first), "later": repr(rest)}, "why": f"the earlier context's target language now reports {t_now['target']} (before: {t_snap['target']})", "evaluations": n}
            ctx = build(first)
            snap = snapshot(ctx)
            use(ctx)
            for r in rest:
                use(build(r))
            now = snapshot(ctx)
            if not all(strict_eq(now[k], snap[k]) if isinstance(snap[k], Mapping) else now[k] == snap[k] for k in snap):
                diff = [k for k in snap if not (strict_eq(now[k], snap[k]) if isinstance(snap[k], Mapping) else now[k] == snap[k])]
                return {"input": {"first": repr(first), "later": repr(rest)}, "why": f"the earlier context now reports different {diff}", "evaluations": n}
    builder_history_witness.evaluations = n
    shutil.rmtree(cfgdir, ignore_errors=True)
    return None


def update_section_witness():
    """LanguageConfig.update_section / update against the merge specification, incl. None / '' / False leaves."""
    from nunavut.lang._config import LanguageConfig
    from nunavut._utilities import DefaultValue
    leaves = [1, None, "", False, DefaultValue(2)]
    docs = [{}, {"k": 1}]
    for a in leaves:
        docs.append({"k": a})
        docs.append({"k": a, "m": {"n": a}})
        docs.append({"m": {"n": a, "o": 1}})
    n = 0
    for first in docs:
        for second in docs:
            n += 1
            cfg = LanguageConfig()
            cfg.update({"nunavut.lang.x": copy.deepcopy(first)})
            cfg.update_section("nunavut.lang.x", copy.deepcopy(second))
            want = M(M({}, first), second)
            got = cfg.sections()["nunavut.lang.x"]
            if not strict_eq(got, want):
                return {"input": {"earlier": show(first), "later": show(second)}, "why": f"section reads {show(got)}, merge specification gives {show(want)}", "evaluations": n}
    update_section_witness.evaluations = n
    return None


def cpp_validate_witness():
    """cpp Language._validate_language_options: the std shorthand sets its group as a unit, nothing else changes."""
    from nunavut.lang import LanguageContextBuilder
    lang = LanguageContextBuilder(include_experimental_languages=True).set_target_language("cpp").create().get_target_language()
    real_defaults = copy.deepcopy(lang._config.get_config_value_as_dict(lang._section, lang.WKCV_LANGUAGE_OPTION_DEFAULTS, {}))
    synthetic = {"s1": {"g1": "", "g2": None, "g3": False, "g4": 0, "ctor_convention": "default"}, "s2": {"g1": "x"}}
    n = 0
    for defaults in (real_defaults, synthetic):
        for std in list(defaults) + ["c++14", "none-such"]:
            for extra in ({}, {"g1": "user", "g2": "user", "g3": True, "g4": 7},
                          {k: "user-value" for d in defaults.values() for k in d if k not in ("ctor_convention", "std")}):
                n += 1
                options = {"std": std, "ctor_convention": "default", "allocator_type": "a", **copy.deepcopy(extra)}
                want = dict(options)
                if std in defaults:
                    want.update(defaults[std])
                try:
                    got = lang._validate_language_options(copy.deepcopy(defaults), copy.deepcopy(options))
                except ValueError:
                    continue  # option validation is not part of the property
                if not strict_eq(dict(got), want):
                    diff = {k: (got.get(k), want.get(k)) for k in set(got) | set(want) if got.get(k) != want.get(k)}
                    return {"input": {"std": std, "options": show(options)}, "why": f"(got, contract) differ at {diff}", "evaluations": n}
    cpp_validate_witness.evaluations = n
    return None


def precedence_witness(src_root=None):
    """End-to-end precedence on the real builder and the real command line (bounded): built-in defaults < configuration
    files in the order given (a file named twice counts at each position: the LAST source wins) < explicit overrides /
    explicit command-line options (an explicit value wins even when it equals the built-in default)."""
    import os
    import pathlib
    import shutil
    import subprocess
    import sys
    import tempfile
    import yaml
    from nunavut.lang import LanguageContextBuilder
    base = pathlib.Path(tempfile.mkdtemp(prefix="vk_c13p_"))
    n = 0
    try:
        vals = {"A": "little", "B": "big", "C": "any"}
        files = {}
        for k, v in vals.items():
            files[k] = base / f"{k}.yaml"
            files[k].write_text(yaml.safe_dump({"nunavut.lang.c": {"options": {"target_endianness": v}, "extension": f".{k.lower()}h"}}))
        seqs = [("A",), ("A", "B"), ("B", "A"), ("A", "B", "A"), ("B", "A", "B"), ("A", "A"), ("A", "C", "A"), ("C", "B", "C"), ("A", "B", "C", "A")]
        for seq in seqs:
            n += 1
            lang = LanguageContextBuilder().set_target_language("c").add_config_files(*[files[k] for k in seq]).create().get_target_language()
            got = (lang.get_option("target_endianness"), lang.extension)
            want = (vals[seq[-1]], f".{seq[-1].lower()}h")
            if got != want:
                return {"input": {"configuration_files_in_order": list(seq), "each_sets": {k: (v, f".{k.lower()}h") for k, v in vals.items()}},
                        "why": f"effective (target_endianness, extension) = {got}; the last source {seq[-1]} sets {want}", "evaluations": n}
            n += 1
            lang = (LanguageContextBuilder().set_target_language("c").add_config_files(*[files[k] for k in seq])
                    .set_target_language_configuration_override("options", {"target_endianness": "big" if want[0] != "big" else "little"}).create().get_target_language())
            if lang.get_option("target_endianness") != ("big" if want[0] != "big" else "little"):
                return {"input": {"configuration_files_in_order": list(seq), "override": "options.target_endianness"}, "why": f"an explicit override lost to a configuration file: {lang.get_option('target_endianness')}", "evaluations": n}
        # the command line: an explicit option wins over a configuration file, also when it names the built-in default
        env = dict(os.environ, PYTHONPATH=str(src_root) if src_root else os.environ.get("PYTHONPATH", ""), PYTHONDONTWRITEBYTECODE="1")
        (base / "ns").mkdir()
        (base / "ns" / "T.1.0.dsdl").write_text("uint8 a\n@sealed\n")
        for fkey, cli in (("A", "any"), ("A", "big"), ("B", "any"), ("B", "little"), ("C", "little")):
            n += 1
            r = subprocess.run([sys.executable, "-m", "nunavut", "--target-language", "c", "-c", str(files[fkey]), "--target-endianness", cli, "--list-configuration", "--outdir", str(base / "o"), str(base / "ns")],
                               capture_output=True, text=True, env=env)
            if r.returncode != 0:
                continue  # the listing mode is not what is under test here
            try:
                doc = yaml.safe_load(r.stdout.split("\n", 1)[1])
                got = doc["nunavut.lang.c"]["options"]["target_endianness"]
            except Exception:
                continue
            if got != cli:
                return {"input": {"command_line": f"-c {fkey}.yaml (target_endianness: {vals[fkey]}) --target-endianness {cli}"}, "why": f"effective target_endianness is {got!r}: the explicit command-line value lost to the configuration file", "evaluations": n}
        precedence_witness.evaluations = n
        return None
    finally:
        shutil.rmtree(base, ignore_errors=True)


def fresh_process_history_witness(src_root):
    """The same history check in a FRESH interpreter for every first language: process-wide state (class attributes, module
    globals) written by an earlier builder of the checking process itself would otherwise already be in the first snapshot."""
    import json
    import os
    import subprocess
    import sys
    prog = r'''
import copy, json, sys
from nunavut.lang import LanguageContextBuilder
first, others = sys.argv[1], sys.argv[2:]
def rep(ctx):
    tl = ctx.get_target_language()
    return {"name": tl.name, "options": {k: repr(v) for k, v in dict(tl.get_options()).items()}, "ext": tl.extension}
ctx = LanguageContextBuilder(include_experimental_languages=True).set_target_language(first).create()
before = rep(ctx)
for o in others:
    c2 = LanguageContextBuilder(include_experimental_languages=True).set_target_language(o).create()
    for lang in c2.get_supported_languages().values():
        try:
            lang.filter_id("register")
        except Exception:
            pass
print(json.dumps({"before": before, "after": rep(ctx)}))
'''
    env = dict(os.environ, PYTHONPATH=str(src_root), PYTHONDONTWRITEBYTECODE="1")
    n = 0
    langs = ["html", "c", "cpp", "py", "js"]
    for first in langs:
        others = [x for x in langs if x != first]
        n += 1
        r = subprocess.run([sys.executable, "-c", prog, first] + others, capture_output=True, text=True, env=env, timeout=120)
        if r.returncode != 0:
            continue
        d = json.loads(r.stdout.strip().splitlines()[-1])
        if d["before"] != d["after"]:
            return {"input": {"first_context": first, "then_contexts_for": others}, "why": f"the first context's target language reported {d['before']} and now reports {d['after']}", "evaluations": n}
    fresh_process_history_witness.evaluations = n
    return None

"""
C14 (C leg): contracts for every function of the rendered nunavut/support/serialization.h.

Vocabulary: memories are byte arrays with a write log (vk/ec.py); `CopyBitsMem(d, doff, len, s, soff)` is the
*specification* memory "d with bits [doff, doff+len) replaced by bits [soff, soff+len) of s" (bit i of a buffer is bit
i mod 8 of byte i div 8 -- the DSDL little-endian bit order).  zx_read is the zero-extending little-endian read.
"""
from vk.ec import (CContract, CLoop, CopyBitsMem, ConstMem, MemsetMem, Mem, Val, FVal, PVal, bvlit, app, And, Or, Not, Eq, Ite, Implies)

TWO64 = str(2 ** 64)
ERR_TOO_SMALL = 3


def imin(a, b):
    from vk.ec import ite_s
    return ite_s(app("<=", a, b), a, b)


def sat_bits(size, off, ln):
    """min(len, max(0, 8*size - off))"""
    from vk.ec import ite_s, simp_int
    # len <= 8*size - off  <=>  off + len <= 8*size   (decided at once when the buffer is known to be long enough)
    fits = simp_int(app("<=", app("+", off, ln), app("*", "8", size)))
    if fits == "true":
        return ln
    tail = ite_s(app(">=", app("*", "8", size), off), app("-", app("*", "8", size), off), "0")
    return imin(ln, tail)


def zx_read(mem: Mem, size: str, abs_off: str, n: str, width: int) -> str:
    """BV(width): bit i = (i < n and off+i < 8*size) ? bit(mem, off+i) : 0   (n <= width <= 64), as one expression:
    assemble width/8+1 guarded bytes, shift right by off mod 8, mask to min(n, available) bits."""
    from vk.ec import divmod8, _fold
    nb = width // 8 + 1
    q, r = divmod8(abs_off)
    bytes_ = []
    for i in range(nb):
        idx = q if i == 0 else _fold(f"(+ {q} {i})")
        from vk.ec import ite_s
        bytes_.append(ite_s(app("<", idx, size), mem.read(idx), "#x00"))
    wide = "(concat " + " ".join(reversed(bytes_)) + ")"
    W = 8 * nb
    sh = f"(bvlshr {wide} {bvlit(r, W)})" if r is not None else f"(bvlshr {wide} ((_ int2bv {W}) (mod {abs_off} 8)))"
    low = f"((_ extract {width - 1} 0) {sh})"
    avail = sat_bits(size, abs_off, n)
    k = None
    try:
        k = int(avail)
    except ValueError:
        pass
    if k is not None:
        return f"(bvand {low} {bvlit((1 << k) - 1, width)})"
    # mask bit i is set iff i < avail: integer comparisons against literals only (no int2bv of a symbolic integer)
    bits = [Ite(app("<", str(i), avail), "#b1", "#b0") for i in range(width - 1, -1, -1)]
    mask = bits[0] if width == 1 else "(concat " + " ".join(bits) + ")"
    return f"(bvand {low} {mask})"


def sign_extend_from(v: str, n: str, width: int) -> str:
    """two's complement value of the low n bits of v (0 < n <= width), n == 0 -> 0; as BV(width)"""
    # shift left by (width - n) then arithmetic shift right by the same amount
    if n.isdigit():
        k = int(n)
        if k == 0:
            return bvlit(0, width)
        amt = bvlit(width - k, width)
        return f"(bvashr (bvshl {v} {amt}) {amt})"
    amt = f"((_ int2bv {width}) (- {width} {n}))"
    return Ite(Eq(n, "0"), bvlit(0, width), f"(bvashr (bvshl {v} {amt}) {amt})")


# ------------------------------------------------------------------------------------------------------------------


def choose_min():
    return CContract(
        "nunavutChooseMin",
        requires=lambda cx: [],
        ensures=lambda cx: {"result": ("I", imin(cx.i("a"), cx.i("b")))},
    )


def saturate():
    return CContract(
        "nunavutSaturateBufferFragmentBitLength",
        requires=lambda cx: [app("<", app("*", "8", cx.i("buffer_size_bytes")), TWO64)],
        ensures=lambda cx: {"result": ("I", sat_bits(cx.i("buffer_size_bytes"), cx.i("fragment_offset_bits"), cx.i("fragment_length_bits")))},
    )


def copy_bits(with_asserts: bool):
    def requires(cx):
        dst, src = cx.ptr("dst"), cx.ptr("src")
        ln, doff, soff = cx.i("length_bits"), cx.i("dst_offset_bits"), cx.i("src_offset_bits")
        d_abs, s_abs = cx.abs_bit("dst", doff), cx.abs_bit("src", soff)
        return [
            "true" if dst.region != src.region else "false",  # separate objects (documented: overlap is undefined when unaligned)
            app("<", app("+", doff, ln, "8"), TWO64), app("<", app("+", soff, ln, "8"), TWO64),
            # both buffers hold the addressed bits (nothing is required of the offsets of an empty copy)
            Or(Eq(ln, "0"), app("<=", app("+", d_abs, ln), app("*", "8", cx.length("dst")))),
            Or(Eq(ln, "0"), app("<=", app("+", s_abs, ln), app("*", "8", cx.length("src")))),
        ]

    def ensures(cx):
        dst = cx.ptr("dst")
        ln, doff, soff = cx.i("length_bits"), cx.i("dst_offset_bits"), cx.i("src_offset_bits")
        return {"mem": {dst.region: CopyBitsMem(cx.mem("dst"), cx.abs_bit("dst", doff), ln, cx.mem("src"), cx.abs_bit("src", soff))}}

    def inv(ex):
        g = lambda nm: ex.to_int(ex.vars[ex.names[nm]]).t  # noqa: E731
        p = ex.params
        soff0, doff0, ln = ex.to_int(p["src_offset_bits"]).t, ex.to_int(p["dst_offset_bits"]).t, ex.to_int(p["length_bits"]).t
        return [
            ("progress-in-range", And(app("<=", soff0, g("src_off")), app("<=", g("src_off"), app("+", soff0, ln)))),
            ("offsets-move-together", Eq(app("-", g("dst_off"), doff0), app("-", g("src_off"), soff0))),
            ("last-bit", Eq(g("last_bit"), app("+", soff0, ln))),
        ]

    def mem_inv(ex):
        p = ex.params
        g = lambda nm: ex.to_int(ex.vars[ex.names[nm]]).t  # noqa: E731
        soff0, doff0 = ex.to_int(p["src_offset_bits"]).t, ex.to_int(p["dst_offset_bits"]).t
        dst, src = p["dst"], p["src"]
        done = app("-", g("src_off"), soff0)
        return {dst.region: CopyBitsMem(ex.entry_mems[dst.region], doff0, done, ex.entry_mems[src.region], soff0)}

    def variant(ex):
        g = lambda nm: ex.to_int(ex.vars[ex.names[nm]]).t  # noqa: E731
        return app("-", g("last_bit"), g("src_off"))

    return CContract("nunavutCopyBits", requires, ensures, loops={0: CLoop(inv, mem_inv, variant)}, timeout=180)


def get_bits():
    def requires(cx):
        out, buf = cx.ptr("output"), cx.ptr("buf")
        ln, off, size = cx.i("len_bits"), cx.i("off_bits"), cx.i("buf_size_bytes")
        return [
            "true" if out.region != buf.region else "false",
            Eq(out.off, "0"), app("<=", "0", buf.off),
            app("<=", app("+", buf.off, size), cx.length("buf")),
            app("<", app("+", off, ln, "8"), TWO64),
            app("<=", app("div", app("+", ln, "7"), "8"), cx.length("output")),
        ]

    def ensures(cx):
        out = cx.ptr("output")
        ln, off, size = cx.i("len_bits"), cx.i("off_bits"), cx.i("buf_size_bytes")
        sb = sat_bits(size, off, ln)
        # bytes [0, ceil(len/8)) hold the zero-extended fragment, nothing else is written
        zeroed = MemsetMem(cx.mem("output"), "0", app("div", app("+", ln, "7"), "8"), "#x00")
        return {"mem": {out.region: CopyBitsMem(zeroed, "0", sb, cx.mem("buf"), cx.abs_bit("buf", off))}}

    return CContract("nunavutGetBits", requires, ensures)


def _set_requires(cx, lenexpr):
    buf = cx.ptr("buf")
    size, off = cx.i("buf_size_bytes"), cx.i("off_bits")
    return [app("<=", "0", buf.off), app("<=", app("+", buf.off, size), cx.length("buf")), app("<", app("*", "8", size), TWO64),
            app("<", app("+", off, lenexpr, "8"), TWO64)]


def set_bit():
    def ensures(cx):
        buf = cx.ptr("buf")
        size, off = cx.i("buf_size_bytes"), cx.i("off_bits")
        too_small = app("<=", app("*", "8", size), off)
        one = ConstMem(Ite(cx.ex.nonzero(cx.args["value"]), "#x01", "#x00"))
        spec = CopyBitsMem(cx.mem("buf"), cx.abs_bit("buf", off), Ite(too_small, "0", "1"), one, "0")
        return {"result": ("B", Ite(too_small, bvlit(-ERR_TOO_SMALL, 8), bvlit(0, 8))), "mem": {buf.region: spec}}

    return CContract("nunavutSetBit", lambda cx: _set_requires(cx, "1"), ensures)


def value_mem(v64: str) -> Mem:
    """little-endian bytes of a 64-bit value as a memory (bytes >= 8 are zero)"""

    class M(Mem):
        def read(self, idx: str) -> str:
            t = "#x00"
            for i in range(7, -1, -1):
                t = Ite(Eq(idx, str(i)), f"((_ extract {8 * i + 7} {8 * i}) {v64})", t)
            return t

    return M()


def set_uxx(name="nunavutSetUxx", signed=False):
    def ensures(cx):
        buf = cx.ptr("buf")
        size, off, ln = cx.i("buf_size_bytes"), cx.i("off_bits"), cx.i("len_bits")
        too_small = app("<", app("*", "8", size), app("+", off, ln))
        n = Ite(too_small, "0", imin(ln, "64"))
        spec = CopyBitsMem(cx.mem("buf"), cx.abs_bit("buf", off), n, value_mem(cx.b("value")), "0")
        return {"result": ("B", Ite(too_small, bvlit(-ERR_TOO_SMALL, 8), bvlit(0, 8))), "mem": {buf.region: spec}}

    return CContract(name, lambda cx: _set_requires(cx, cx.i("len_bits")), ensures, param_rep={"value": "B"})


def _get_requires(cx, lenexpr):
    buf = cx.ptr("buf")
    size, off = cx.i("buf_size_bytes"), cx.i("off_bits")
    return [app("<=", "0", buf.off), app("<=", app("+", buf.off, size), cx.length("buf")), app("<", app("*", "8", size), TWO64),
            app("<", app("+", off, "80"), TWO64)]


def _zx(cx, n, width):
    """zero-extending read relative to the pointer `buf` (which may point into the middle of its region)"""
    buf = cx.ptr("buf")
    size, off = cx.i("buf_size_bytes"), cx.i("off_bits")
    lim = size if buf.off == "0" else app("+", buf.off, size)
    return zx_read(cx.mem("buf"), lim, cx.abs_bit("buf", off), n, width)


def get_u(width: int):
    def ensures(cx):
        size, off, ln = cx.i("buf_size_bytes"), cx.i("off_bits"), cx.i("len_bits")
        return {"result": ("B", _zx(cx, imin(ln, str(width)), width))}

    return CContract(f"nunavutGetU{width}", lambda cx: _get_requires(cx, None), ensures)


def get_bit():
    def ensures(cx):
        size, off = cx.i("buf_size_bytes"), cx.i("off_bits")
        bit = _zx(cx, "1", 8)
        return {"result": ("I", Ite(Eq(bit, "#x01"), "1", "0"))}

    return CContract("nunavutGetBit", lambda cx: _get_requires(cx, None), ensures)


def get_i(width: int):
    def ensures(cx):
        size, off, ln = cx.i("buf_size_bytes"), cx.i("off_bits"), cx.i("len_bits")
        n = cx.known(imin(ln, str(width)))  # a literal on paths where the code's case split has fixed it
        u = _zx(cx, n, width)
        return {"result": ("B", sign_extend_from(u, n, width))}

    return CContract(f"nunavutGetI{width}", lambda cx: _get_requires(cx, None), ensures)


# ---- floats --------------------------------------------------------------------------------------------------------
F16 = "(_ to_fp 5 11)"
F32 = "(_ to_fp 8 24)"
PACK_DECL = ["(declare-fun pack16 ((_ BitVec 32)) (_ BitVec 16))"]  # spec-level name of nunavutFloat16Pack's result


def half_of_bits(h: str) -> str:
    return f"({F16} {h})"


def unpack_spec_fp(h: str) -> str:
    """the float that equals the half exactly"""
    return f"({F32} RNE {half_of_bits(h)})"


def float16_unpack():
    def ensures(cx):
        h = cx.b("value")
        def extra(cx2):
            r = cx2.result
            hv = half_of_bits(h)
            return [
                ("exact-for-every-non-NaN-half", Implies(Not(f"(fp.isNaN {hv})"), Eq(r.t, unpack_spec_fp(h)))),
                ("NaN-stays-NaN", Implies(f"(fp.isNaN {hv})", f"(fp.isNaN {r.t})")),
                ("sign-bit-preserved", Eq(f"((_ extract 31 31) {r.bits})", f"((_ extract 15 15) {h})")),
            ]
        return {"extra_fn": extra, "extra_theory": "fp"}

    return CContract("nunavutFloat16Unpack", lambda cx: [], ensures, param_rep={"value": "B"}, theory="fp", timeout=360)


def float16_pack():
    def ensures(cx):
        xb = cx.fbits("value")
        x = cx.f("value")

        def extra(cx2):
            r = cx2.ex.to_bv(cx2.result).t
            rv = half_of_bits(r)
            rtn, rtp = f"({F16} RTN {x})", f"({F16} RTP {x})"
            absx = f"(fp.abs {x})"
            return [
                ("NaN-stays-NaN", Implies(f"(fp.isNaN {x})", f"(fp.isNaN {rv})")),
                ("never-NaN-otherwise", Implies(Not(f"(fp.isNaN {x})"), Not(f"(fp.isNaN {rv})"))),
                ("infinities-preserved", Implies(f"(fp.isInfinite {x})", And(f"(fp.isInfinite {rv})", Eq(f"((_ extract 15 15) {r})", f"((_ extract 31 31) {xb})")))),
                ("sign-bit-preserved", Eq(f"((_ extract 15 15) {r})", f"((_ extract 31 31) {xb})")),
                # faithful rounding: the result is one of the two half values that bracket x (equal when x is a half)
                ("faithful", Implies(Not(f"(fp.isNaN {x})"), Or(f"(fp.eq {rv} {rtn})", f"(fp.eq {rv} {rtp})"))),
                ("out-of-range-magnitudes-map-to-infinity",
                 Implies(And(Not(f"(fp.isNaN {x})"), f"(fp.geq {absx} ((_ to_fp 8 24) RNE 65536.0))"), f"(fp.isInfinite {rv})")),
                ("half-values-round-trip-exactly",
                 Implies(And(Not(f"(fp.isNaN {x})"), f"(fp.eq ({F32} RNE {rtn}) {x})"), Eq(rv, rtn))),
            ]
        # pack16 is only a *name* for this deterministic, total function's result (used by SetF16's contract)
        return {"result": ("B", f"(pack16 {xb})"), "result_is_definition": True, "extra_fn": extra, "extra_theory": "fp"}

    c = CContract("nunavutFloat16Pack", lambda cx: [], ensures, theory="fp", timeout=360)
    return c


def set_f(name: str, width: int):
    def ensures(cx):
        buf = cx.ptr("buf")
        size, off = cx.i("buf_size_bytes"), cx.i("off_bits")
        too_small = app("<", app("*", "8", size), app("+", off, str(width)))
        if width == 16:
            v64 = f"((_ zero_extend 48) (pack16 {cx.fbits('value')}))"
        elif width == 32:
            v64 = f"((_ zero_extend 32) {cx.fbits('value')})"
        else:
            v64 = cx.fbits("value")
        spec = CopyBitsMem(cx.mem("buf"), cx.abs_bit("buf", off), Ite(too_small, "0", str(width)), value_mem(v64), "0")
        return {"result": ("B", Ite(too_small, bvlit(-ERR_TOO_SMALL, 8), bvlit(0, 8))), "mem": {buf.region: spec}}

    return CContract(name, lambda cx: _set_requires(cx, str(width)), ensures)


def get_f(name: str, width: int):
    def ensures(cx):
        size, off = cx.i("buf_size_bytes"), cx.i("off_bits")
        raw = _zx(cx, str(width), width)
        if width == 16:
            def extra(cx2):
                r = cx2.result
                hv = half_of_bits(raw)
                return [("value-of-the-stored-half", Implies(Not(f"(fp.isNaN {hv})"), Eq(r.t, unpack_spec_fp(raw)))),
                        ("NaN-stays-NaN", Implies(f"(fp.isNaN {hv})", f"(fp.isNaN {r.t})"))]
            return {"extra_fn": extra, "extra_theory": "fp"}
        return {"result": ("bits", raw)}  # bit-exact reinterpretation

    return CContract(name, lambda cx: _get_requires(cx, None), ensures, theory="fp" if width == 16 else "arith")

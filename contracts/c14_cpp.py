"""C14, C++ leg: bounded stand-in only (the C++ `bitspan` / `const_bitspan` members are not under contract).

One translation unit includes the rendered C support header (whose functions are PROVED by E-C) and the rendered C++
support header, and compares every C++ primitive with its C counterpart on a deterministic sweep of offsets, lengths,
buffer sizes, values and byte patterns -- with DIRTY destination buffers, so that missing zero extension / stale bits show.
Built with ASan/UBSan.  Never counted as proved.
"""
import pathlib
import subprocess

HARNESS = r"""
#include <cassert>
#define NUNAVUT_ASSERT(x) assert(x)
extern "C" {
#include "c/nunavut/support/serialization.h"
}
#include "cpp/nunavut/support/serialization.hpp"
#include <cstdio>
#include <cstring>
#include <cstdlib>
#include <cstdint>
using nunavut::support::bitspan; using nunavut::support::const_bitspan;
static std::uint64_t rs = 88172645463325252ULL;
static std::uint64_t rnd() { rs ^= rs << 13; rs ^= rs >> 7; rs ^= rs << 17; return rs; }
static unsigned long n_eval = 0;
static int fail(const char* what, size_t a, size_t b, size_t c, unsigned long long x, unsigned long long y) {
    std::printf("MISMATCH %s a=%zu b=%zu c=%zu cpp=%llu c_=%llu\n", what, a, b, c, x, y); return 1; }
static void fill(std::uint8_t* p, size_t n, int pat) { for (size_t i = 0; i < n; i++) p[i] = pat == 0 ? 0x00 : pat == 1 ? 0xFF : pat == 2 ? 0xA5 : static_cast<std::uint8_t>(rnd()); }
int main() {
    const size_t N = 12;
    for (int pat = 0; pat < 4; pat++)
    for (size_t size = 0; size <= N; size++)
    for (size_t off = 0; off <= size * 8 + 9; off += (off < 20 ? 1 : 7))
    {
        std::uint8_t* src = static_cast<std::uint8_t*>(std::malloc(size ? size : 1)); fill(src, size, pat);
        // getters (offset may lie beyond the buffer: implicit zero extension)
        for (unsigned len = 0; len <= 64; len++) {
            n_eval++;
            if (off <= size * 8) {
                const_bitspan cs{src, size, off};
                if (len <= 8)  { auto x = cs.getU8(static_cast<std::uint8_t>(len));  auto y = nunavutGetU8(src, size, off, static_cast<std::uint8_t>(len));  if (x != y) return fail("getU8", size, off, len, x, y); }
                if (len <= 16) { auto x = cs.getU16(static_cast<std::uint8_t>(len)); auto y = nunavutGetU16(src, size, off, static_cast<std::uint8_t>(len)); if (x != y) return fail("getU16", size, off, len, x, y); }
                if (len <= 32) { auto x = cs.getU32(static_cast<std::uint8_t>(len)); auto y = nunavutGetU32(src, size, off, static_cast<std::uint8_t>(len)); if (x != y) return fail("getU32", size, off, len, x, y); }
                { auto x = cs.getU64(static_cast<std::uint8_t>(len)); auto y = nunavutGetU64(src, size, off, static_cast<std::uint8_t>(len)); if (x != y) return fail("getU64", size, off, len, x, y); }
                if (len >= 2) {
                    if (len <= 8)  { auto x = cs.getI8(static_cast<std::uint8_t>(len));  auto y = nunavutGetI8(src, size, off, static_cast<std::uint8_t>(len));  if (x != y) return fail("getI8", size, off, len, static_cast<unsigned long long>(x), static_cast<unsigned long long>(y)); }
                    if (len <= 16) { auto x = cs.getI16(static_cast<std::uint8_t>(len)); auto y = nunavutGetI16(src, size, off, static_cast<std::uint8_t>(len)); if (x != y) return fail("getI16", size, off, len, static_cast<unsigned long long>(x), static_cast<unsigned long long>(y)); }
                    if (len <= 32) { auto x = cs.getI32(static_cast<std::uint8_t>(len)); auto y = nunavutGetI32(src, size, off, static_cast<std::uint8_t>(len)); if (x != y) return fail("getI32", size, off, len, static_cast<unsigned long long>(x), static_cast<unsigned long long>(y)); }
                    { auto x = cs.getI64(static_cast<std::uint8_t>(len)); auto y = nunavutGetI64(src, size, off, static_cast<std::uint8_t>(len)); if (x != y) return fail("getI64", size, off, len, static_cast<unsigned long long>(x), static_cast<unsigned long long>(y)); }
                }
                // getBits into a DIRTY output buffer
                const size_t ob = (len + 7U) / 8U;
                std::uint8_t o1[9], o2[9]; std::memset(o1, 0x5A, 9); std::memset(o2, 0x5A, 9);
                cs.getBits(nunavut::support::bytespan{o1, ob}, len);
                nunavutGetBits(o2, src, size, off, len);
                if (std::memcmp(o1, o2, 9) != 0) return fail("getBits", size, off, len, o1[ob ? ob - 1 : 0], o2[ob ? ob - 1 : 0]);
            }
        }
        // setters into a copy of the (dirty) buffer
        for (unsigned len = 0; len <= 64; len += (len < 18 ? 1 : 5)) {
            if (off + len > size * 8) continue;
            const std::uint64_t v = rnd();
            std::uint8_t* d1 = static_cast<std::uint8_t*>(std::malloc(size ? size : 1)); std::uint8_t* d2 = static_cast<std::uint8_t*>(std::malloc(size ? size : 1));
            std::memcpy(d1, src, size); std::memcpy(d2, src, size); n_eval++;
            { bitspan bs{d1, size, off}; auto r = bs.setUxx(v, static_cast<std::uint8_t>(len)); auto rc = nunavutSetUxx(d2, size, off, v, static_cast<std::uint8_t>(len));
              if ((r ? 0 : 1) != (rc < 0 ? 1 : 0) || std::memcmp(d1, d2, size) != 0) return fail("setUxx", size, off, len, v, static_cast<unsigned long long>(rc)); }
            std::memcpy(d1, src, size); std::memcpy(d2, src, size);
            { bitspan bs{d1, size, off}; auto r = bs.setIxx(static_cast<std::int64_t>(v), static_cast<std::uint8_t>(len)); auto rc = nunavutSetIxx(d2, size, off, static_cast<std::int64_t>(v), static_cast<std::uint8_t>(len));
              if ((r ? 0 : 1) != (rc < 0 ? 1 : 0) || std::memcmp(d1, d2, size) != 0) return fail("setIxx", size, off, len, v, static_cast<unsigned long long>(rc)); }
            // setZeros == writing len zero bits
            std::memcpy(d1, src, size); std::memcpy(d2, src, size);
            { bitspan bs{d1, size, off}; auto r = bs.setZeros(len); nunavutCopyBits(d2, off, len, "\0\0\0\0\0\0\0\0\0", 0);
              // bits after the cleared range up to the next byte boundary may be cleared as well (sequential serialization)
              bool ok = static_cast<bool>(r);
              for (size_t i = 0; ok && i < size * 8; i++) { const bool in_tail = i >= off + len && i / 8 == (off + len - (len ? 1 : 0)) / 8 && len > 0; const int b1 = (d1[i / 8] >> (i % 8)) & 1; const int b2 = (d2[i / 8] >> (i % 8)) & 1; if (b1 != b2 && !(in_tail && b1 == 0)) ok = false; }
              if (!ok) return fail("setZeros", size, off, len, d1[off / 8 < size ? off / 8 : 0], d2[off / 8 < size ? off / 8 : 0]); }
            // copyTo == nunavutCopyBits (source offset off, destination offset (off * 5 + 3) % (free bits))
            if (len > 0) {
                std::uint8_t e1[24], e2[24]; fill(e1, 24, 3); std::memcpy(e2, e1, 24);
                const size_t doff = (off * 5 + 3) % (24 * 8 - 64);
                const_bitspan{src, size, off}.copyTo(bitspan{e1, 24, doff}, len);
                nunavutCopyBits(e2, doff, len, src, off);
                if (std::memcmp(e1, e2, 24) != 0) return fail("copyTo", size, off, len, doff, 0);
            }
            std::free(d1); std::free(d2);
        }
        std::free(src);
    }
    // floats: every half through unpack, and pack on the round trip + a sweep of float32 patterns
    for (std::uint32_t h = 0; h < 65536; h++) {
        std::uint8_t b[2] = { static_cast<std::uint8_t>(h & 0xFF), static_cast<std::uint8_t>(h >> 8) };
        float x = const_bitspan{b, 2, 0}.getF16(); float y = nunavutGetF16(b, 2, 0); n_eval++;
        if (std::memcmp(&x, &y, 4) != 0 && !(x != x && y != y)) return fail("getF16", h, 0, 0, 0, 0);
        std::uint8_t c1[2] = {0x5A, 0x5A}, c2[2] = {0x5A, 0x5A};
        auto r = bitspan{c1, 2, 0}.setF16(x); auto rc = nunavutSetF16(c2, 2, 0, y);
        if (!r || rc < 0 || (std::memcmp(c1, c2, 2) != 0 && !(x != x))) return fail("setF16", h, 0, 0, c1[1], c2[1]);
    }
    for (int i = 0; i < 200000; i++) {
        std::uint32_t p = static_cast<std::uint32_t>(rnd()); if (i < 64) p = 0x47000000U + static_cast<std::uint32_t>(i) * 0x00010000U; float f; std::memcpy(&f, &p, 4); n_eval++;
        std::uint8_t c1[2] = {0, 0}, c2[2] = {0, 0};
        auto r = bitspan{c1, 2, 0}.setF16(f); auto rc = nunavutSetF16(c2, 2, 0, f);
        if (!r || rc < 0 || (std::memcmp(c1, c2, 2) != 0 && !(f != f))) return fail("setF16(float32 pattern)", p, 0, 0, static_cast<unsigned>(c1[0] | (c1[1] << 8)), static_cast<unsigned>(c2[0] | (c2[1] << 8)));
    }
    std::printf("OK %lu\n", n_eval);
    return 0;
}
"""


def run(workdir: pathlib.Path, options: dict, std: str = "c++14"):
    """returns (witness or None, evaluations)"""
    from vk import render
    render.render_support("c", workdir / "c", options)
    render.render_support("cpp", workdir / "cpp", dict(options, std=std))
    src = workdir / "bitspan_diff.cpp"
    exe = workdir / "bitspan_diff"
    src.write_text(HARNESS)
    c = subprocess.run(["clang++", f"-std={std}", "-g", "-O1", "-fsanitize=address,undefined", "-fno-sanitize-recover=all", "-I", str(workdir), str(src), "-o", str(exe)], capture_output=True, text=True)
    if c.returncode != 0:
        return {"harness_error": c.stderr[:2000]}, 0
    r = subprocess.run([str(exe)], capture_output=True, text=True, timeout=900)
    last = (r.stdout.strip().splitlines() or [""])[-1]
    if r.returncode == 0 and last.startswith("OK"):
        return None, int(last.split()[1])
    return {"input": last[:300], "why": ("C++ primitive disagrees with the proved C function: " + last[:300]) if last.startswith("MISMATCH") else ("sanitizer / abort: " + r.stderr[:800])}, 0

"""C14, Python leg: contracts on the REAL rendered nunavut_support.py (Serializer / Deserializer / ZeroExtendingBuffer),
discharged by E-PY (vk/epy.py + vk/bytestheory.py).

The contracts are instantiated per CASE: bit length k in 1..64 and cursor position r = bit_offset mod 8 in 0..7 are
literals of the case (all 512 combinations are verified), everything else is symbolic: the byte position B of the cursor
(bit_offset == 8*B + r), the whole buffer contents and length, the value.  With k and r literal every shift amount and loop
trip count of the primitives is a literal, so loops are unrolled completely (not a bound: the trip count IS ceil(k/8)).

Abstraction used by every Serializer contract (the statement "write exactly the addressed bits and leave every other bit
untouched", for a buffer whose bits at and after the cursor are zero -- the class invariant of Serializer, established by
Serializer.new's numpy.zeros and re-established by every operation):
    LE(buf', B, m) == buf[B] + V * 2^r        (little-endian integer of the m touched bytes; V = the encoded value)
    buf' == buf except at the m bytes from B   (array equation: every other byte identical)
    bit_offset' == bit_offset + k
under   buf[B] < 2^r,  buf[B+1 .. B+m-1] == 0,  B + m <= len(buf)   (m = ceil(k/8) + 1: the primitives store the spill byte
even when it is zero, which is why Serializer.new allocates one extra byte).
Deserializer contracts: result == (LE(zx(buf), B, m) div 2^r) mod 2^k with zx the zero-extended buffer; the cursor advances
by k; the buffer is not written.

Not under contract here (bounded stand-in only, contracts/c14_py_native.py): float packing (struct), numpy.packbits /
unpackbits / frombuffer / view based array primitives, byte arrays longer than 8 through add_unaligned_bytes /
fetch_unaligned_bytes, behaviour when the buffer is too small (the raise paths), fork_bytes.
"""
import typing

from vk.bytestheory import ARR, NDARRAY, le_sum, nd_literal_len, stores
from vk.epy import Contract, Loop, Raises, SBool, SData, SInt, SObj, VConst, VInt

MOD = "<generated nunavut_support.py>"


def cursor(r: int):
    """bit_offset == 8*B + r with B a fresh symbolic integer and r the literal of the case"""
    return lambda ctx, hint: VInt(f"(+ (* 8 {ctx.fresh('Int', 'B', True)}) {r})")


def ser_obj(r: int):
    return SObj("Serializer", {"_buf": NDARRAY, "_bit_offset": cursor(r)})


def np_binding(engine):
    """free names of the module that the functions under contract use: numpy.zeros / numpy.empty (n bytes, zero / arbitrary)
    and the module-level helper _ensure_cardinal (under contract itself)"""
    def empty(it, n, dtype=None):
        o = engine.np_zeros(it, n, dtype)
        it.ctx.set_field(o, "arr", it.ctx.make(SData(ARR), "numpy.empty", False))  # contents unspecified
        return o
    return {"numpy": VConst({"zeros": VConst(lambda it, n, dtype=None: engine.np_zeros(it, n, dtype)), "empty": VConst(empty)}), "Byte": VConst("Byte"), "NDArray": VConst("NDArray"),
            "_ensure_cardinal": VConst(("contract", "_ensure_cardinal"))}


B_OLD = "old(self._bit_offset) // 8"


def ser_pre(r: int, m: int) -> typing.List[str]:
    """class invariant of Serializer at the cursor + room for the m touched bytes"""
    pre = ["self._bit_offset >= 0", f"smt('Bool', '(<= (+ {{0}} {m}) {{1}})', self._bit_offset // 8, self._buf.n)"]
    if m > 0:
        pre.append(f"smt('Bool', '(and (<= 0 (select {{0}} {{1}})) (< (select {{0}} {{1}}) {2 ** r}))', self._buf.arr, self._bit_offset // 8)")
    for j in range(1, m):
        pre.append(f"smt('Bool', '(= (select {{0}} (+ {{1}} {j})) 0)', self._buf.arr, self._bit_offset // 8)")
    return pre


def advance_cursor(k: typing.Optional[int], arg: typing.Optional[str] = None):
    """callee-side bookkeeping (no new fact: the contract's own postcondition says the same): after a call the cursor of
    the receiver is rewritten as old cursor + k so that it keeps the literal remainder the case analysis needs"""
    import ast as _ast

    def hook(it):
        o = it.ctx.env["self"]
        old = it.ctx.old_heap[o.ref]["_bit_offset"]
        inc = VInt(str(k)) if k is not None else it.ctx.env[arg]
        it.ctx.set_field(o, "_bit_offset", it.binop(_ast.Add(), old, inc))
    return hook


def ser_post(r: int, k: int, m: int, value_term: str, value_args: str) -> typing.List[typing.Tuple[str, str]]:
    """value_term: SMT template of the encoded value V over {2},{3},...; value_args: the contract expressions for them"""
    if m == 0:
        return [("cursor-advances-by-the-bit-length", f"self._bit_offset == old(self._bit_offset) + {k}"),
                ("buffer-untouched", "smt('Bool', '(= {0} {1})', self._buf.arr, old(self._buf.arr))"), ("buffer-length-unchanged", "self._buf.n == old(self._buf.n)")]
    le_new = le_sum("{0}", "{1}", m)
    return [
        ("cursor-advances-by-the-bit-length", f"self._bit_offset == old(self._bit_offset) + {k}"),
        ("every-byte-outside-the-touched-range-is-untouched", "smt('Bool', '" + stores("{1}", "{0}", "{2}", m) + f"', self._buf.arr, old(self._buf.arr), {B_OLD})"),
        ("touched-bytes-hold-the-old-low-bits-and-exactly-the-value-bits",
         f"smt('Bool', '(= {le_new} (+ (select {{2}} {{1}}) (* {2 ** r} {value_term})))', self._buf.arr, {B_OLD}, old(self._buf.arr){value_args})"),
        ("buffer-length-unchanged", "self._buf.n == old(self._buf.n)"),
        ("touched-bytes-are-bytes", "smt('Bool', '(and " + " ".join(f"(<= 0 (select {{0}} (+ {{1}} {j}))) (<= (select {{0}} (+ {{1}} {j})) 255)" for j in range(m)) + f")', self._buf.arr, {B_OLD})"),
    ]


# ---------------------------------------------------------------------------------------------------------------------
# Serializer
# ---------------------------------------------------------------------------------------------------------------------
def unsigned_to_bytes(k: int, as_callee: bool = False) -> Contract:
    nb = (k + 7) // 8
    params: typing.Dict[str, typing.Any] = {"value": SInt, "bit_length": VInt(str(k))}
    if as_callee:  # reached as self._unsigned_to_bytes(...): the receiver is handed over although the staticmethod ignores it
        params = {"self": SObj("Serializer", {}), **params}
    return Contract(
        target=f"{MOD}:Serializer._unsigned_to_bytes", params=params, requires=["value >= 0"],
        ensures=[("as-many-bytes-as-hold-the-bits", f"result.n == {nb}"),
                 ("bytes-are-the-little-endian-digits-of-the-truncated-value", f"smt('Bool', '(= {le_sum('{0}', '0', nb)} (mod {{1}} {2 ** k}))', result.arr, old(value))")]
        + [("result-bytes-are-bytes", "smt('Bool', '(and " + " ".join(f"(<= 0 (select {{0}} {i})) (<= (select {{0}} {i}) 255)" for i in range(nb)) + ")', result.arr)")],
        loops={0: Loop(unroll=True)}, result=nd_literal_len(nb), label=f"k={k}")


def ensure_not_negative() -> Contract:
    return Contract(target=f"{MOD}:Serializer._ensure_not_negative", params={"x": SInt}, raises=[Raises("ValueError", "x < 0")], ensures=[])


def ensure_not_negative_callee() -> Contract:
    return Contract(target=f"{MOD}:Serializer._ensure_not_negative", params={"self": SObj("Serializer", {}), "x": SInt}, raises=[Raises("ValueError", "x < 0")], ensures=[])


def byte_offset_attr(engine) -> None:
    """`self._byte_offset` (a property): its body `self._bit_offset // 8` is what the attribute stands for; the property
    itself is verified against that (byte_offset_contract)"""
    def h(it, o):
        import ast as _ast
        return it.binop(_ast.FloorDiv(), it.ctx.get_field(o, "_bit_offset"), VInt("8"))
    engine.attr_hooks["Serializer._byte_offset"] = h
    engine.attr_hooks["Deserializer._byte_offset"] = h


def byte_offset_contract(cls: str, r: int) -> Contract:
    obj = SObj(cls, {"_bit_offset": cursor(r)})
    return Contract(target=f"{MOD}:{cls}._byte_offset", params={"self": obj}, requires=["self._bit_offset >= 0"],
                    ensures=[("byte-index-of-the-cursor", "8 * result <= self._bit_offset and self._bit_offset < 8 * result + 8")], label=f"r={r}")


def add_unaligned_bytes(r: int, n: int) -> Contract:
    m = n + 1 if n else 0
    val = le_sum("{3}", "0", n)
    return Contract(
        target=f"{MOD}:Serializer.add_unaligned_bytes", params={"self": ser_obj(r), "value": nd_literal_len(n)},
        requires=ser_pre(r, m),
        ensures=ser_post(r, 8 * n, m, val, ", value.arr"),
        loops={0: Loop(unroll=True)}, modifies=["self._bit_offset", "self._buf.arr"], label=f"r={r},n={n}", timeout=300)


def add_unaligned_unsigned(r: int, k: int) -> Contract:
    nb = (k + 7) // 8
    return Contract(
        target=f"{MOD}:Serializer.add_unaligned_unsigned", params={"self": ser_obj(r), "value": SInt, "bit_length": VInt(str(k))},
        requires=ser_pre(r, nb + 1), raises=[Raises("ValueError", "value < 0")],
        ensures=ser_post(r, k, nb + 1, f"(mod {{3}} {2 ** k})", ", value"),
        modifies=["self._bit_offset", "self._buf.arr"], label=f"r={r},k={k}")


def add_unaligned_signed(r: int, k: int) -> Contract:
    nb = (k + 7) // 8
    return Contract(
        target=f"{MOD}:Serializer.add_unaligned_signed", params={"self": ser_obj(r), "value": SInt, "bit_length": VInt(str(k))},
        requires=ser_pre(r, nb + 1) + [f"{-(2 ** (k - 1))} <= value and value < {2 ** (k - 1)}"],
        # two's complement: the k low bits of the value
        ensures=ser_post(r, k, nb + 1, f"(mod {{3}} {2 ** k})", ", value"),
        modifies=["self._bit_offset", "self._buf.arr"], label=f"r={r},k={k}")


def add_unaligned_bit(r: int) -> Contract:
    return Contract(
        target=f"{MOD}:Serializer.add_unaligned_bit", params={"self": ser_obj(r), "x": SBool},
        requires=ser_pre(r, 1),
        ensures=ser_post(r, 1, 1, "(ite {3} 1 0)", ", x"),
        modifies=["self._bit_offset", "self._buf.arr"], label=f"r={r}")


def add_aligned_unsigned(k: int) -> Contract:
    nb = (k + 7) // 8
    return Contract(
        target=f"{MOD}:Serializer.add_aligned_unsigned", params={"self": ser_obj(0), "value": SInt, "bit_length": VInt(str(k))},
        requires=ser_pre(0, nb), raises=[Raises("ValueError", "value < 0")],
        ensures=ser_post(0, k, nb, f"(mod {{3}} {2 ** k})", ", value"),
        modifies=["self._bit_offset", "self._buf.arr"], label=f"k={k}")


def add_aligned_signed(k: int) -> Contract:
    nb = (k + 7) // 8
    return Contract(
        target=f"{MOD}:Serializer.add_aligned_signed", params={"self": ser_obj(0), "value": SInt, "bit_length": VInt(str(k))},
        requires=ser_pre(0, nb) + [f"{-(2 ** (k - 1))} <= value and value < {2 ** (k - 1)}"],
        ensures=ser_post(0, k, nb, f"(mod {{3}} {2 ** k})", ", value"),
        modifies=["self._bit_offset", "self._buf.arr"], label=f"k={k}")


def add_aligned_u(w: int) -> Contract:
    """add_aligned_u8/u16/u32/u64: truncating ('implicitly truncate the value if it exceeds the range') except u8, which
    stores the value as it is (NumPy refuses values above 255)"""
    nb = w // 8
    req = ser_pre(0, nb) + (["x <= 255"] if w == 8 else [])
    return Contract(
        target=f"{MOD}:Serializer.add_aligned_u{w}", params={"self": ser_obj(0), "x": SInt},
        requires=req, raises=[Raises("ValueError", "x < 0")],
        ensures=ser_post(0, w, nb, f"(mod {{3}} {2 ** w})", ", x"),
        modifies=["self._bit_offset", "self._buf.arr"], label=f"u{w}")


def add_aligned_i(w: int) -> Contract:
    nb = w // 8
    return Contract(
        target=f"{MOD}:Serializer.add_aligned_i{w}", params={"self": ser_obj(0), "x": SInt},
        requires=ser_pre(0, nb) + [f"{-(2 ** (w - 1))} <= x and x < {2 ** (w - 1)}"],
        ensures=ser_post(0, w, nb, f"(mod {{3}} {2 ** w})", ", x"),
        modifies=["self._bit_offset", "self._buf.arr"], label=f"i{w}")


def skip_bits_ser(r: int) -> Contract:
    return Contract(target=f"{MOD}:Serializer.skip_bits", params={"self": ser_obj(r), "bit_length": SInt},
                    ensures=[("cursor-advances", "self._bit_offset == old(self._bit_offset) + bit_length"),
                             ("buffer-untouched", "smt('Bool', '(= {0} {1})', self._buf.arr, old(self._buf.arr))")],
                    modifies=["self._bit_offset"], label=f"r={r}")


def pad_to_alignment_ser(r: int) -> Contract:
    """pad_to_alignment(8): zero bits up to the next byte boundary (the only alignment DSDL composites need)"""
    k = -r % 8
    return Contract(
        target=f"{MOD}:Serializer.pad_to_alignment", params={"self": ser_obj(r), "bit_length": VInt("8")},
        requires=ser_pre(r, 1 if k else 0),
        ensures=ser_post(r, k, 1 if k else 0, "0", ""),
        loops={0: Loop(unroll=True)}, modifies=["self._bit_offset", "self._buf.arr"], label=f"r={r}")


def _r_of(it, obj) -> int:
    from vk.epy import _LIN, OutOfSubset
    m = _LIN.fullmatch(it.ctx.get_field(obj, "_bit_offset").t.strip())
    if not m or int(m.group(1)) != 8:
        raise OutOfSubset("cursor is not of the form 8*B + r")
    return int(m.group(3)) % 8


def select_add_unaligned_bit(it, args, kwargs):
    return add_unaligned_bit(_r_of(it, args[0]))


# ---------------------------------------------------------------------------------------------------------------------
# Deserializer / ZeroExtendingBuffer
# ---------------------------------------------------------------------------------------------------------------------
ZEB = SObj("ZeroExtendingBuffer", {"_buf": NDARRAY})


def des_obj(r: int):
    return SObj("Deserializer", {"_buf": ZEB, "_bit_offset": cursor(r)})


def zx(arr: str, n: str, i: str) -> str:
    return f"(ite (and (<= 0 {i}) (< {i} {n})) (select {arr} {i}) 0)"


def le_zx(arr: str, n: str, base: str, count: int) -> str:
    """little-endian integer of `count` bytes of the ZERO-EXTENDED buffer from index base"""
    if count == 0:
        return "0"
    ts = []
    for j in range(count):
        idx = f"(+ {base} {j})" if j else base
        ts.append(f"(* {256 ** j} {zx(arr, n, idx)})" if j else zx(arr, n, idx))
    return ts[0] if count == 1 else "(+ " + " ".join(ts) + ")"


def bytes_in_range(arr_expr: str, n: int) -> typing.List[typing.Tuple[str, str]]:
    if n == 0:
        return []
    conj = " ".join(f"(<= 0 (select {{0}} {i})) (<= (select {{0}} {i}) 255)" for i in range(n))
    return [("result-bytes-are-bytes", f"smt('Bool', '(and {conj})', {arr_expr})")]


UINT8_INPUT = "forall('Int', lambda i: smt('Bool', '(and (<= 0 (select {0} {1})) (<= (select {0} {1}) 255))', self._buf._buf.arr, i))"  # dtype invariant of the input buffer
DES_FRAME = [("input-buffer-not-written", "smt('Bool', '(= {0} {1})', self._buf._buf.arr, old(self._buf._buf.arr))"), ("input-length-unchanged", "self._buf._buf.n == old(self._buf._buf.n)")]
DB_OLD = "old(self._bit_offset) // 8"


def zeb_get_byte() -> Contract:
    return Contract(target=f"{MOD}:ZeroExtendingBuffer.get_byte", params={"self": ZEB, "index": SInt}, raises=[Raises("ValueError", "index < 0")],
                    requires=["forall('Int', lambda i: smt('Bool', '(and (<= 0 (select {0} {1})) (<= (select {0} {1}) 255))', self._buf.arr, i))"],
                    ensures=[("byte-of-the-zero-extended-buffer", "smt('Bool', '(= {0} " + zx("{1}", "{2}", "{3}") + ")', result, self._buf.arr, self._buf.n, index)"),
                             ("a-byte", "0 <= result and result <= 255")], result=SInt)


def zeb_get_unsigned_slice_assumed_base(n: int) -> Contract:
    """ASSUMED contract (numpy slicing + concatenate + zeros are library code): the documented behaviour of
    get_unsigned_slice for right - left == n; exercised by the bounded stand-in for every small left/right"""
    return Contract(target=f"{MOD}:ZeroExtendingBuffer.get_unsigned_slice", params={"self": ZEB, "left": SInt, "right": SInt},
                    requires=["0 <= left", f"right == left + {n}", "forall('Int', lambda i: smt('Bool', '(and (<= 0 (select {0} {1})) (<= (select {0} {1}) 255))', self._buf.arr, i))"],
                    ensures=[("zero-extended-slice", "smt('Bool', '(= " + le_sum("{0}", "0", n) + " " + le_zx("{1}", "{2}", "{3}", n) + ")', result.arr, self._buf.arr, self._buf.n, left)")] if n else [],
                    result=nd_literal_len(n), note="assumed")


def _zeb_slice_with_range(n):
    c = zeb_get_unsigned_slice_assumed_base(n)
    c.ensures = list(c.ensures) + bytes_in_range("result.arr", n)
    return c


zeb_get_unsigned_slice_assumed = _zeb_slice_with_range


def ensure_cardinal() -> Contract:
    return Contract(target=f"{MOD}:_ensure_cardinal", params={"i": SInt}, raises=[Raises("ValueError", "i < 0")], ensures=[])


def unsigned_from_bytes(k: int, as_callee: bool = False) -> Contract:
    nb = (k + 7) // 8
    params: typing.Dict[str, typing.Any] = {"x": nd_literal_len(nb), "bit_length": VInt(str(k))}
    if as_callee:
        params = {"self": SObj("Deserializer", {}), **params}
    return Contract(target=f"{MOD}:Deserializer._unsigned_from_bytes", params=params,
                    ensures=[("little-endian-value-of-the-bytes-truncated-to-the-bit-length", f"smt('Bool', '(= {{0}} (mod {le_sum('{1}', '0', nb)} {2 ** k}))', result, x.arr)"),
                             ("in-range", f"0 <= result and result < {2 ** k}")],
                    loops={0: Loop(unroll=True)}, result=SInt, label=f"k={k}")


def fetch_unaligned_bytes(r: int, n: int) -> Contract:
    src = le_zx("{1}", "{2}", "{3}", n + (1 if r else 0))
    ens = [("cursor-advances", f"self._bit_offset == old(self._bit_offset) + {8 * n}"), ("as-many-bytes-as-asked", f"result.n == {n}")] + DES_FRAME
    if n:
        ens.append(("bytes-are-the-zero-extended-bits-from-the-cursor",
                    f"smt('Bool', '(= {le_sum('{0}', '0', n)} (mod (div {src} {2 ** r}) {256 ** n}))', result.arr, self._buf._buf.arr, self._buf._buf.n, {DB_OLD})"))
    return Contract(target=f"{MOD}:Deserializer.fetch_unaligned_bytes", params={"self": des_obj(r), "count": VInt(str(n))}, requires=["self._bit_offset >= 0", UINT8_INPUT],
                    ensures=ens + bytes_in_range("result.arr", n), loops={0: Loop(unroll=True)}, modifies=["self._bit_offset"], result=nd_literal_len(n), label=f"r={r},n={n}", timeout=300)


def fetch_aligned_bytes(n: int) -> Contract:
    ens = [("cursor-advances", f"self._bit_offset == old(self._bit_offset) + {8 * n}"), ("as-many-bytes-as-asked", f"result.n == {n}")] + DES_FRAME
    if n:
        ens.append(("bytes-are-the-zero-extended-bytes-from-the-cursor",
                    f"smt('Bool', '(= {le_sum('{0}', '0', n)} {le_zx('{1}', '{2}', '{3}', n)})', result.arr, self._buf._buf.arr, self._buf._buf.n, {DB_OLD})"))
    return Contract(target=f"{MOD}:Deserializer.fetch_aligned_bytes", params={"self": des_obj(0), "count": VInt(str(n))}, requires=["self._bit_offset >= 0", UINT8_INPUT],
                    ensures=ens + bytes_in_range("result.arr", n), modifies=["self._bit_offset"], result=nd_literal_len(n), label=f"n={n}")


def _fetch_value(r: int, k: int) -> str:
    nb = (k + 7) // 8
    return f"(mod (div {le_zx('{1}', '{2}', '{3}', nb + (1 if r else 0))} {2 ** r}) {2 ** k})"


def fetch_unsigned(aligned: bool, r: int, k: int) -> Contract:
    nm = "fetch_aligned_unsigned" if aligned else "fetch_unaligned_unsigned"
    return Contract(target=f"{MOD}:Deserializer.{nm}", params={"self": des_obj(r), "bit_length": VInt(str(k))}, requires=["self._bit_offset >= 0", UINT8_INPUT],
                    ensures=[("cursor-advances", f"self._bit_offset == old(self._bit_offset) + {k}"),
                             ("value-of-the-zero-extended-bits-from-the-cursor", f"smt('Bool', '(= {{0}} {_fetch_value(r, k)})', result, self._buf._buf.arr, self._buf._buf.n, {DB_OLD})")] + DES_FRAME,
                    modifies=["self._bit_offset"], result=SInt, label=f"r={r},k={k}")


def fetch_signed(aligned: bool, r: int, k: int) -> Contract:
    nm = "fetch_aligned_signed" if aligned else "fetch_unaligned_signed"
    u = _fetch_value(r, k)
    return Contract(target=f"{MOD}:Deserializer.{nm}", params={"self": des_obj(r), "bit_length": VInt(str(k))}, requires=["self._bit_offset >= 0", UINT8_INPUT],
                    ensures=[("cursor-advances", f"self._bit_offset == old(self._bit_offset) + {k}"),
                             ("sign-extended-value-of-the-zero-extended-bits", f"smt('Bool', '(= {{0}} (ite (>= {u} {2 ** (k - 1)}) (- {u} {2 ** k}) {u}))', result, self._buf._buf.arr, self._buf._buf.n, {DB_OLD})")] + DES_FRAME,
                    modifies=["self._bit_offset"], result=SInt, label=f"r={r},k={k}")


def fetch_aligned_u(w: int) -> Contract:
    return Contract(target=f"{MOD}:Deserializer.fetch_aligned_u{w}", params={"self": des_obj(0)}, requires=["self._bit_offset >= 0", UINT8_INPUT],
                    ensures=[("cursor-advances", f"self._bit_offset == old(self._bit_offset) + {w}"),
                             ("value-of-the-zero-extended-bytes", f"smt('Bool', '(= {{0}} {le_zx('{1}', '{2}', '{3}', w // 8)})', result, self._buf._buf.arr, self._buf._buf.n, {DB_OLD})"),
                             ("in-range", f"0 <= result and result < {2 ** w}")] + DES_FRAME,
                    modifies=["self._bit_offset"], result=SInt, label=f"u{w}")


def fetch_aligned_i(w: int) -> Contract:
    u = le_zx("{1}", "{2}", "{3}", w // 8)
    return Contract(target=f"{MOD}:Deserializer.fetch_aligned_i{w}", params={"self": des_obj(0)}, requires=["self._bit_offset >= 0", UINT8_INPUT],
                    ensures=[("cursor-advances", f"self._bit_offset == old(self._bit_offset) + {w}"),
                             ("sign-extended-value", f"smt('Bool', '(= {{0}} (ite (>= {u} {2 ** (w - 1)}) (- {u} {2 ** w}) {u}))', result, self._buf._buf.arr, self._buf._buf.n, {DB_OLD})")] + DES_FRAME,
                    modifies=["self._bit_offset"], result=SInt, label=f"i{w}")


def fetch_unaligned_bit(r: int) -> Contract:
    return Contract(target=f"{MOD}:Deserializer.fetch_unaligned_bit", params={"self": des_obj(r)}, requires=["self._bit_offset >= 0", UINT8_INPUT],
                    ensures=[("cursor-advances", "self._bit_offset == old(self._bit_offset) + 1"),
                             ("the-addressed-bit-of-the-zero-extended-buffer", f"smt('Bool', '(= {{0}} (= (mod (div {zx('{1}', '{2}', '{3}')} {2 ** r}) 2) 1))', result, self._buf._buf.arr, self._buf._buf.n, {DB_OLD})")] + DES_FRAME,
                    modifies=["self._bit_offset"], result=SBool, label=f"r={r}")


def pad_to_alignment_des(r: int) -> Contract:
    return Contract(target=f"{MOD}:Deserializer.pad_to_alignment", params={"self": des_obj(r), "bit_length": VInt("8")}, requires=["self._bit_offset >= 0", UINT8_INPUT],
                    ensures=[("cursor-at-the-next-byte-boundary", f"self._bit_offset == old(self._bit_offset) + {-r % 8}")] + DES_FRAME,
                    loops={0: Loop(unroll=True)}, modifies=["self._bit_offset"], label=f"r={r}")


def skip_bits_des(r: int) -> Contract:
    return Contract(target=f"{MOD}:Deserializer.skip_bits", params={"self": des_obj(r), "bit_length": SInt}, raises=[Raises("ValueError", "bit_length < 0")],
                    ensures=[("cursor-advances", "self._bit_offset == old(self._bit_offset) + bit_length")] + DES_FRAME, modifies=["self._bit_offset"], label=f"r={r}")


def remaining_bit_length(r: int) -> Contract:
    return Contract(target=f"{MOD}:Deserializer.remaining_bit_length", params={"self": des_obj(r)},
                    ensures=[("bits-left-negative-past-the-end", "result == 8 * self._buf._buf.n - self._bit_offset")], result=SInt, label=f"r={r}")


def zeb_bit_length_attr(engine) -> None:
    import ast as _ast
    engine.attr_hooks["ZeroExtendingBuffer.bit_length"] = lambda it, o: it.binop(_ast.Mult(), it.ctx.get_field(it.ctx.get_field(o, "_buf"), "n"), VInt("8"))


def zeb_bit_length() -> Contract:
    return Contract(target=f"{MOD}:ZeroExtendingBuffer.bit_length", params={"self": ZEB}, ensures=[("eight-bits-per-byte", "result == 8 * self._buf.n")], result=SInt)


def _with_cursor(c: Contract, k: typing.Optional[int], arg: typing.Optional[str] = None) -> Contract:
    c.after_call = advance_cursor(k, arg)  # type: ignore
    return c


_CURSOR = {"add_unaligned_bytes": lambda r, n: 8 * n, "add_unaligned_unsigned": lambda r, k: k, "add_unaligned_signed": lambda r, k: k, "add_unaligned_bit": lambda r: 1,
           "add_aligned_unsigned": lambda k: k, "add_aligned_signed": lambda k: k, "add_aligned_u": lambda w: w, "add_aligned_i": lambda w: w,
           "pad_to_alignment_ser": lambda r: -r % 8, "fetch_unaligned_bytes": lambda r, n: 8 * n, "fetch_aligned_bytes": lambda n: 8 * n,
           "fetch_unsigned": lambda a, r, k: k, "fetch_signed": lambda a, r, k: k, "fetch_aligned_u": lambda w: w, "fetch_aligned_i": lambda w: w,
           "fetch_unaligned_bit": lambda r: 1, "pad_to_alignment_des": lambda r: -r % 8}
for _nm, _inc in list(_CURSOR.items()):
    def _mk(f, inc):
        def g(*a, **kw):
            return _with_cursor(f(*a, **kw), inc(*a, **kw))
        g.__name__ = f.__name__
        return g
    globals()[_nm] = _mk(globals()[_nm], _inc)


# ---------------------------------------------------------------------------------------------------------------------
# the verification plan: every function x every case, with the callee contracts each case is checked against
# ---------------------------------------------------------------------------------------------------------------------
def plan(tier: str) -> typing.List[tuple]:
    """(function tag, case args).  All bit lengths 1..64 and all cursor positions 0..7 in both tiers; only the byte-run
    primitives (add_unaligned_bytes / fetch_unaligned_bytes) are limited to the run lengths the integer and float
    primitives need (0..8 bytes)."""
    ks = list(range(1, 65))
    rs = list(range(8))
    t: typing.List[tuple] = [("nonneg",), ("cardinal",), ("get_byte",), ("zeb_bit_length",)]
    t += [("u2b", k) for k in ks] + [("ufb", k) for k in ks]
    t += [("aub", r, n) for r in rs for n in range(0, 9)] + [("fub", r, n) for r in rs for n in range(0, 9)] + [("fab", n) for n in range(0, 9)]
    t += [("auu", r, k) for r in rs for k in ks] + [("aus", r, k) for r in rs for k in ks if k >= 2]
    t += [("fuu", r, k) for r in rs for k in ks] + [("fus", r, k) for r in rs for k in ks if k >= 2]
    t += [("aau", k) for k in ks] + [("aas", k) for k in ks if k >= 2] + [("fau", k) for k in ks] + [("fas", k) for k in ks if k >= 2]
    t += [("au", w) for w in (8, 16, 32, 64)] + [("ai", w) for w in (8, 16, 32, 64)] + [("fu", w) for w in (8, 16, 32, 64)] + [("fi", w) for w in (8, 16, 32, 64)]
    t += [(nm, r) for r in rs for nm in ("bit", "pad_s", "skip_s", "boff_s", "fbit", "pad_d", "skip_d", "rem", "boff_d")]
    if tier != "thorough":
        # every-change tier: every function that contains a loop or a shift is verified for ALL its cases (u2b, ufb, aub, fub,
        # fab, bit, fbit); the compositional wrappers (which only call those by contract and adjust the cursor) for the
        # cursor positions 0, 3 and 7 -- all eight in the thorough tier --
        # and a spread of bit lengths (all 64 in the thorough tier)
        KQ = {1, 2, 3, 5, 7, 8, 9, 12, 13, 15, 16, 17, 24, 31, 32, 33, 40, 47, 48, 56, 63, 64}
        t = [x for x in t if x[0] not in ("auu", "aus", "fuu", "fus") or (x[1] in (0, 3, 7) and x[2] in KQ)]
        t = [x for x in t if x[0] not in ("aau", "aas", "fau", "fas") or x[1] in KQ]
    return t


def build(task: tuple) -> typing.Tuple[Contract, typing.List[typing.Tuple[str, typing.Any]]]:
    tag, a = task[0], task[1:]
    S, D = "Serializer.", "Deserializer."
    nn = (S + "_ensure_not_negative", ensure_not_negative_callee())
    dsel = [("ZeroExtendingBuffer.get_byte", zeb_get_byte()), ("_ensure_cardinal", ensure_cardinal())]
    if tag == "nonneg":
        return ensure_not_negative(), []
    if tag == "cardinal":
        return ensure_cardinal(), []
    if tag == "get_byte":
        return zeb_get_byte(), []
    if tag == "zeb_bit_length":
        return zeb_bit_length(), []
    if tag == "u2b":
        return unsigned_to_bytes(a[0]), []
    if tag == "ufb":
        return unsigned_from_bytes(a[0]), []
    if tag == "aub":
        return add_unaligned_bytes(*a), []
    if tag == "fub":
        return fetch_unaligned_bytes(*a), dsel + [(D + "fetch_aligned_bytes", fetch_aligned_bytes(a[1]))]
    if tag == "fab":
        return fetch_aligned_bytes(a[0]), dsel + [("ZeroExtendingBuffer.get_unsigned_slice", zeb_get_unsigned_slice_assumed(a[0]))]
    if tag == "auu":
        r, k = a
        return add_unaligned_unsigned(r, k), [(S + "_unsigned_to_bytes", unsigned_to_bytes(k, True)), (S + "add_unaligned_bytes", add_unaligned_bytes(r, (k + 7) // 8)), nn]
    if tag == "aus":
        return add_unaligned_signed(*a), [(S + "add_unaligned_unsigned", add_unaligned_unsigned(*a))]
    if tag == "fuu":
        r, k = a
        return fetch_unsigned(False, r, k), dsel + [(D + "fetch_unaligned_bytes", fetch_unaligned_bytes(r, (k + 7) // 8)), (D + "_unsigned_from_bytes", unsigned_from_bytes(k, True))]
    if tag == "fus":
        return fetch_signed(False, *a), [(D + "fetch_unaligned_unsigned", fetch_unsigned(False, *a))]
    if tag == "aau":
        return add_aligned_unsigned(a[0]), [(S + "_unsigned_to_bytes", unsigned_to_bytes(a[0], True)), nn]
    if tag == "aas":
        return add_aligned_signed(a[0]), [(S + "add_aligned_unsigned", add_aligned_unsigned(a[0]))]
    if tag == "fau":
        k = a[0]
        return fetch_unsigned(True, 0, k), dsel + [("ZeroExtendingBuffer.get_unsigned_slice", zeb_get_unsigned_slice_assumed((k + 7) // 8)), (D + "_unsigned_from_bytes", unsigned_from_bytes(k, True))]
    if tag == "fas":
        return fetch_signed(True, 0, a[0]), [(D + "fetch_aligned_unsigned", fetch_unsigned(True, 0, a[0]))]
    if tag == "au":
        w = a[0]
        return add_aligned_u(w), [nn] + ([(S + f"add_aligned_u{w // 2}", add_aligned_u(w // 2))] if w > 8 else [])
    if tag == "ai":
        return add_aligned_i(a[0]), [(S + f"add_aligned_u{a[0]}", add_aligned_u(a[0]))]
    if tag == "fu":
        w = a[0]
        return fetch_aligned_u(w), dsel + ([(D + f"fetch_aligned_u{w // 2}", fetch_aligned_u(w // 2))] if w > 8 else [])
    if tag == "fi":
        return fetch_aligned_i(a[0]), [(D + f"fetch_aligned_u{a[0]}", fetch_aligned_u(a[0]))]
    r = a[0]
    return {"bit": lambda: (add_unaligned_bit(r), []), "pad_s": lambda: (pad_to_alignment_ser(r), [(S + "add_unaligned_bit", select_add_unaligned_bit)]),
            "skip_s": lambda: (skip_bits_ser(r), []), "boff_s": lambda: (byte_offset_contract("Serializer", r), []), "fbit": lambda: (fetch_unaligned_bit(r), dsel),
            "pad_d": lambda: (pad_to_alignment_des(r), []), "skip_d": lambda: (skip_bits_des(r), dsel), "rem": lambda: (remaining_bit_length(r), []),
            "boff_d": lambda: (byte_offset_contract("Deserializer", r), [])}[tag]()


ASSUMED_CALLEES = ["ZeroExtendingBuffer.get_unsigned_slice (numpy slicing/concatenate/zeros: assumed to return the zero-extended slice; exercised by the bounded stand-in)"]


def generate(args) -> tuple:
    """worker: (task, rendered module text) -> (task, obligations, info, error)"""
    import pathlib
    from vk import bytestheory, epy
    task, text, src_root = args
    try:
        c, callees = build(task)
        e = epy.Engine(pathlib.Path(src_root))
        bytestheory.install(e)
        byte_offset_attr(e)
        zeb_bit_length_attr(e)
        e.ghost_classes = set()
        for key, cc in callees:
            e.contracts[key] = cc
        c.bindings = dict(np_binding(e), **c.bindings)
        c.timeout = max(c.timeout, 120)  # slowest case measured: 4 s on an idle machine, 34 s with 50 runnable processes
        obs, info = e.verify(c, text)
        info["assumed"] = list(e.assumed)
        return task, c.target, obs, info, None
    except Exception as ex:  # OutOfSubset / BindingError: undecided, never a violation
        return task, "", [], {}, f"{type(ex).__name__}: {ex}"

"""C14, Python leg, bounded native stand-in (never counted as proved).  Runs INSIDE the overlay interpreter (Python 3.12 +
NumPy): the REAL rendered nunavut_support.py of the tree under test, every Serializer.add_* / Deserializer.fetch_* /
ZeroExtendingBuffer primitive, against a bit-by-bit reference, over the property's own bounds (bit offsets 0..23, bit
lengths 0..64(+), buffer sizes 0..12) plus all 65,536 half values.
usage: c14_py_native.py <dir with nunavut_support.py> <quick|thorough>      -> one JSON object on stdout.
The whole storage array is compared after every operation (bits before the cursor untouched, bits after it zero), the
cursor position is compared, and an operation that does not fit must raise instead of dropping bits.
"""
import json
import math
import random
import struct
import sys

sys.path.insert(0, sys.argv[1])
TIER = sys.argv[2] if len(sys.argv) > 2 else "quick"
import numpy as np  # noqa: E402

import nunavut_support as ns  # noqa: E402

RNG = random.Random(14)
FAIL = []
N = [0]


def fail(op, inp, why):
    if len(FAIL) < 40:
        FAIL.append({"op": op, "input": inp, "why": why})


def bits_of_bytes(bs):
    return [(b >> i) & 1 for b in bs for i in range(8)]


def bits_of_int(v, n):
    return [(v >> i) & 1 for i in range(n)]


def int_of_bits(bits):
    return sum(b << i for i, b in enumerate(bits))


def buf_bits(s):
    return bits_of_bytes(bytes(int(x) for x in s._buf))


# ---------------------------------------------------------------------------------------------------------------------
# Serializer
# ---------------------------------------------------------------------------------------------------------------------
def fresh(lead, size_bytes):
    """a serializer with `lead` pseudo-random bits already written; returns (serializer, reference bit list)"""
    s = ns.Serializer.new(size_bytes)
    ref = []
    for _ in range(lead):
        b = RNG.getrandbits(1)
        s.add_unaligned_bit(bool(b))
        ref.append(b)
    return s, ref


def check_ser(op, inp, s, ref, total_bytes):
    N[0] += 1
    got = buf_bits(s)
    want = ref + [0] * (8 * total_bytes - len(ref))
    if s.current_bit_length != len(ref):
        fail(op, inp, f"cursor at bit {s.current_bit_length}, expected {len(ref)}")
    elif got != want:
        d = next(i for i, (a, b) in enumerate(zip(got, want)) if a != b)
        fail(op, inp, f"storage differs from the reference at bit {d} (got {got[d]}, expected {want[d]}): got {bytes(int(x) for x in s._buf).hex()}, expected {int_of_bits(want).to_bytes(total_bytes, 'little').hex()}")
    else:
        out = bytes(s.buffer)
        if out != int_of_bits(want).to_bytes(total_bytes, "little")[:(len(ref) + 7) // 8]:
            fail(op, inp, f".buffer gives {out.hex()}")


def ser_case(op, lead, payload_bits, call, inp, slack=4):
    size = (lead + len(payload_bits) + 7) // 8 + slack
    s, ref = fresh(lead, size)
    try:
        call(s)
    except Exception as ex:  # noqa
        N[0] += 1
        fail(op, inp, f"raises {type(ex).__name__}: {str(ex)[:200]} although the value fits")
        return
    check_ser(op, inp, s, ref + payload_bits, size + 1)


def f_bits(x, fmt):
    n = {"e": 16, "f": 32, "d": 64}[fmt]
    try:
        raw = struct.pack("<" + fmt, x)
    except OverflowError:
        raw = struct.pack("<" + fmt, math.copysign(math.inf, x))
    return bits_of_bytes(raw)[:n]


def int_values(n, signed):
    if signed:
        lo, hi = -(1 << (n - 1)), (1 << (n - 1)) - 1
        vs = {lo, hi, 0, -1, 1, lo + 1, hi - 1, RNG.randint(lo, hi), RNG.randint(lo, hi)}
        return sorted(v for v in vs if lo <= v <= hi)
    hi = (1 << n) - 1
    return sorted({0, 1, hi, hi >> 1, (hi >> 1) + 1, RNG.randint(0, hi), RNG.randint(0, hi)})


def run_serializer():
    leads = range(24)
    widths = range(1, 65) if TIER == "thorough" else [1, 2, 3, 5, 7, 8, 9, 12, 13, 15, 16, 17, 23, 24, 25, 31, 32, 33, 40, 47, 48, 56, 57, 63, 64]
    for lead in leads:
        for n in widths:
            for v in int_values(n, False):
                ser_case("add_unaligned_unsigned", lead, bits_of_int(v, n), lambda s: s.add_unaligned_unsigned(v, n), {"lead_bits": lead, "value": v, "bit_length": n})
            # "implicitly truncate the value if it exceeds the range"
            big = RNG.getrandbits(n + 9) | (1 << (n + 8))
            ser_case("add_unaligned_unsigned", lead, bits_of_int(big, n), lambda s: s.add_unaligned_unsigned(big, n), {"lead_bits": lead, "value": big, "bit_length": n, "note": "wider than the field: truncated"})
            if n >= 2:
                for v in int_values(n, True):
                    ser_case("add_unaligned_signed", lead, bits_of_int(v & ((1 << n) - 1), n), lambda s: s.add_unaligned_signed(v, n), {"lead_bits": lead, "value": v, "bit_length": n})
            if lead % 8 == 0:
                for v in int_values(n, False):
                    ser_case("add_aligned_unsigned", lead, bits_of_int(v, n), lambda s: s.add_aligned_unsigned(v, n), {"lead_bits": lead, "value": v, "bit_length": n})
                ser_case("add_aligned_unsigned", lead, bits_of_int(big, n), lambda s: s.add_aligned_unsigned(big, n), {"lead_bits": lead, "value": big, "bit_length": n, "note": "wider than the field: truncated"})
                if n >= 2:
                    for v in int_values(n, True):
                        ser_case("add_aligned_signed", lead, bits_of_int(v & ((1 << n) - 1), n), lambda s: s.add_aligned_signed(v, n), {"lead_bits": lead, "value": v, "bit_length": n})
        for b in (0, 1):
            ser_case("add_unaligned_bit", lead, [b], lambda s: s.add_unaligned_bit(bool(b)), {"lead_bits": lead, "value": b})
        # NumPy scalars reach the integer primitives from array elements
        for dt, n in ((np.int8, 5), (np.int16, 9), (np.int64, 63), (np.uint8, 4), (np.uint64, 64), (np.int32, 24)):
            info = np.iinfo(dt)
            lo, hi = max(int(info.min), -(1 << (n - 1))) if info.min < 0 else 0, min(int(info.max), (1 << (n - (1 if info.min < 0 else 0))) - 1)
            for v in {lo, hi, 0, RNG.randint(lo, hi)}:
                x = dt(v)
                if info.min < 0:
                    ser_case("add_unaligned_signed(numpy scalar)", lead, bits_of_int(v & ((1 << n) - 1), n), lambda s: s.add_unaligned_signed(x, n), {"lead_bits": lead, "value": f"{dt.__name__}({v})", "bit_length": n})
                else:
                    ser_case("add_unaligned_unsigned(numpy scalar)", lead, bits_of_int(v, n), lambda s: s.add_unaligned_unsigned(x, n), {"lead_bits": lead, "value": f"{dt.__name__}({v})", "bit_length": n})
        for fmt, name in (("e", "f16"), ("f", "f32"), ("d", "f64")):
            for x in (0.0, -0.0, 1.0, -2.5, 65504.0, 1e-7, 3.4e38, 1e39, -1e39, 1e300, math.inf, -math.inf, 0.1, 1.0 / 3.0):
                ser_case(f"add_unaligned_{name}", lead, f_bits(x, fmt), lambda s: getattr(s, f"add_unaligned_{name}")(x), {"lead_bits": lead, "value": x})
                if lead % 8 == 0:
                    ser_case(f"add_aligned_{name}", lead, f_bits(x, fmt), lambda s: getattr(s, f"add_aligned_{name}")(x), {"lead_bits": lead, "value": x})
            # NaN stays NaN
            s, ref = fresh(lead, 12)
            getattr(s, f"add_unaligned_{name}")(math.nan)
            N[0] += 1
            w = {"e": 16, "f": 32, "d": 64}[fmt]
            raw = int_of_bits(buf_bits(s)[lead:lead + w])
            val = struct.unpack("<" + fmt, raw.to_bytes(w // 8, "little"))[0]
            if not math.isnan(val) or s.current_bit_length != lead + w or buf_bits(s)[:lead] != ref:
                fail(f"add_unaligned_{name}", {"lead_bits": lead, "value": "nan"}, f"NaN written as {val!r} (pattern {raw:#x}), cursor {s.current_bit_length}")
        for cnt in (0, 1, 2, 3, 7, 8, 9, 10):
            data = bytes(RNG.getrandbits(8) for _ in range(cnt))
            arr = np.frombuffer(data, dtype=np.uint8)
            ser_case("add_unaligned_bytes", lead, bits_of_bytes(data), lambda s: s.add_unaligned_bytes(arr), {"lead_bits": lead, "bytes": data.hex()})
            if lead % 8 == 0:
                ser_case("add_aligned_bytes", lead, bits_of_bytes(data), lambda s: s.add_aligned_bytes(arr), {"lead_bits": lead, "bytes": data.hex()})
        for cnt in (0, 1, 2, 7, 8, 9, 15, 16, 17, 20):
            bits = [RNG.getrandbits(1) for _ in range(cnt)]
            barr = np.array(bits, dtype=np.bool_)
            ser_case("add_unaligned_array_of_bits", lead, bits, lambda s: s.add_unaligned_array_of_bits(barr), {"lead_bits": lead, "bits": bits})
            if lead % 8 == 0:
                ser_case("add_aligned_array_of_bits", lead, bits, lambda s: s.add_aligned_array_of_bits(barr), {"lead_bits": lead, "bits": bits})
        for dt in (np.uint8, np.int8, np.uint16, np.int16, np.uint32, np.int32, np.uint64, np.int64, np.float16, np.float32, np.float64):
            for cnt in (0, 1, 3):
                raw = bytes(RNG.getrandbits(8) for _ in range(cnt * np.dtype(dt).itemsize))
                arr = np.frombuffer(raw, dtype=dt)
                ser_case("add_unaligned_array_of_standard_bit_length_primitives", lead, bits_of_bytes(raw), lambda s: s.add_unaligned_array_of_standard_bit_length_primitives(arr), {"lead_bits": lead, "dtype": np.dtype(dt).name, "bytes": raw.hex()})
                if lead % 8 == 0:
                    ser_case("add_aligned_array_of_standard_bit_length_primitives", lead, bits_of_bytes(raw), lambda s: s.add_aligned_array_of_standard_bit_length_primitives(arr), {"lead_bits": lead, "dtype": np.dtype(dt).name, "bytes": raw.hex()})
        if lead % 8 == 0:
            for w, signed in ((8, False), (16, False), (32, False), (64, False), (8, True), (16, True), (32, True), (64, True)):
                for v in int_values(w, signed):
                    nm = f"add_aligned_{'i' if signed else 'u'}{w}"
                    ser_case(nm, lead, bits_of_int(v & ((1 << w) - 1), w), lambda s: getattr(s, nm)(v), {"lead_bits": lead, "value": v})
        for a in (1, 8, 16, 32):
            pad = -lead % a
            ser_case("pad_to_alignment", lead, [0] * pad, lambda s: s.pad_to_alignment(a), {"lead_bits": lead, "alignment": a})
        for k in (0, 1, 3, 8, 13):
            ser_case("skip_bits", lead, [0] * k, lambda s: s.skip_bits(k), {"lead_bits": lead, "bits": k})
    # negative values are refused by the unsigned primitives
    for nm, args in (("add_aligned_u8", (-1,)), ("add_aligned_u16", (-1,)), ("add_unaligned_unsigned", (-1, 8)), ("add_aligned_unsigned", (-5, 12))):
        s = ns.Serializer.new(16)
        N[0] += 1
        try:
            getattr(s, nm)(*args)
            fail(nm, {"args": list(args)}, "a negative value is accepted by an unsigned primitive")
        except ValueError:
            pass
        except Exception as ex:  # noqa
            fail(nm, {"args": list(args)}, f"raises {type(ex).__name__} instead of ValueError")
    # a write that does not fit must raise instead of dropping bits; one that fits with a spare byte must succeed
    for size in range(0, 6):
        total = size + 1  # Serializer.new adds one byte
        for lead in range(0, 8 * total + 1, 1 if TIER == "thorough" else 3):
            if lead > 8 * total:
                continue
            for n in (1, 4, 8, 9, 16, 31, 64):
                s = ns.Serializer.new(size)
                ref = []
                try:
                    for _ in range(lead):
                        s.add_unaligned_bit(True)
                        ref.append(1)
                except Exception:  # noqa
                    continue
                v = (1 << n) - 1
                N[0] += 1
                try:
                    s.add_unaligned_unsigned(v, n)
                    raised = None
                except Exception as ex:  # noqa
                    raised = type(ex).__name__
                fits = lead + n <= 8 * total
                if not fits and raised is None:
                    fail("add_unaligned_unsigned", {"buffer_bytes": total, "lead_bits": lead, "bit_length": n, "value": v}, "the value does not fit into the buffer and nothing is raised: bits are dropped silently")
                elif fits and raised is None:
                    check_ser("add_unaligned_unsigned(near the end)", {"buffer_bytes": total, "lead_bits": lead, "bit_length": n}, s, ref + bits_of_int(v, n), total)
                elif fits and lead + n + 8 <= 8 * total:
                    fail("add_unaligned_unsigned", {"buffer_bytes": total, "lead_bits": lead, "bit_length": n}, f"raises {raised} although the value fits with a spare byte")
    # fork_bytes: the fork writes into the parent's storage at the parent's cursor
    for lead_bytes in (0, 1, 3):
        for fsize in (0, 1, 4):
            s, ref = fresh(8 * lead_bytes, lead_bytes + fsize + 6)
            f = s.fork_bytes(fsize + 4)
            f.skip_bits(32)
            data = bytes(RNG.getrandbits(8) for _ in range(fsize))
            f.add_aligned_bytes(np.frombuffer(data, dtype=np.uint8))
            s.add_aligned_u32(fsize)
            s.skip_bits(8 * fsize)
            s.add_unaligned_unsigned(5, 3)
            check_ser("fork_bytes", {"lead_bytes": lead_bytes, "nested_bytes": data.hex()}, s, ref + bits_of_int(fsize, 32) + bits_of_bytes(data) + [1, 0, 1], lead_bytes + fsize + 6 + 1)
    for lead in (1, 7, 9):
        s, _ = fresh(lead, 8)
        N[0] += 1
        try:
            s.fork_bytes(1)
            fail("fork_bytes", {"lead_bits": lead}, "an unaligned serializer can be forked")
        except ValueError:
            pass
    s, _ = fresh(8, 4)
    N[0] += 1
    try:
        s.fork_bytes(5)
        fail("fork_bytes", {"lead_bits": 8, "buffer": 4, "fork": 5}, "a fork larger than the remaining space is granted")
    except ValueError:
        pass


# ---------------------------------------------------------------------------------------------------------------------
# Deserializer / ZeroExtendingBuffer
# ---------------------------------------------------------------------------------------------------------------------
def zx(bits, off, n):
    return [bits[i] if 0 <= i < len(bits) else 0 for i in range(off, off + n)]


def sx(v, n):
    return v - (1 << n) if n and v >> (n - 1) else v


def des_case(op, data, off, call, want, nbits, inp, split=None):
    N[0] += 1
    buf = bytearray(data)
    frags = [memoryview(buf)] if split is None else [memoryview(buf[:split]), memoryview(buf[split:])]
    d = ns.Deserializer.new(frags)
    d.skip_bits(off)
    try:
        got = call(d)
    except Exception as ex:  # noqa
        fail(op, inp, f"raises {type(ex).__name__}: {str(ex)[:200]}")
        return
    if isinstance(got, np.ndarray):
        got = got.tolist() if got.dtype.kind != "f" else [struct.pack("<d", float(x)).hex() for x in got]
        want = want if not (want and isinstance(want[0], float)) else [struct.pack("<d", float(x)).hex() for x in want]
    if isinstance(want, float) and math.isnan(want):
        ok = isinstance(got, float) and math.isnan(got)
    elif isinstance(want, float):
        ok = isinstance(got, float) and struct.pack("<d", got) == struct.pack("<d", want)
    else:
        ok = got == want and type(got) is type(want)
    if not ok:
        fail(op, inp, f"returns {got!r}, expected {want!r}")
    elif d.consumed_bit_length != off + nbits:
        fail(op, inp, f"cursor at bit {d.consumed_bit_length}, expected {off + nbits}")
    elif d.remaining_bit_length != 8 * len(data) - off - nbits:
        fail(op, inp, f"remaining_bit_length {d.remaining_bit_length}, expected {8 * len(data) - off - nbits}")
    elif bytes(buf) != bytes(data):
        fail(op, inp, "the input buffer was modified")


def run_deserializer():
    sizes = range(0, 13)
    offs = range(0, 24)
    widths = range(1, 65) if TIER == "thorough" else [1, 2, 3, 5, 7, 8, 9, 12, 13, 16, 17, 24, 31, 32, 33, 48, 57, 63, 64]
    for size in sizes:
        variants = [bytes(RNG.getrandbits(8) for _ in range(size)), b"\xff" * size] + ([bytes(RNG.getrandbits(8) for _ in range(size))] if TIER == "thorough" else [])
        for data in variants:
            bits = bits_of_bytes(data)
            for off in offs:
                split = RNG.randint(1, size - 1) if size > 1 and RNG.random() < 0.3 else None
                inp0 = {"bytes": data.hex(), "offset_bits": off, "fragments": 1 if split is None else 2}
                for n in widths:
                    v = int_of_bits(zx(bits, off, n))
                    des_case("fetch_unaligned_unsigned", data, off, lambda d: d.fetch_unaligned_unsigned(n), v, n, dict(inp0, bit_length=n), split)
                    if n >= 2:
                        des_case("fetch_unaligned_signed", data, off, lambda d: d.fetch_unaligned_signed(n), sx(v, n), n, dict(inp0, bit_length=n), split)
                    if off % 8 == 0:
                        des_case("fetch_aligned_unsigned", data, off, lambda d: d.fetch_aligned_unsigned(n), v, n, dict(inp0, bit_length=n), split)
                        if n >= 2:
                            des_case("fetch_aligned_signed", data, off, lambda d: d.fetch_aligned_signed(n), sx(v, n), n, dict(inp0, bit_length=n), split)
                des_case("fetch_unaligned_bit", data, off, lambda d: d.fetch_unaligned_bit(), bool(zx(bits, off, 1)[0]), 1, inp0, split)
                for fmt, name, w in (("e", "f16", 16), ("f", "f32", 32), ("d", "f64", 64)):
                    x = struct.unpack("<" + fmt, int_of_bits(zx(bits, off, w)).to_bytes(w // 8, "little"))[0]
                    des_case(f"fetch_unaligned_{name}", data, off, lambda d: getattr(d, f"fetch_unaligned_{name}")(), float(x), w, inp0, split)
                    if off % 8 == 0:
                        des_case(f"fetch_aligned_{name}", data, off, lambda d: getattr(d, f"fetch_aligned_{name}")(), float(x), w, inp0, split)
                for cnt in (0, 1, 2, 5):
                    want = [int_of_bits(zx(bits, off + 8 * i, 8)) for i in range(cnt)]
                    des_case("fetch_unaligned_bytes", data, off, lambda d: d.fetch_unaligned_bytes(cnt), want, 8 * cnt, dict(inp0, count=cnt), split)
                    if off % 8 == 0:
                        des_case("fetch_aligned_bytes", data, off, lambda d: d.fetch_aligned_bytes(cnt), want, 8 * cnt, dict(inp0, count=cnt), split)
                for cnt in (0, 1, 7, 8, 9, 17):
                    want = [bool(b) for b in zx(bits, off, cnt)]
                    des_case("fetch_unaligned_array_of_bits", data, off, lambda d: d.fetch_unaligned_array_of_bits(cnt), want, cnt, dict(inp0, count=cnt), split)
                    if off % 8 == 0:
                        des_case("fetch_aligned_array_of_bits", data, off, lambda d: d.fetch_aligned_array_of_bits(cnt), want, cnt, dict(inp0, count=cnt), split)
                for dt in (np.uint8, np.int8, np.uint16, np.int16, np.uint32, np.int32, np.uint64, np.int64, np.float16, np.float32, np.float64):
                    isz = np.dtype(dt).itemsize
                    for cnt in (0, 1, 2):
                        raw = int_of_bits(zx(bits, off, 8 * isz * cnt)).to_bytes(isz * cnt, "little")
                        want = np.frombuffer(raw, dtype=dt)
                        want = want.tolist() if want.dtype.kind != "f" else [float(x) for x in want]
                        des_case("fetch_unaligned_array_of_standard_bit_length_primitives", data, off, lambda d: d.fetch_unaligned_array_of_standard_bit_length_primitives(dt, cnt), want, 8 * isz * cnt, dict(inp0, dtype=np.dtype(dt).name, count=cnt), split)
                        if off % 8 == 0:
                            des_case("fetch_aligned_array_of_standard_bit_length_primitives", data, off, lambda d: d.fetch_aligned_array_of_standard_bit_length_primitives(dt, cnt), want, 8 * isz * cnt, dict(inp0, dtype=np.dtype(dt).name, count=cnt), split)
                if off % 8 == 0:
                    for w, signed in ((8, False), (16, False), (32, False), (64, False), (8, True), (16, True), (32, True), (64, True)):
                        v = int_of_bits(zx(bits, off, w))
                        nm = f"fetch_aligned_{'i' if signed else 'u'}{w}"
                        des_case(nm, data, off, lambda d: getattr(d, nm)(), sx(v, w) if signed else v, w, inp0, split)
                for a in (1, 8, 16):
                    des_case("pad_to_alignment", data, off, lambda d: d.pad_to_alignment(a), None, -off % a, dict(inp0, alignment=a), split)
            # ZeroExtendingBuffer
            z = ns.ZeroExtendingBuffer([memoryview(bytearray(data))])
            for i in range(0, size + 3):
                N[0] += 1
                want = data[i] if i < size else 0
                if z.get_byte(i) != want:
                    fail("ZeroExtendingBuffer.get_byte", {"bytes": data.hex(), "index": i}, f"returns {z.get_byte(i)}, expected {want}")
                for j in range(i, size + 4):
                    N[0] += 1
                    got = bytes(int(x) for x in z.get_unsigned_slice(i, j))
                    want_b = bytes(data[k] if k < size else 0 for k in range(i, j))
                    if got != want_b:
                        fail("ZeroExtendingBuffer.get_unsigned_slice", {"bytes": data.hex(), "left": i, "right": j}, f"returns {got.hex()}, expected {want_b.hex()}")
            # fork_bytes
            for offb in range(0, size + 1):
                for k in range(0, size - offb + 1):
                    N[0] += 1
                    d = ns.Deserializer.new([memoryview(bytearray(data))])
                    d.skip_bits(8 * offb)
                    f = d.fork_bytes(k)
                    got = [f.fetch_aligned_u8() for _ in range(k + 2)]
                    want_l = [data[offb + i] if i < k else 0 for i in range(k + 2)]
                    if got != want_l or d.consumed_bit_length != 8 * offb:
                        fail("Deserializer.fork_bytes", {"bytes": data.hex(), "offset_bytes": offb, "fork_bytes": k}, f"the fork reads {got}, expected {want_l} (its own end is the end: zero extension)")


def run_half():
    """all 65,536 half values through the Serializer and back (float16 packing is struct's: an assumed library contract)"""
    bad = 0
    for h in range(1 << 16):
        x = struct.unpack("<e", struct.pack("<H", h))[0]
        s = ns.Serializer.new(4)
        s.add_unaligned_bit(True)
        s.add_unaligned_f16(x)
        raw = int_of_bits(buf_bits(s)[1:17])
        d = ns.Deserializer.new([memoryview(bytearray(bytes(s.buffer)))])
        d.skip_bits(1)
        y = d.fetch_unaligned_f16()
        N[0] += 1
        if math.isnan(x):
            ok = math.isnan(y) and (raw & 0x7C00) == 0x7C00 and (raw & 0x3FF)
        else:
            ok = raw == h and struct.pack("<d", y) == struct.pack("<d", x)
        if not ok:
            bad += 1
            fail("add_unaligned_f16/fetch_unaligned_f16", {"half_pattern": h}, f"written as {raw:#06x}, read back as {y!r}")
    # out-of-range magnitudes map to infinity (truncated cast mode; saturation is the caller's)
    for x, w in ((65520.0, 0x7C00), (-65520.0, 0xFC00), (1e9, 0x7C00), (65519.99, 0x7BFF)):
        s = ns.Serializer.new(4)
        s.add_aligned_f16(x)
        N[0] += 1
        raw = int_of_bits(buf_bits(s)[:16])
        if raw != w:
            fail("add_aligned_f16", {"value": x}, f"written as {raw:#06x}, expected {w:#06x}")


def main():
    run_serializer()
    run_deserializer()
    run_half()
    print(json.dumps({"evaluations": N[0], "failures": FAIL}))


if __name__ == "__main__":
    main()

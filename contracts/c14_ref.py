"""
Native evaluation of C14's top-level contracts on the REAL rendered C functions: a concrete C program is generated
around the rendered header (exactly-sized heap buffers, built with ASan/UBSan), run, and its observable results are
compared with a bit-level reference written from the property statement.  Used to replay solver models / search for a
failing input next to them; never counted as proof.
"""
import itertools
import pathlib
import random
import re
import struct
import subprocess
import tempfile

PRELUDE = r"""
#include <stdio.h>
#include <stdlib.h>
#include <string.h>
#include <stdint.h>
#include <stddef.h>
#define NUNAVUT_ASSERT(x) do { if (!(x)) { printf("ASSERT %s\n", #x); fflush(stdout); exit(3); } } while (0)
#include "nunavut/support/serialization.h"
static uint8_t* mk(const char* hex, size_t n) { uint8_t* p = (uint8_t*) malloc(n ? n : 1); for (size_t i = 0; i < n; i++) { unsigned v; sscanf(hex + 2 * i, "%2x", &v); p[i] = (uint8_t) v; } return p; }
static void dump(const char* tag, const uint8_t* p, size_t n) { printf("%s ", tag); for (size_t i = 0; i < n; i++) printf("%02x", p[i]); printf("\n"); }
"""


def run_c(include_dir, body, timeout=60):
    with tempfile.TemporaryDirectory() as d:
        src = pathlib.Path(d) / "t.c"
        src.write_text(PRELUDE + "int main(void) {\n" + body + "\nreturn 0; }\n")
        exe = pathlib.Path(d) / "t"
        c = subprocess.run(["clang", "-std=c11", "-O0", "-g", "-fsanitize=address,undefined", "-fno-sanitize-recover=undefined", "-I", str(include_dir), str(src), "-o", str(exe)],
                           capture_output=True, text=True)
        if c.returncode != 0:
            return {"compile_error": c.stderr[-1500:]}
        r = subprocess.run([str(exe)], capture_output=True, text=True, timeout=timeout)
        out = {"rc": r.returncode, "stderr": r.stderr[-1500:]}
        for ln in r.stdout.splitlines():
            k, _, v = ln.partition(" ")
            out.setdefault(k, []).append(v)
        return out


# ---- bit-level reference ------------------------------------------------------------------------------------------
def bit(buf, i):
    return (buf[i // 8] >> (i % 8)) & 1 if 0 <= i // 8 < len(buf) else 0


def set_bit_in(buf, i, v):
    if v:
        buf[i // 8] |= 1 << (i % 8)
    else:
        buf[i // 8] &= ~(1 << (i % 8)) & 0xFF


def copy_bits_ref(dst, doff, ln, src, soff):
    out = bytearray(dst)
    for i in range(ln):
        set_bit_in(out, doff + i, bit(src, soff + i))
    return bytes(out)


def zx_read_ref(buf, size, off, n):
    v = 0
    for i in range(n):
        if off + i < 8 * size:
            v |= bit(buf[:size], off + i) << i
    return v


def hx(b):
    return bytes(b).hex()


def patterns(n, rnd):
    return [bytes([0x00] * n), bytes([0xFF] * n), bytes([0xA5] * n), bytes(rnd.randrange(256) for _ in range(n))]


def model_ints(model):
    out = {}
    for k, v in (model or {}).items():
        m = re.match(r"\|?([A-Za-z_.]+)!\d+\|?", k)
        if not m:
            continue
        try:
            if v.startswith("#x"):
                out[m.group(1)] = int(v[2:], 16)
            elif v.startswith("#b"):
                out[m.group(1)] = int(v[2:], 2)
            else:
                out[m.group(1)] = int(v.replace("(", "").replace(")", "").replace(" ", "")) if not v.startswith("(-") else -int(re.sub(r"\D", "", v))
        except ValueError:
            pass
    return out


def witness(function, include_dir, model=None, budget=40):
    """search next to the solver model for an input on which the real function violates its contract"""
    rnd = random.Random(1)
    mi = model_ints(model)
    cands = []
    W = {"nunavutGetU8": 8, "nunavutGetU16": 16, "nunavutGetU32": 32, "nunavutGetU64": 64, "nunavutGetI8": 8, "nunavutGetI16": 16, "nunavutGetI32": 32, "nunavutGetI64": 64}
    small = [0, 1, 3, 7, 8, 9, 15, 16, 17]
    if function == "nunavutCopyBits":
        seeds = [(mi.get("dst_offset_bits", 0), mi.get("length_bits", 1), mi.get("src_offset_bits", 0))]
        seeds += [(d, l, s) for d in (0, 3, 8, 13) for l in (1, 5, 8, 11, 16, 19) for s in (0, 5, 8, 10)]
        for doff, ln, soff in seeds:
            if not (0 <= doff < 200 and 0 <= ln < 200 and 0 <= soff < 200):
                continue
            dn, sn = (doff + ln + 7) // 8 + 1, (soff + ln + 7) // 8 + 1
            for dp, sp in itertools.product(patterns(dn, rnd), patterns(sn, rnd)):
                cands.append(("copy", doff, ln, soff, dp, sp))
    elif function in W or function == "nunavutGetBit":
        width = W.get(function, 8)
        seeds = [(mi.get("buf_size_bytes", 1), mi.get("off_bits", 0), mi.get("len_bits", width))]
        seeds += [(sz, off, ln) for sz in (0, 1, 2, 5, 9) for off in small + [31, 40, 70] for ln in (0, 1, 7, 8, 9, width - 1, width, width + 1)]
        for sz, off, ln in seeds:
            if not (0 <= sz < 64 and 0 <= off < 600 and 0 <= ln < 256):
                continue
            for bp in patterns(sz, rnd):
                cands.append(("get", function, width, sz, off, ln, bp))
    elif function in ("nunavutSetUxx", "nunavutSetIxx", "nunavutSetBit", "nunavutSetF16", "nunavutSetF32", "nunavutSetF64"):
        seeds = [(mi.get("buf_size_bytes", 1), mi.get("off_bits", 0), mi.get("len_bits", 8), mi.get("value", 0xA5A5A5A5A5A5A5A5))]
        seeds += [(sz, off, ln, v) for sz in (0, 1, 2, 9) for off in small for ln in (0, 1, 7, 8, 9, 33, 64, 65) for v in (0, 0xFFFFFFFFFFFFFFFF, 0x8000000000000001, 0x0123456789ABCDEF)]
        for sz, off, ln, v in seeds:
            if not (0 <= sz < 64 and 0 <= off < 600 and 0 <= ln < 256):
                continue
            for bp in patterns(sz, rnd)[:3]:
                cands.append(("set", function, sz, off, ln, v & 0xFFFFFFFFFFFFFFFF, bp))
    elif function == "nunavutGetBits":
        seeds = [(mi.get("buf_size_bytes", 1), mi.get("off_bits", 0), mi.get("len_bits", 8))]
        seeds += [(sz, off, ln) for sz in (0, 1, 3) for off in small + [30] for ln in (0, 1, 7, 8, 9, 17)]
        for sz, off, ln in seeds:
            if not (0 <= sz < 64 and 0 <= off < 600 and 0 <= ln < 600):
                continue
            for bp in patterns(sz, rnd)[:3]:
                for op in patterns((ln + 7) // 8 + 1, rnd)[:2]:
                    cands.append(("getbits", sz, off, ln, bp, op))
    elif function in ("nunavutFloat16Pack", "nunavutFloat16Unpack"):
        vals = [mi.get("value", 0)] + [0x47801000, 0x477FE000, 0x477FF000, 0x47800000, 0x33800000, 0x33000000, 0x38800000, 0x387FC000, 0x7F800000, 0xFF800000, 0x7FC00000, 0x7F800001, 0x00000001, 0x80000000, 0x3F800000, 0x3F801000, 0x3F802000, 0x3F803000]
        vals += [rnd.randrange(1 << 32) for _ in range(200)]
        cands.append(("f16", function, vals))
    else:
        return None
    # batch candidates into as few C programs as possible
    n = 0
    for chunk_start in range(0, min(len(cands), budget * 50), 50):
        chunk = cands[chunk_start:chunk_start + 50]
        body, expect = [], []
        for i, c in enumerate(chunk):
            b, e = _emit(i, c)
            body.append("{" + b + "}")
            expect.append(e)
        res = run_c(include_dir, "\n".join(body))
        n += len(chunk)
        if "compile_error" in res:
            return {"input": None, "why": "replay harness did not compile: " + res["compile_error"][-300:], "evaluations": n, "harness_error": True}
        bad = _compare(chunk, expect, res)
        if bad:
            bad["evaluations"] = n
            return bad
    witness.evaluations = n
    return None


def _emit(i, c):
    k = c[0]
    if k == "copy":
        _, doff, ln, soff, dp, sp = c
        body = f'uint8_t* d = mk("{hx(dp)}", {len(dp)}); uint8_t* s = mk("{hx(sp)}", {len(sp)}); nunavutCopyBits(d, {doff}U, {ln}U, s, {soff}U); printf("r{i} "); dump("", d, {len(dp)}); free(d); free(s);'
        return body, ("mem", hx(copy_bits_ref(dp, doff, ln, sp, soff)))
    if k == "get":
        _, fn, width, sz, off, ln, bp = c
        n = min(ln, width)
        if fn == "nunavutGetBit":
            body = f'uint8_t* b = mk("{hx(bp)}", {sz}); printf("r{i} %llu\\n", (unsigned long long) nunavutGetBit(b, {sz}U, {off}U)); free(b);'
            return body, ("val", zx_read_ref(bp, sz, off, 1))
        u = zx_read_ref(bp, sz, off, n)
        if fn.startswith("nunavutGetI"):
            if n > 0 and (u >> (n - 1)) & 1:
                u -= 1 << n
            body = f'uint8_t* b = mk("{hx(bp)}", {sz}); printf("r{i} %lld\\n", (long long) {fn}(b, {sz}U, {off}U, {ln}U)); free(b);'
            return body, ("val", u)
        body = f'uint8_t* b = mk("{hx(bp)}", {sz}); printf("r{i} %llu\\n", (unsigned long long) {fn}(b, {sz}U, {off}U, {ln}U)); free(b);'
        return body, ("val", u)
    if k == "set":
        _, fn, sz, off, ln, v, bp = c
        if fn == "nunavutSetBit":
            small = 8 * sz <= off
            exp = bp if small else copy_bits_ref(bp, off, 1, bytes([v & 1]), 0)
            call = f"nunavutSetBit(b, {sz}U, {off}U, {v & 1})"
        elif fn in ("nunavutSetUxx", "nunavutSetIxx"):
            ln = ln % 256
            small = 8 * sz < off + ln
            exp = bp if small else copy_bits_ref(bp, off, min(ln, 64), struct.pack("<Q", v), 0)
            arg = f"(int64_t) {v}ULL" if fn == "nunavutSetIxx" else f"{v}ULL"
            call = f"{fn}(b, {sz}U, {off}U, {arg}, {ln}U)"
        else:
            w = int(fn[-2:])
            small = 8 * sz < off + w
            if w == 32:
                raw = struct.pack("<I", v & 0xFFFFFFFF)
                call = f"nunavutSetF32(b, {sz}U, {off}U, ((union {{ uint32_t i; float f; }}){{ .i = {v & 0xFFFFFFFF}U }}).f)"
            elif w == 64:
                raw = struct.pack("<Q", v)
                call = f"nunavutSetF64(b, {sz}U, {off}U, ((union {{ uint64_t i; double f; }}){{ .i = {v}ULL }}).f)"
            else:
                return "", ("skip", None)
            exp = bp if small else copy_bits_ref(bp, off, w, raw, 0)
        body = f'uint8_t* b = mk("{hx(bp)}", {sz}); int rc = {call}; printf("r{i} %d ", rc); dump("", b, {sz}); free(b);'
        return body, ("rcmem", -3 if small else 0, hx(exp))
    if k == "getbits":
        _, sz, off, ln, bp, op = c
        nb = (ln + 7) // 8
        sat = max(0, min(ln, 8 * sz - off))
        exp = bytearray(op)
        for j in range(nb):
            exp[j] = 0
        exp = copy_bits_ref(bytes(exp), 0, sat, bp, off)
        body = f'uint8_t* b = mk("{hx(bp)}", {sz}); uint8_t* o = mk("{hx(op)}", {len(op)}); nunavutGetBits(o, b, {sz}U, {off}U, {ln}U); printf("r{i} "); dump("", o, {len(op)}); free(b); free(o);'
        return body, ("mem", hx(exp))
    if k == "f16":
        _, fn, vals = c
        if fn == "nunavutFloat16Pack":
            lines = "".join(f'printf("p %u %u\\n", {v}U, (unsigned) nunavutFloat16Pack(((union {{ uint32_t i; float f; }}){{ .i = {v & 0xFFFFFFFF}U }}).f));' for v in vals)
        else:
            lines = "".join(f'{{ union {{ uint32_t i; float f; }} u; u.f = nunavutFloat16Unpack({v & 0xFFFF}U); printf("u %u %u\\n", {v & 0xFFFF}U, u.i); }}' for v in vals)
        return lines, ("f16", fn)
    return "", ("skip", None)


def half_value(h):
    return struct.unpack("<e", struct.pack("<H", h & 0xFFFF))[0]


def _compare(chunk, expect, res):
    import math
    if res.get("rc", 0) != 0 and not any(k.startswith("r") or k in ("p", "u") for k in res):
        return {"input": "batch", "why": f"program aborted (rc={res.get('rc')}): {res.get('stderr', '')[-400:]}"}
    for i, (c, e) in enumerate(zip(chunk, expect)):
        got = res.get(f"r{i}")
        if e[0] == "skip":
            continue
        if e[0] == "f16":
            fn = e[1]
            if fn == "nunavutFloat16Pack":
                prev = None
                rows = []
                for ln in res.get("p", []):
                    a, b = ln.split()
                    x = struct.unpack("<f", struct.pack("<I", int(a)))[0]
                    h = int(b)
                    hv = half_value(h)
                    rows.append((x, hv))
                    if math.isnan(x):
                        ok = math.isnan(hv)
                    elif math.isinf(x):
                        ok = math.isinf(hv) and (hv > 0) == (x > 0)
                    else:
                        if math.isnan(hv):
                            ok = False
                        elif abs(x) >= 65536.0:
                            ok = math.isinf(hv)
                        else:
                            # faithful: no representable half strictly between x and the result
                            lo, hi = (min(x, hv), max(x, hv))
                            ok = True
                            if math.isinf(hv):
                                ok = abs(x) > 65504.0
                            else:
                                nb = struct.unpack("<e", struct.pack("<H", (h + (1 if (hv < x) == (hv >= 0) else -1)) & 0xFFFF))[0] if hv != x else hv
                                ok = hv == x or not (lo < nb < hi) and (nb <= lo or nb >= hi or math.isnan(nb))
                        ok = ok and (math.copysign(1, hv) == math.copysign(1, x))
                    if not ok:
                        return {"input": {"function": fn, "value_bits": hex(int(a))}, "why": f"Pack({x!r}) = {hex(h)} ({hv!r}) violates the half-precision contract"}
                rows = sorted(r for r in rows if not math.isnan(r[0]))
                for (x1, h1), (x2, h2) in zip(rows, rows[1:]):
                    if not math.isnan(h1) and not math.isnan(h2) and h1 > h2:
                        return {"input": {"function": fn, "x": [x1, x2]}, "why": f"not monotone: Pack({x1}) = {h1} > Pack({x2}) = {h2}"}
            else:
                for ln in res.get("u", []):
                    a, b = ln.split()
                    hv = half_value(int(a))
                    fv = struct.unpack("<f", struct.pack("<I", int(b)))[0]
                    if not ((math.isnan(hv) and math.isnan(fv)) or hv == fv and math.copysign(1, hv) == math.copysign(1, fv)):
                        return {"input": {"function": fn, "half_bits": hex(int(a))}, "why": f"Unpack = {fv!r}, the half is {hv!r}"}
            continue
        if got is None:
            return {"input": _describe(c), "why": f"no result (program aborted: rc={res.get('rc')} {res.get('stderr', '')[-300:]}; {res.get('ASSERT', '')})"}
        g = got[0].split()
        if e[0] == "mem" and g[-1] != e[1]:
            return {"input": _describe(c), "why": f"buffer after the call {g[-1]}, contract {e[1]}"}
        if e[0] == "val" and int(g[0]) != e[1]:
            return {"input": _describe(c), "why": f"returned {g[0]}, contract {e[1]}"}
        if e[0] == "rcmem" and (int(g[0]) != e[1] or (g[1] if len(g) > 1 else "") != e[2]):
            return {"input": _describe(c), "why": f"returned {g[0]} with buffer {g[1] if len(g) > 1 else ''}, contract: {e[1]} with buffer {e[2]}"}
    if res.get("rc", 0) != 0:
        return {"input": "batch", "why": f"sanitizer / assertion: rc={res.get('rc')} {res.get('stderr', '')[-400:]} {res.get('ASSERT', '')}"}
    return None


def _describe(c):
    k = c[0]
    if k == "copy":
        return {"dst_offset_bits": c[1], "length_bits": c[2], "src_offset_bits": c[3], "dst": hx(c[4]), "src": hx(c[5])}
    if k == "get":
        return {"function": c[1], "buf_size_bytes": c[3], "off_bits": c[4], "len_bits": c[5], "buf": hx(c[6])}
    if k == "set":
        return {"function": c[1], "buf_size_bytes": c[2], "off_bits": c[3], "len_bits": c[4], "value": hex(c[5]), "buf": hx(c[6])}
    if k == "getbits":
        return {"buf_size_bytes": c[1], "off_bits": c[2], "len_bits": c[3], "buf": hx(c[4]), "output": hx(c[5])}
    return str(c)[:200]

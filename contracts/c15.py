"""
C15 -- line post-processing is chunking independent.  Sidecar contracts for

  nunavut/jinja/__init__.py : CodeGenerator._generate_with_line_buffer, CodeGenerator._filter_and_write_line
  nunavut/_postprocessors.py: TrimTrailingWhitespace.__call__, LimitEmptyLines.__call__

Ghost state: `emitted` -- concatenation of every (line + terminator) handed to the processors so far;
`final` -- an unterminated last line has been emitted; `template_gen.consumed` -- concatenation of the chunks
taken from the template so far.

The *emit precondition* (contract of _filter_and_write_line as seen from its caller) comes from the property
statement: the processors must see exactly the lines of the complete text, i.e. each emitted pair (line, le) has
no "\\n" inside `line`, `le` is the terminator that follows it in the text ("\\n" or "\\r\\n" -- a "\\n" terminator
is never preceded by "\\r", or the pair would be a split "\\r\\n"), or `le` is empty for a non-empty last line.
Together with `emitted == consumed` the decomposition is unique (Lean lemma L1), hence chunking independent.
"""
from vk.epy import (Contract, Loop, Raises, SBool, SConst, SInt, SObj, SOpt, SStr, STuple, VBool, VConst, VObj,
                    VStr)
from vk import pyre
from vk.smt import app

WS = pyre.ranges_to_re(pyre.category_ranges("space"))


class StrIterProto:
    """for part in template_gen: every iteration receives an arbitrary string; ghost `consumed` accumulates."""

    def __init__(self, it, obj):
        self.it, self.obj = it, obj

    def init(self):
        pass

    def havoc(self):
        pass  # object fields are havoced by the loop rule (template_gen is mentioned in the loop header)

    def has_next(self):
        return VBool(self.it.ctx.fresh("Bool", "gen.has_next"))

    def next(self):
        ctx = self.it.ctx
        part = VStr(ctx.fresh("String", "part", model=True))
        cur = ctx.get_field(self.obj, "consumed")
        c = ctx.fresh("String", "consumed")
        ctx.assume(f"(= {c} (str.++ {cur.t} {part.t}))")
        ctx.set_field(self.obj, "consumed", VStr(c))
        return part

    def shape(self):
        return VStr(self.it.ctx.fresh("String", "part_after_loop"))

    def done(self):
        pass


def install(engine):
    engine.ghost_classes.update({"StrIter", "FileLines", "PPList", "PPChain"})
    engine.intrinsics["for:StrIter"] = lambda it, obj: StrIterProto(it, obj)
    engine.used("template generator: an arbitrary finite sequence of arbitrary strings (any chunking, empty chunks included)")

    def nl_search_rel(it, n):
        """spec fn: match_obj is what newline_pattern.search(part, pos) returns (assumed contract, relational form)"""
        m, rx, part, pos = [it.eval(a) for a in n.args]
        alts = pyre._literal_alternation(rx.obj[1], rx.obj[2])
        ln = app("str.len", part.t)
        if it.ctx.implied(f"(and (<= 0 {pos.t}) (<= {pos.t} {ln}))"):
            p = pos.t
        else:
            p = f"(ite (< {pos.t} 0) 0 (ite (> {pos.t} {ln}) {ln} {pos.t}))"
        mo = m.val
        return VBool(pyre.literal_alternation_rel(alts, part.t, p, m.isnone, it.ctx.get_field(mo, "_start").t,
                                                  it.ctx.get_field(mo, "_end").t))

    engine.spec_fns["nl_search_rel"] = nl_search_rel

    def endswith_ws(it, n):
        s = it.eval(n.args[0])
        return VBool(app("str.in_re", app("str.at", s.t, app("-", app("str.len", s.t), "1")), WS))

    def all_ws(it, n):
        s = it.eval(n.args[0])
        return VBool(app("str.in_re", s.t, app("re.*", WS)))

    engine.spec_fns["endswith_ws"] = endswith_ws
    engine.spec_fns["all_ws"] = all_ws


CLS = ("class", "CodeGenerator", {})

EMIT = Contract(
    target="nunavut/jinja/__init__.py:CodeGenerator._filter_and_write_line",
    params={"line_and_lineend": STuple([SStr, SStr]), "output_file": SObj("File", {}), "line_pps": SConst("pps")},
    requires=[
        "not final",
        "'\\n' not in line_and_lineend[0]",
        "(line_and_lineend[1] == '\\n' and not line_and_lineend[0].endswith('\\r'))"
        " or line_and_lineend[1] == '\\r\\n'"
        " or (line_and_lineend[1] == '' and line_and_lineend[0] != '')",
    ],
    ensures=[
        ("emitted", "emitted == old(emitted) + line_and_lineend[0] + line_and_lineend[1]"),
        ("final", "final == (line_and_lineend[1] == '')"),
    ],
    modifies=["ghost.emitted", "ghost.final"],
    note="emit precondition: taken from the property statement (lines of the complete text)",
)

GEN = Contract(
    target="nunavut/jinja/__init__.py:CodeGenerator._generate_with_line_buffer",
    params={
        "cls": SConst(CLS),
        "output_file": SObj("File", {}),
        "template_gen": SObj("StrIter", {"consumed": SStr}),
        "line_pps": SConst("pps"),
    },
    ghost={"emitted": SStr, "final": SBool},
    requires=["emitted == ''", "not final", "template_gen.consumed == ''"],
    ensures=[("all-text-emitted-as-lines", "emitted == template_gen.consumed")],
    loops={
        0: Loop(invariant=[
            "emitted + line_buffer.buf == template_gen.consumed",
            "'\\n' not in line_buffer.buf",
            "not final",
        ]),
        1: Loop(
            invariant=[
                "0 <= search_pos and search_pos <= len(part)",
                "emitted + line_buffer.buf + part[search_pos:] == template_gen.consumed",
                "'\\n' not in line_buffer.buf",
                "not final",
                "nl_search_rel(match_obj, newline_pattern, part, search_pos)",
            ],
            variant="len(part) - search_pos",
        ),
    },
    theory="string",
    timeout=240,
)

PP_CALL = Contract(
    target="nunavut/_postprocessors.py:LinePostProcessor.__call__",
    params={"self": SObj("LinePP", {}), "line_and_lineend": STuple([SStr, SStr])},
    result=SOpt(STuple([SStr, SStr])),
    ensures=[("ghost-cur", "(result is None and cur_none) or (not cur_none and result == (cur0, cur1))")],
    modifies=["ghost.cur0", "ghost.cur1", "ghost.cur_none"],
    note="an arbitrary user line post-processor: returns anything (assumed: does not touch the output file)",
)

PP_CALL_TUPLE = Contract(
    target="nunavut/_postprocessors.py:LinePostProcessor.__call__",
    params={"self": SObj("LinePP2", {}), "line_and_lineend": STuple([SStr, SStr])},
    result=STuple([SStr, SStr]),
    ensures=[("ghost-cur", "not cur_none and result == (cur0, cur1)")],
    modifies=["ghost.cur0", "ghost.cur1", "ghost.cur_none"],
    note="an arbitrary line post-processor honouring its documented return type (a 2-tuple of strings)",
)

TRIM = Contract(
    target="nunavut/_postprocessors.py:TrimTrailingWhitespace.__call__",
    # self's fields are taken from the real __init__ at run time (see props/c15.py)
    params={"self": None, "line_and_lineend": STuple([SStr, SStr])},
    ensures=[
        ("terminator-kept", "result[1] == line_and_lineend[1]"),
        ("prefix", "line_and_lineend[0].startswith(result[0])"),
        ("removed-part-is-whitespace", "all_ws(line_and_lineend[0][len(result[0]):])"),
        ("nothing-left-to-trim", "result[0] == '' or not endswith_ws(result[0])"),
    ],
    theory="regex",
)

LIMIT = Contract(
    target="nunavut/_postprocessors.py:LimitEmptyLines.__call__",
    params={"self": SObj("LimitEmptyLines", {"_max_empty_lines": SInt, "_empty_line_count": SInt}),
            "line_and_lineend": STuple([SStr, SStr])},
    # ghost `run`: number of consecutive empty lines at the end of what has been let through so far.
    # Representation invariant J: run == min(_empty_line_count, _max_empty_lines)  (N >= 0, count >= 0)
    ghost={"run": SInt},
    requires=["self._max_empty_lines >= 0", "self._empty_line_count >= 0",
              "run == min(self._empty_line_count, self._max_empty_lines)"],
    ensures=[
        ("non-empty-lines-pass-unaltered", "implies(line_and_lineend[0] != '', result == line_and_lineend)"),
        ("empty-line-elided-iff-over-limit",
         "implies(line_and_lineend[0] == '', ite(old(self._empty_line_count) + 1 > self._max_empty_lines,"
         " result == ('', ''), result == line_and_lineend))"),
        ("count-tracks-consecutive-empty-input-lines",
         "self._empty_line_count == ite(line_and_lineend[0] != '', 0, old(self._empty_line_count) + 1)"),
        ("limit-unchanged", "self._max_empty_lines == old(self._max_empty_lines)"),
        # new value of the ghost run, as a function of the old state and the input line
        ("run-never-exceeds-limit",
         "ite(line_and_lineend[0] != '', 0, ite(old(self._empty_line_count) + 1 > self._max_empty_lines, old(run), old(run) + 1))"
         " <= self._max_empty_lines"),
        ("invariant-J-preserved",
         "ite(line_and_lineend[0] != '', 0, ite(old(self._empty_line_count) + 1 > self._max_empty_lines, old(run), old(run) + 1))"
         " == min(self._empty_line_count, self._max_empty_lines)"),
    ],
    modifies=["self._empty_line_count"],
    theory="string",
)

FILTER_AND_WRITE = Contract(
    target="nunavut/jinja/__init__.py:CodeGenerator._filter_and_write_line",
    params={"line_and_lineend": STuple([SStr, SStr]), "output_file": SObj("TextIO", {"buf": SStr}),
            "line_pps": SObj("PPList", {})},
    ghost={"cur0": SStr, "cur1": SStr, "cur_none": SBool},
    requires=["cur0 == line_and_lineend[0]", "cur1 == line_and_lineend[1]", "not cur_none"],
    ensures=[("writes-exactly-the-processed-pair", "output_file.buf == old(output_file.buf) + cur0 + cur1")],
    raises=[Raises("ValueError", "True", must=False, ensures=[("only-if-a-processor-returned-None", "cur_none")])],
    loops={0: Loop(invariant=["not cur_none", "line_and_lineend == (cur0, cur1)",
                              "output_file.buf == old(output_file.buf)"])},
    modifies=["output_file.buf"],
    theory="string",
)


# ---- SupportGenerator._copy_header_using_line_pps -------------------------------------------------------------
class FileLinesProto:
    """for line in <text file opened for reading>: assumed contract of universal-newline iteration -- every line is
    non-empty, has no "\\n" except possibly as its last character, and only the last line may lack the "\\n"."""

    def __init__(self, it, obj):
        self.it, self.obj = it, obj

    def init(self):
        pass

    def havoc(self):
        pass

    def has_next(self):
        ctx = self.it.ctx
        more = ctx.fresh("Bool", "file.has_next")
        # after an unterminated line there is no further line
        ctx.assume(f"(=> {ctx.get_field(self.obj, 'ended').t} (not {more}))")
        return VBool(more)

    def next(self):
        ctx = self.it.ctx
        line = ctx.fresh("String", "file_line", model=True)
        ln = f"(str.len {line})"
        ctx.assume(f"(> {ln} 0)")
        ctx.assume(f"(not (str.contains (str.substr {line} 0 (- {ln} 1)) \"\\u{{a}}\"))")
        cur = ctx.get_field(self.obj, "consumed")
        c = ctx.fresh("String", "consumed")
        ctx.assume(f"(= {c} (str.++ {cur.t} {line}))")
        ctx.set_field(self.obj, "consumed", VStr(c))
        ctx.set_field(self.obj, "ended", VBool(f"(not (str.suffixof \"\\u{{a}}\" {line}))"))
        return VStr(line)

    def done(self):
        pass


class PPChainProto:
    """for line_pp in line_pps, in a function that applies the processors itself: entering the chain is the emit event
    (same precondition and ghost update as CodeGenerator._filter_and_write_line's contract)."""

    def __init__(self, it, obj, var):
        self.it, self.obj, self.var = it, obj, var

    def init(self):
        it = self.it
        ctx = it.ctx
        if self.var not in ctx.env:
            from vk.epy import BindingError
            raise BindingError(f"processor chain input variable {self.var} not found")
        extra = {"line_and_lineend": ctx.env[self.var]}
        for i, r in enumerate(EMIT.requires):
            ctx.prove(it.spec_bool(r, extra), "pre", f"processors-see-a-line-of-the-text.requires{i}")
        t = ctx.env[self.var]
        ctx.ghost["emitted"] = VStr(app("str.++", ctx.ghost["emitted"].t, t.items[0].t, t.items[1].t))
        ctx.ghost["final"] = VBool(f"(= {t.items[1].t} \"\")")
        ctx.ghost["cur0"], ctx.ghost["cur1"], ctx.ghost["cur_none"] = t.items[0], t.items[1], VBool("false")

    def havoc(self):
        pass

    def has_next(self):
        return VBool(self.it.ctx.fresh("Bool", "pps.has_next"))

    def next(self):
        return self.it.ctx.new_obj("LinePP2", {})

    def done(self):
        g = self.it.ctx.ghost
        g["out"] = VStr(app("str.++", g["out"].t, g["cur0"].t, g["cur1"].t))


def install_copy(engine):
    engine.intrinsics["for:FileLines"] = lambda it, obj: FileLinesProto(it, obj)
    engine.intrinsics["for:PPChain"] = lambda it, obj: PPChainProto(it, obj, "resource_line_tuple")
    engine.context_managers.update({"FileLines", "TextIO"})
    engine.used("open(path, 'r') iteration: universal-newline lines (non-empty, '\\n' only as last character, only the last "
                "line may be unterminated); open(path, 'w').write appends (assumed)")

    def b_open(it, path, mode=None, encoding=None):
        from vk import smt as _smt
        m = _smt.smt_str(mode.t) if mode is not None else "r"
        if m == "w":
            return it.ctx.ghost_files["w"]
        return it.ctx.ghost_files["r"]

    engine.intrinsics["open"] = b_open
    engine.intrinsics["str:Obj"] = lambda it, v: VStr(it.ctx.fresh("String", "path"))
    engine.intrinsics["str:Path"] = lambda it, v: VStr(it.ctx.fresh("String", "path"))


def copy_contract():
    def mk_self(ctx, hint):
        # the two files the function opens: ghost objects handed out by the `open` intrinsic
        ctx.ghost_files = {
            "w": ctx.new_obj("TextIO", {"buf": VStr('""')}),
            "r": ctx.new_obj("FileLines", {"consumed": VStr('""'), "ended": VBool("false")}),
        }
        ctx.env["ghost_target"] = ctx.ghost_files["w"]
        ctx.env["ghost_resource"] = ctx.ghost_files["r"]
        return ctx.new_obj("SupportGenerator", {})

    return Contract(
        target="nunavut/jinja/__init__.py:SupportGenerator._copy_header_using_line_pps",
        params={"self": mk_self, "resource": SObj("Path", {}), "target": SObj("Path", {}), "line_pps": SObj("PPChain", {})},
        ghost={"emitted": SStr, "final": SBool, "cur0": SStr, "cur1": SStr, "cur_none": SBool, "out": SStr},
        requires=["emitted == ''", "not final", "out == ''"],
        ensures=[
            ("processors-see-exactly-the-lines-of-the-resource", "emitted == ghost_resource.consumed"),
            ("file-holds-exactly-the-processed-lines", "ghost_target.buf == out"),
        ],
        may_raise_other=True,  # a processor returning None raises TypeError at the subscript: not part of the property
        loops={
            0: Loop(invariant=["emitted == resource_file.consumed", "final == resource_file.ended",
                               "target_file.buf == out"]),
            1: Loop(invariant=["not cur_none", "resource_line_tuple == (cur0, cur1)",
                               "emitted == resource_file.consumed", "final == resource_file.ended",
                               "target_file.buf == out"]),
        },
        theory="string",
        timeout=240,
    )

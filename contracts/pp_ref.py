"""Native replay for the per-program checks (C01/C02/C04/C05-D): when an obligation of a generated codec is not
discharged, the REAL generated C of that type (from the same rendering the VCs came from) is compiled with ASan/UBSan and
run on a bounded set of inputs next to an independent bit-level reference codec written from the Cyphal specification
(this file; it shares no code with vk/spec.py).  A disagreement or a sanitizer report is a replayed failing input; if none
is found the violation is reported with the words no-failing-input-found.  Bounded, never counted as proved.

Serialization: boundary and pseudo-random objects (all-zero, all-ones, per-field extremes, every array count 0..capacity+1
where small, every union tag and an invalid one) into exactly-sized heap buffers pre-filled with 0xA5, also undersized.
Deserialization: pseudo-random and structured byte strings of every length 0..max+2 (serialised objects, truncations,
bit flips) into a poisoned object; the outcome is compared field by field (bit patterns), with the consumed size and error.
"""
import pathlib
import random
import struct
import subprocess
import typing

import pydsdl

ERR = {"arg": 2, "small": 3, "len": 10, "tag": 11, "delim": 12}


def cname(t) -> str:
    if getattr(t, "has_parent_service", False):
        base = t.full_namespace.replace(".", "_") + f"_{t.short_name}"
    else:
        base = t.full_name.replace(".", "_")
    return f"{base}_{t.version.major}_{t.version.minor}"


# ---------------------------------------------------------------------------------------------------------------------
# reference codec on Python values: int / bool / float-bit-pattern leaves, lists, {"_tag_": k, "v": value} for unions,
# dicts for structures
# ---------------------------------------------------------------------------------------------------------------------
class Bits:
    def __init__(self):
        self.b: typing.List[int] = []

    def put(self, value: int, n: int):
        for i in range(n):
            self.b.append((value >> i) & 1)

    def align(self, a: int):
        while len(self.b) % a:
            self.b.append(0)

    def bytes(self) -> bytes:
        bits = self.b + [0] * (-len(self.b) % 8)
        return bytes(sum(bits[i + j] << j for j in range(8)) for i in range(0, len(bits), 8))


def f16_bits(x: float, saturated: bool) -> int:
    import math
    if math.isnan(x):
        return 0x7E00
    if math.isinf(x):
        return 0x7C00 | (0x8000 if x < 0 else 0)
    if saturated and abs(x) > 65504.0:
        x = math.copysign(65504.0, x)
    try:
        return struct.unpack("<H", struct.pack("<e", x))[0]
    except OverflowError:
        return 0x7C00 | (0x8000 if x < 0 else 0)


import threading


class _PerThread(threading.local):
    """how nested delimited objects are written by the reference ENCODER when it produces test inputs.  Per thread: the
    harnesses of several types run concurrently, and a deserialization job switching the mode must not leak into a
    serialization job's expectation (that race produced a false alarm in C04, see DESIGN.md 9.3)"""

    def __init__(self):
        self.mode = "exact"
        self.rng = random.Random(7)


_TL = _PerThread()


class _ModeProxy:
    def __getitem__(self, i):
        return _TL.mode

    def __setitem__(self, i, v):
        _TL.mode = v


class _RngProxy:
    def __getattr__(self, name):
        return getattr(_TL.rng, name)


DELIM_MODE = _ModeProxy()
DELIM_RNG = _RngProxy()


class EncError(Exception):
    def __init__(self, code):
        self.code = code


def enc_prim(out: Bits, dt, v):
    if isinstance(dt, pydsdl.BooleanType):
        out.put(1 if v else 0, 1)
    elif isinstance(dt, pydsdl.IntegerType):
        n = dt.bit_length
        lo, hi = int(dt.inclusive_value_range.min), int(dt.inclusive_value_range.max)
        if dt.cast_mode == dt.CastMode.SATURATED:
            v = min(max(v, lo), hi)
        out.put(v & ((1 << n) - 1), n)
    elif isinstance(dt, pydsdl.FloatType):
        # v is the bit pattern of the C member (float for 16/32, double for 64); ("raw", wire pattern) from the Python leg
        if isinstance(v, tuple) and v[0] == "raw":
            out.put(v[1], dt.bit_length)
        elif dt.bit_length == 64:
            out.put(v, 64)
        elif dt.bit_length == 32:
            x = struct.unpack("<f", struct.pack("<I", v))[0]
            import math
            if dt.cast_mode == dt.CastMode.SATURATED and math.isfinite(x):
                pass  # a float member holds only float values: nothing to saturate
            out.put(v, 32)
        else:
            x = struct.unpack("<f", struct.pack("<I", v))[0]
            out.put(f16_bits(x, dt.cast_mode == dt.CastMode.SATURATED), 16)
    elif isinstance(dt, pydsdl.VoidType):
        out.put(0, dt.bit_length)
    else:
        raise TypeError(dt)


def enc(out: Bits, dt, v, top=False):
    if isinstance(dt, pydsdl.PrimitiveType) or isinstance(dt, pydsdl.VoidType):
        enc_prim(out, dt, v)
    elif isinstance(dt, pydsdl.FixedLengthArrayType):
        out.align(dt.alignment_requirement)
        for x in v:
            enc(out, dt.element_type, x)
    elif isinstance(dt, pydsdl.VariableLengthArrayType):
        out.align(dt.alignment_requirement)
        cnt = v["count"]
        if cnt > dt.capacity:
            raise EncError(ERR["len"])
        out.put(cnt, dt.length_field_type.bit_length)
        for x in v["elements"][:cnt]:
            enc(out, dt.element_type, x)
    elif isinstance(dt, pydsdl.CompositeType):
        out.align(dt.alignment_requirement)
        inner = Bits()
        enc_composite(inner, dt, v)
        if isinstance(dt, pydsdl.DelimitedType) and not top:
            payload = inner.bytes()
            mode = DELIM_MODE[0]
            if mode == "shorter" and payload:  # data from an older revision: fewer bytes than this revision defines
                payload = payload[:DELIM_RNG.randint(0, len(payload) - 1)]
            elif mode == "longer":  # data from a newer revision: surplus bytes the receiver must skip
                payload = payload + bytes(DELIM_RNG.getrandbits(8) for _ in range(DELIM_RNG.randint(1, 3)))
            elif mode == "overlong":  # a header beyond the nested type's extent: still only "surplus bytes to skip" per the specification
                payload = payload + bytes(DELIM_RNG.getrandbits(8) for _ in range(max(0, dt.extent // 8 - len(payload)) + DELIM_RNG.randint(1, 4)))
            out.put(len(payload), 32)
            for byte in payload:
                out.put(byte, 8)
        else:
            out.b += inner.b
    else:
        raise TypeError(dt)


def enc_composite(out: Bits, t, v):
    inner = t.inner_type
    if isinstance(inner, pydsdl.UnionType):
        k = v["_tag_"]
        if k >= len(inner.fields):
            raise EncError(ERR["tag"])
        out.put(k, inner.tag_field_type.bit_length)
        enc(out, inner.fields[k].data_type, v["v"])
    else:
        for f in inner.fields:
            if isinstance(f, pydsdl.PaddingField):
                out.align(f.data_type.alignment_requirement)
                out.put(0, f.data_type.bit_length)
            else:
                out.align(f.data_type.alignment_requirement)
                enc(out, f.data_type, v[f.name])
    out.align(8)


def serialize_ref(t, v, capacity: int):
    mb = max(t.inner_type.bit_length_set)
    if capacity * 8 < mb:
        return -ERR["small"], None
    out = Bits()
    try:
        enc_composite(out, t, v)
    except EncError as e:
        return -e.code, None
    return 0, out.bytes()


# decoding ------------------------------------------------------------------------------------------------------------
class Src:
    def __init__(self, data: bytes, limit_bits: int):
        self.d, self.lim = data, limit_bits

    def get(self, off: int, n: int) -> int:
        v = 0
        for i in range(n):
            p = off + i
            if p < self.lim and p // 8 < len(self.d):
                v |= ((self.d[p // 8] >> (p % 8)) & 1) << i
        return v


class DecError(Exception):
    def __init__(self, code):
        self.code = code


def sx(v, n):
    return v - (1 << n) if n and v >> (n - 1) else v


def dec(src: Src, off: int, dt):
    if isinstance(dt, pydsdl.BooleanType):
        return src.get(off, 1), off + 1
    if isinstance(dt, pydsdl.UnsignedIntegerType):
        return src.get(off, dt.bit_length), off + dt.bit_length
    if isinstance(dt, pydsdl.SignedIntegerType):
        return sx(src.get(off, dt.bit_length), dt.bit_length), off + dt.bit_length
    if isinstance(dt, pydsdl.FloatType):
        raw = src.get(off, dt.bit_length)
        if dt.bit_length == 16:
            x = struct.unpack("<e", struct.pack("<H", raw))[0]
            raw = struct.unpack("<I", struct.pack("<f", x))[0]
        return ("f", raw, dt.bit_length), off + dt.bit_length
    if isinstance(dt, pydsdl.VoidType):
        return None, off + dt.bit_length
    if isinstance(dt, pydsdl.FixedLengthArrayType):
        off += -off % dt.alignment_requirement
        out = []
        for _ in range(dt.capacity):
            x, off = dec(src, off, dt.element_type)
            out.append(x)
        return out, off
    if isinstance(dt, pydsdl.VariableLengthArrayType):
        off += -off % dt.alignment_requirement
        cnt = src.get(off, dt.length_field_type.bit_length)
        off += dt.length_field_type.bit_length
        if cnt > dt.capacity:
            raise DecError(ERR["len"])
        out = []
        for _ in range(cnt):
            x, off = dec(src, off, dt.element_type)
            out.append(x)
        return {"count": cnt, "elements": out}, off
    if isinstance(dt, pydsdl.CompositeType):
        off += -off % dt.alignment_requirement
        if isinstance(dt, pydsdl.DelimitedType):
            hdr = src.get(off, 32)
            off += 32
            remaining = max(0, (min(src.lim, len(src.d) * 8) - min(off, min(src.lim, len(src.d) * 8))) // 8)
            if hdr > remaining:
                raise DecError(ERR["delim"])
            sub = Src(src.d, min(src.lim, off + 8 * hdr))
            v, _ = dec_composite(sub, off, dt)
            return v, off + 8 * hdr
        return dec_composite(src, off, dt)
    raise TypeError(dt)


def dec_composite(src: Src, off: int, t):
    inner = t.inner_type
    if isinstance(inner, pydsdl.UnionType):
        k = src.get(off, inner.tag_field_type.bit_length)
        off += inner.tag_field_type.bit_length
        if k >= len(inner.fields):
            raise DecError(ERR["tag"])
        v, off = dec(src, off, inner.fields[k].data_type)
        out: typing.Any = {"_tag_": k, "v": v}
    else:
        out = {}
        for f in inner.fields:
            off += -off % f.data_type.alignment_requirement
            v, off = dec(src, off, f.data_type)
            if not isinstance(f, pydsdl.PaddingField):
                out[f.name] = v
    off += -off % 8
    return out, off


def deserialize_ref(t, data: bytes, size: int):
    src = Src(data[:size], size * 8)
    try:
        v, end = dec_composite(src, 0, t)
    except DecError as e:
        return -e.code, None, None
    return 0, v, min(end, size * 8) // 8


# ---------------------------------------------------------------------------------------------------------------------
# C side: member access paths, object construction and dumping
# ---------------------------------------------------------------------------------------------------------------------
def cid(lang, name: str) -> str:
    return lang.filter_id(name, "any")


def set_stmts(lang, dt, ref: str, v, out: typing.List[str]):
    if isinstance(dt, pydsdl.BooleanType):
        out.append(f"{ref} = {1 if v else 0};")
    elif isinstance(dt, pydsdl.IntegerType):
        out.append(f"{ref} = ({'int' if isinstance(dt, pydsdl.SignedIntegerType) else 'uint'}{8 if dt.bit_length <= 8 else 16 if dt.bit_length <= 16 else 32 if dt.bit_length <= 32 else 64}_t) {v}{'LL' if v < 0 else 'ULL'};")
    elif isinstance(dt, pydsdl.FloatType):
        if dt.bit_length == 64:
            out.append(f"{{ uint64_t b_ = {v}ULL; memcpy(&{ref}, &b_, 8); }}")
        else:
            out.append(f"{{ uint32_t b_ = {v}UL; memcpy(&{ref}, &b_, 4); }}")
    elif isinstance(dt, pydsdl.FixedLengthArrayType):
        if isinstance(dt.element_type, pydsdl.BooleanType):
            for i, x in enumerate(v):
                if x:
                    out.append(f"{ref}_bitpacked_[{i // 8}] |= (uint8_t)(1U << {i % 8});")
        else:
            for i, x in enumerate(v):
                set_stmts(lang, dt.element_type, f"{ref}[{i}]", x, out)
    elif isinstance(dt, pydsdl.VariableLengthArrayType):
        out.append(f"{ref}.count = {v['count']}U;")
        for i, x in enumerate(v["elements"][:dt.capacity]):
            if isinstance(dt.element_type, pydsdl.BooleanType):
                if x:
                    out.append(f"{ref}.bitpacked[{i // 8}] |= (uint8_t)(1U << {i % 8});")
            else:
                set_stmts(lang, dt.element_type, f"{ref}.elements[{i}]", x, out)
    elif isinstance(dt, pydsdl.CompositeType):
        set_composite(lang, dt, ref, v, out)


def set_composite(lang, t, ref: str, v, out):
    inner = t.inner_type
    if isinstance(inner, pydsdl.UnionType):
        out.append(f"{ref}._tag_ = {v['_tag_']}U;")
        if v["_tag_"] < len(inner.fields):
            f = inner.fields[v["_tag_"]]
            set_stmts(lang, f.data_type, f"{ref}.{cid(lang, f.name)}", v["v"], out)
    else:
        for f in inner.fields_except_padding:
            set_stmts(lang, f.data_type, f"{ref}.{cid(lang, f.name)}", v[f.name], out)


def dump_stmts(lang, dt, ref: str, v, out: typing.List[str]):
    """print the members that the reference value `v` says are observable, in the reference's own order"""
    if isinstance(dt, pydsdl.BooleanType):
        out.append(f'printf("%llu ", (unsigned long long)({ref} ? 1 : 0));')
    elif isinstance(dt, pydsdl.IntegerType):
        out.append(f'printf("%lld ", (long long){ref});' if isinstance(dt, pydsdl.SignedIntegerType) else f'printf("%llu ", (unsigned long long){ref});')
    elif isinstance(dt, pydsdl.FloatType):
        if dt.bit_length == 64:
            out.append(f'{{ uint64_t b_; memcpy(&b_, &{ref}, 8); printf("%llu ", (unsigned long long)b_); }}')
        else:
            out.append(f'{{ uint32_t b_; memcpy(&b_, &{ref}, 4); printf("%llu ", (unsigned long long)b_); }}')
    elif isinstance(dt, pydsdl.FixedLengthArrayType):
        for i in range(dt.capacity):
            if isinstance(dt.element_type, pydsdl.BooleanType):
                out.append(f'printf("%u ", (unsigned)(({ref}_bitpacked_[{i // 8}] >> {i % 8}) & 1U));')
            else:
                dump_stmts(lang, dt.element_type, f"{ref}[{i}]", v[i], out)
    elif isinstance(dt, pydsdl.VariableLengthArrayType):
        out.append(f'printf("%llu ", (unsigned long long){ref}.count);')
        for i in range(v["count"]):
            if isinstance(dt.element_type, pydsdl.BooleanType):
                out.append(f'printf("%u ", (unsigned)(({ref}.bitpacked[{i // 8}] >> {i % 8}) & 1U));')
            else:
                dump_stmts(lang, dt.element_type, f"{ref}.elements[{i}]", v["elements"][i], out)
    elif isinstance(dt, pydsdl.CompositeType):
        inner = dt.inner_type
        if isinstance(inner, pydsdl.UnionType):
            out.append(f'printf("%llu ", (unsigned long long){ref}._tag_);')
            f = inner.fields[v["_tag_"]]
            dump_stmts(lang, f.data_type, f"{ref}.{cid(lang, f.name)}", v["v"], out)
        else:
            for f in inner.fields_except_padding:
                dump_stmts(lang, f.data_type, f"{ref}.{cid(lang, f.name)}", v[f.name], out)


def flat(dt, v) -> typing.List[int]:
    if isinstance(dt, (pydsdl.BooleanType, pydsdl.IntegerType)):
        return [int(v)]
    if isinstance(dt, pydsdl.FloatType):
        return [("f64" if dt.bit_length == 64 else "f32", v[1])]
    if isinstance(dt, pydsdl.FixedLengthArrayType):
        return [y for x in v for y in flat(dt.element_type, x)]
    if isinstance(dt, pydsdl.VariableLengthArrayType):
        return [v["count"]] + [y for x in v["elements"] for y in flat(dt.element_type, x)]
    if isinstance(dt, pydsdl.CompositeType):
        inner = dt.inner_type
        if isinstance(inner, pydsdl.UnionType):
            return [v["_tag_"]] + flat(inner.fields[v["_tag_"]].data_type, v["v"])
        return [y for f in inner.fields_except_padding for y in flat(f.data_type, v[f.name])]
    raise TypeError(dt)


# ---------------------------------------------------------------------------------------------------------------------
# input generation
# ---------------------------------------------------------------------------------------------------------------------
def gen_value(rng: random.Random, dt, mode: str):
    if isinstance(dt, pydsdl.BooleanType):
        return {"zero": 0, "ones": 1}.get(mode, rng.randint(0, 1))
    if isinstance(dt, pydsdl.IntegerType):
        std = 8 if dt.bit_length <= 8 else 16 if dt.bit_length <= 16 else 32 if dt.bit_length <= 32 else 64
        lo, hi = (-(1 << (std - 1)), (1 << (std - 1)) - 1) if isinstance(dt, pydsdl.SignedIntegerType) else (0, (1 << std) - 1)
        tlo, thi = int(dt.inclusive_value_range.min), int(dt.inclusive_value_range.max)
        if mode == "zero":
            return 0
        if mode == "ones":
            return -1 if lo < 0 else hi
        return rng.choice([lo, hi, tlo, thi, tlo - 1 if tlo - 1 >= lo else tlo, thi + 1 if thi + 1 <= hi else thi, 0, 1, rng.randint(lo, hi), rng.randint(tlo, thi)])
    if isinstance(dt, pydsdl.FloatType):
        if mode == "zero":
            return 0
        pool32 = [0x00000000, 0x80000000, 0x3F800000, 0x7F800000, 0xFF800000, 0x7FC00000, 0x477FE000, 0x477FF000, 0x47800000, 0xC7800000, 0x33800000, 0x00000001, 0x7F7FFFFF, 0x3EAAAAAB]
        if dt.bit_length == 64:
            return rng.choice([0, 1 << 63, 0x3FF0000000000000, 0x7FF0000000000000, 0x7FF8000000000000, 0x7FEFFFFFFFFFFFFF, 1, rng.getrandbits(64)])
        return rng.choice(pool32 + [rng.getrandbits(32)])
    if isinstance(dt, pydsdl.FixedLengthArrayType):
        return [gen_value(rng, dt.element_type, mode) for _ in range(dt.capacity)]
    if isinstance(dt, pydsdl.VariableLengthArrayType):
        cnt = {"zero": 0, "ones": dt.capacity}.get(mode)
        if cnt is None:
            cnt = rng.choice([0, 1, dt.capacity, dt.capacity, rng.randint(0, dt.capacity), dt.capacity + 1, min(dt.capacity + 7, (1 << dt.length_field_type.bit_length) - 1)])
        return {"count": cnt, "elements": [gen_value(rng, dt.element_type, mode) for _ in range(dt.capacity)]}
    if isinstance(dt, pydsdl.CompositeType):
        return gen_composite(rng, dt, mode)
    raise TypeError(dt)


def gen_composite(rng, t, mode):
    inner = t.inner_type
    if isinstance(inner, pydsdl.UnionType):
        k = 0 if mode == "zero" else (len(inner.fields) - 1 if mode == "ones" else rng.choice(list(range(len(inner.fields))) + [len(inner.fields), 255]))
        return {"_tag_": k, "v": gen_value(rng, inner.fields[k].data_type, mode) if k < len(inner.fields) else None}
    return {f.name: gen_value(rng, f.data_type, mode) for f in inner.fields_except_padding}


# ---------------------------------------------------------------------------------------------------------------------
def _build_and_run(workdir: pathlib.Path, header: str, body: str, tag: str, defines=()) -> typing.Tuple[int, str, str]:
    src = workdir / f"ppref_{tag}.c"
    exe = workdir / f"ppref_{tag}"
    src.write_text('#include <assert.h>\n#define NUNAVUT_ASSERT(x) assert(x)\n#include "%s"\n#include <stdio.h>\n#include <stdlib.h>\n#include <string.h>\n%s' % (header, body))
    c = subprocess.run(["clang", "-std=c11", "-g", "-O0", "-fsanitize=address,undefined", "-fno-sanitize-recover=all", *defines, "-I", str(workdir), str(src), "-o", str(exe)], capture_output=True, text=True)
    if c.returncode != 0:
        return -1, "", c.stderr[:1500]
    r = subprocess.run([str(exe)], capture_output=True, text=True, timeout=120)
    return r.returncode, r.stdout, r.stderr[:3000]


def witness(function: str, type_name: str, workdir, model, by: typing.Optional[dict] = None, n_cases: int = 60):
    """bounded native search for an input on which the real generated routine disagrees with the reference codec"""
    from vk import render
    if workdir is None or by is None or type_name not in by:
        return None
    workdir = pathlib.Path(workdir)
    t = by[type_name]
    lang = render.language_context("c").get_target_language()
    if getattr(t, "has_parent_service", False):  # <service>.Request / .Response live in the service's header
        parts = t.full_namespace.split(".")
        header = "/".join(parts[:-1] + [f"{parts[-1]}_{t.version.major}_{t.version.minor}.h"])
    else:
        header = "/".join(t.full_name.split(".")[:-1] + [f"{t.short_name}_{t.version.major}_{t.version.minor}.h"])
    cn = cname(t)
    rng = random.Random(20260926)
    mbytes = (max(t.inner_type.bit_length_set) + 7) // 8
    is_ser = "_serialize_" in function and "_deserialize_" not in function
    if is_ser:
        cases = []
        for i in range(n_cases):
            v = gen_composite(rng, t, "zero" if i == 0 else "ones" if i == 1 else "rand")
            cap = rng.choice([mbytes, mbytes, mbytes, mbytes + 3, max(0, mbytes - 1), 0]) if i > 2 else mbytes
            cases.append((v, cap))
        body = [f"static int run(int k) {{ {cn} obj; memset(&obj, 0, sizeof obj); uint8_t* buf = NULL; size_t sz = 0; switch (k) {{"]
        for k, (v, cap) in enumerate(cases):
            st: typing.List[str] = []
            set_composite(lang, t, "obj", v, st)
            body.append(f"case {k}: {{ {' '.join(st)} sz = {cap}; buf = malloc(sz ? sz : 1); memset(buf, 0xA5, sz ? sz : 1); break; }}")
        body.append(f"default: return 1; }} size_t cap = sz; int8_t rc = {cn}_serialize_(&obj, buf, &sz); printf(\"%d %d %zu \", k, (int)rc, rc == 0 ? sz : (size_t)0);"
                    " if (rc == 0) { for (size_t i = 0; i < cap; i++) printf(\"%02x\", buf[i]); } printf(\"\\n\"); free(buf); return 0; }")
        body.append(f"int main(void) {{ for (int k = 0; k < {len(cases)}; k++) {{ run(k); fflush(stdout); }} return 0; }}")
        rc, out, err = _build_and_run(workdir, header, "\n".join(body), cn + "_ser")
        if rc == -1:
            return {"harness_error": err}
        lines = {int(l.split()[0]): l.split() for l in out.splitlines() if l.strip()}
        for k, (v, cap) in enumerate(cases):
            erc, eb = serialize_ref(t, v, cap)
            if k not in lines:
                return {"input": {"object": v, "capacity_bytes": cap}, "why": f"the generated serializer aborts / is stopped by the sanitizers: {err[:600]}", "evaluations": k + 1}
            grc, gsz = int(lines[k][1]), int(lines[k][2])
            ghex = lines[k][3] if len(lines[k]) > 3 else ""
            if grc != erc:
                return {"input": {"object": v, "capacity_bytes": cap}, "why": f"returns {grc}, the specification gives {erc}", "evaluations": k + 1}
            if erc == 0:
                want = eb.hex() + "a5" * (cap - len(eb))
                if gsz != len(eb) or ghex != want:
                    return {"input": {"object": v, "capacity_bytes": cap}, "why": f"size {gsz} bytes {ghex}; the specification gives size {len(eb)} bytes {want} (0xA5 = untouched)", "evaluations": k + 1}
        return None
    # deserialization
    inputs: typing.List[typing.Tuple[bytes, int]] = []
    for i in range(n_cases):
        v = gen_composite(rng, t, "zero" if i == 0 else "ones" if i == 1 else "rand")
        DELIM_MODE[0] = ("exact", "exact", "shorter", "longer")[i % 4] if i > 1 else "exact"
        erc, eb = serialize_ref(t, v, mbytes + 8)
        DELIM_MODE[0] = "exact"
        data = eb if erc == 0 else bytes(rng.getrandbits(8) for _ in range(mbytes))
        kind = (i // 4) % 4
        if kind == 1 and data:
            data = data[:rng.randint(0, len(data))]
        elif kind == 2:
            data = bytes(b ^ (1 << rng.randint(0, 7)) if rng.random() < 0.2 else b for b in data) + bytes(rng.getrandbits(8) for _ in range(rng.randint(0, 3)))
        elif kind == 3:
            data = bytes(rng.getrandbits(8) for _ in range(rng.randint(0, mbytes + 2)))
        inputs.append((data, len(data)))
    body = [f"static int run(int k) {{ {cn}* obj = malloc(sizeof({cn})); memset(obj, 0x5A, sizeof({cn})); uint8_t* buf = NULL; size_t sz = 0; switch (k) {{"]
    exp = []
    for k, (data, size) in enumerate(inputs):
        erc, ev, esz = deserialize_ref(t, data, size)
        exp.append((erc, ev, esz))
        arr = ", ".join(str(b) for b in data) or "0"
        dump: typing.List[str] = []
        if erc == 0:
            dump_stmts(lang, t, "(*obj)", ev, dump)
        body.append(f"case {k}: {{ static const uint8_t d_[] = {{ {arr} }}; sz = {size}; buf = malloc(sz ? sz : 1); memcpy(buf, d_, sz); int8_t rc = {cn}_deserialize_(obj, buf, &sz); "
                    f"printf(\"%d %d %zu \", k, (int)rc, rc == 0 ? sz : (size_t)0); if (rc == 0) {{ {' '.join(dump)} }} printf(\"\\n\"); break; }}")
    body.append("default: break; } free(buf); free(obj); return 0; }")
    body.append(f"int main(void) {{ for (int k = 0; k < {len(inputs)}; k++) {{ run(k); fflush(stdout); }} return 0; }}")
    rc, out, err = _build_and_run(workdir, header, "\n".join(body), cn + "_des")
    if rc == -1:
        return {"harness_error": err}
    lines = {int(l.split()[0]): l.split() for l in out.splitlines() if l.strip()}
    for k, (data, size) in enumerate(inputs):
        erc, ev, esz = exp[k]
        if k not in lines:
            return {"input": {"bytes": data.hex(), "size": size}, "why": f"the generated deserializer aborts / is stopped by the sanitizers: {err[:600]}", "evaluations": k + 1}
        grc = int(lines[k][1])
        if grc != erc:
            return {"input": {"bytes": data.hex(), "size": size}, "why": f"returns {grc}, the specification gives {erc}", "evaluations": k + 1}
        if erc == 0:
            got = [int(x) for x in lines[k][3:]]
            want_k = flat(t, ev)

            def norm(kind, x):  # every NaN pattern is one value (payload propagation is not specified)
                if kind == "f32" and (x & 0x7F800000) == 0x7F800000 and (x & 0x007FFFFF):
                    return 0x7FC00000
                if kind == "f64" and (x & 0x7FF0000000000000) == 0x7FF0000000000000 and (x & 0x000FFFFFFFFFFFFF):
                    return 0x7FF8000000000000
                return x

            want = [norm(*w) if isinstance(w, tuple) else w for w in want_k]
            if len(got) == len(want_k):
                got = [norm(w[0], g) if isinstance(w, tuple) else g for w, g in zip(want_k, got)]
            if int(lines[k][2]) != esz or got != want:
                return {"input": {"bytes": data.hex(), "size": size}, "why": f"consumed {lines[k][2]} fields {got}; the specification gives consumed {esz} fields {want}", "evaluations": k + 1}
    return None


# ---------------------------------------------------------------------------------------------------------------------
# C++ leg (bounded stand-in only: the generated C++ is not under contract)
# ---------------------------------------------------------------------------------------------------------------------
def cpp_type(t) -> str:
    parts = t.full_name.split(".")
    return "::".join(parts[:-1] + [f"{parts[-1]}_{t.version.major}_{t.version.minor}"])


def cpp_prim(dt) -> str:
    if isinstance(dt, pydsdl.BooleanType):
        return "bool"
    if isinstance(dt, pydsdl.IntegerType):
        n = 8 if dt.bit_length <= 8 else 16 if dt.bit_length <= 16 else 32 if dt.bit_length <= 32 else 64
        return f"std::{'int' if isinstance(dt, pydsdl.SignedIntegerType) else 'uint'}{n}_t"
    if isinstance(dt, pydsdl.FloatType):
        return "double" if dt.bit_length == 64 else "float"
    raise TypeError(dt)


def cpp_lit(dt, v) -> str:
    if isinstance(dt, pydsdl.BooleanType):
        return "true" if v else "false"
    if isinstance(dt, pydsdl.IntegerType):
        if v == -(1 << 63):
            return f"static_cast<{cpp_prim(dt)}>(-9223372036854775807LL - 1)"
        return f"static_cast<{cpp_prim(dt)}>({v}{'LL' if v < 0 else 'ULL'})"
    if isinstance(dt, pydsdl.FloatType):
        return f"bits_to<{cpp_prim(dt)}>({v}ULL)"
    raise TypeError(dt)


def cpp_set(lang, dt, ref: str, v, out: typing.List[str], depth=0):
    if isinstance(dt, pydsdl.PrimitiveType):
        out.append(f"{ref} = {cpp_lit(dt, v)};")
    elif isinstance(dt, pydsdl.FixedLengthArrayType):
        for i, x in enumerate(v):
            if isinstance(dt.element_type, pydsdl.PrimitiveType):
                out.append(f"{ref}[{i}] = {cpp_lit(dt.element_type, x)};")
            else:
                cpp_set(lang, dt.element_type, f"{ref}[{i}]", x, out, depth + 1)
    elif isinstance(dt, pydsdl.VariableLengthArrayType):
        out.append(f"{ref}.clear();")
        els = v["elements"]
        for i in range(v["count"]):
            x = els[i] if i < len(els) else els[-1] if els else gen_value(random.Random(i), dt.element_type, "zero")
            if isinstance(dt.element_type, pydsdl.PrimitiveType):
                out.append(f"{ref}.push_back({cpp_lit(dt.element_type, x)});")
            else:
                out.append(f"{ref}.emplace_back();")
                cpp_set(lang, dt.element_type, f"{ref}.back()", x, out, depth + 1)
    elif isinstance(dt, pydsdl.CompositeType):
        cpp_set_composite(lang, dt, ref, v, out, depth + 1)


def cpp_set_composite(lang, t, ref: str, v, out, depth=0):
    inner = t.inner_type
    if isinstance(inner, pydsdl.UnionType):
        f = inner.fields[v["_tag_"]]
        nm = cid(lang, f.name)
        if isinstance(f.data_type, pydsdl.PrimitiveType):
            out.append(f"{ref}.set_{nm}({cpp_lit(f.data_type, v['v'])});")
        else:
            out.append(f"{{ auto& u{depth}_ = {ref}.set_{nm}();")
            cpp_set(lang, f.data_type, f"u{depth}_", v["v"], out, depth + 1)
            out.append("}")
    else:
        for f in inner.fields_except_padding:
            cpp_set(lang, f.data_type, f"{ref}.{cid(lang, f.name)}", v[f.name], out, depth)


def cpp_dump(lang, dt, ref: str, v, out: typing.List[str], depth=0):
    if isinstance(dt, pydsdl.BooleanType):
        out.append(f'std::printf("%d ", ({ref}) ? 1 : 0);')
    elif isinstance(dt, pydsdl.IntegerType):
        out.append(f'std::printf("%lld ", static_cast<long long>({ref}));' if isinstance(dt, pydsdl.SignedIntegerType) else f'std::printf("%llu ", static_cast<unsigned long long>({ref}));')
    elif isinstance(dt, pydsdl.FloatType):
        out.append(f'std::printf("%llu ", to_bits({ref}));')
    elif isinstance(dt, pydsdl.FixedLengthArrayType):
        for i in range(dt.capacity):
            cpp_dump(lang, dt.element_type, f"{ref}[{i}]", v[i], out, depth + 1)
    elif isinstance(dt, pydsdl.VariableLengthArrayType):
        out.append(f'std::printf("%llu ", static_cast<unsigned long long>({ref}.size()));')
        out.append(f"if ({ref}.size() == {v['count']}U) {{")
        for i in range(v["count"]):
            cpp_dump(lang, dt.element_type, f"{ref}[{i}]", v["elements"][i], out, depth + 1)
        out.append("}")
    elif isinstance(dt, pydsdl.CompositeType):
        inner = dt.inner_type
        if isinstance(inner, pydsdl.UnionType):
            f = inner.fields[v["_tag_"]]
            out.append(f'std::printf("%llu ", static_cast<unsigned long long>({ref}.union_value.index()));')
            out.append(f"if ({ref}.get_{cid(lang, f.name)}_if() != nullptr) {{")
            cpp_dump(lang, f.data_type, f"(*{ref}.get_{cid(lang, f.name)}_if())", v["v"], out, depth + 1)
            out.append("}")
        else:
            for f in inner.fields_except_padding:
                cpp_dump(lang, f.data_type, f"{ref}.{cid(lang, f.name)}", v[f.name], out, depth)


def _valid_tags(dt, v) -> bool:
    if isinstance(dt, pydsdl.CompositeType):
        inner = dt.inner_type
        if isinstance(inner, pydsdl.UnionType):
            return v["_tag_"] < len(inner.fields) and _valid_tags(inner.fields[v["_tag_"]].data_type, v["v"])
        return all(_valid_tags(f.data_type, v[f.name]) for f in inner.fields_except_padding)
    if isinstance(dt, pydsdl.FixedLengthArrayType):
        return all(_valid_tags(dt.element_type, x) for x in v)
    if isinstance(dt, pydsdl.VariableLengthArrayType):
        return all(_valid_tags(dt.element_type, x) for x in v["elements"])
    return True


CPP_PRELUDE = r"""
#include <cstdio>
#include <cstdlib>
#include <cstring>
#include <cstdint>
template <typename F> static F bits_to(unsigned long long b) { F f; if (sizeof(F) == 4) { std::uint32_t x = static_cast<std::uint32_t>(b); std::memcpy(&f, &x, 4); } else { std::uint64_t x = b; std::memcpy(&f, &x, 8); } return f; }
static unsigned long long to_bits(float f) { std::uint32_t x; std::memcpy(&x, &f, 4); return x; }
static unsigned long long to_bits(double f) { std::uint64_t x; std::memcpy(&x, &f, 8); return x; }
"""


def witness_cpp(t, workdir: pathlib.Path, std: str, direction: str, n_cases: int = 60):
    """the generated C++ (de)serializer of t against the reference codec on a bounded input set (ASan/UBSan build)"""
    from vk import render
    lang = render.language_context("cpp", {"std": std}).get_target_language()
    if getattr(t, "has_parent_service", False):
        parts = t.full_namespace.split(".")
        header = "/".join(parts[:-1] + [f"{parts[-1]}_{t.version.major}_{t.version.minor}.hpp"])
        ctype = "::".join(parts + [f"{t.short_name}_{t.version.major}_{t.version.minor}"])
    else:
        header = "/".join(t.full_name.split(".")[:-1] + [f"{t.short_name}_{t.version.major}_{t.version.minor}.hpp"])
        ctype = cpp_type(t)
    rng = random.Random(20260927)
    mbytes = (max(t.inner_type.bit_length_set) + 7) // 8
    tag = cname(t) + "_" + direction
    body: typing.List[str] = []
    if direction == "ser":
        cases = []
        while len(cases) < n_cases:
            i = len(cases)
            v = gen_composite(rng, t, "zero" if i == 0 else "ones" if i == 1 else "rand")
            if not _valid_tags(t, v):
                continue  # an invalid tag cannot be constructed through the C++ API
            cap = rng.choice([mbytes, mbytes, mbytes, mbytes + 3, max(0, mbytes - 1), 0]) if i > 2 else mbytes
            cases.append((v, cap))
        body.append(f"static void run(int k) {{ {ctype} obj{{}}; std::size_t cap = 0; switch (k) {{")
        for k, (v, cap) in enumerate(cases):
            st: typing.List[str] = []
            cpp_set_composite(lang, t, "obj", v, st)
            body.append(f"case {k}: {{ {' '.join(st)} cap = {cap}; break; }}")
        body.append("default: return; } std::uint8_t* buf = static_cast<std::uint8_t*>(std::malloc(cap ? cap : 1)); std::memset(buf, 0xA5, cap ? cap : 1);"
                    " auto r = serialize(obj, nunavut::support::bitspan{buf, cap});"
                    ' std::printf("%d %d %zu ", k, r ? 0 : -static_cast<int>(r.error()), r ? r.value() : static_cast<std::size_t>(0));'
                    ' if (r) { for (std::size_t i = 0; i < cap; i++) std::printf("%02x", buf[i]); } std::printf("\\n"); std::free(buf); }')
        body.append(f"int main() {{ for (int k = 0; k < {len(cases)}; k++) {{ run(k); std::fflush(stdout); }} return 0; }}")
    else:
        inputs: typing.List[typing.Tuple[bytes, int]] = []
        exp = []
        for i in range(n_cases):
            v = gen_composite(rng, t, "zero" if i == 0 else "ones" if i == 1 else "rand")
            DELIM_MODE[0] = ("exact", "exact", "shorter", "longer", "overlong")[i % 5] if i > 1 else "exact"
            erc, eb = serialize_ref(t, v, mbytes + 64)
            DELIM_MODE[0] = "exact"
            data = eb if erc == 0 else bytes(rng.getrandbits(8) for _ in range(mbytes))
            kind = (i // 4) % 4
            if kind == 1 and data:
                data = data[:rng.randint(0, len(data))]
            elif kind == 2:
                data = bytes(b ^ (1 << rng.randint(0, 7)) if rng.random() < 0.2 else b for b in data) + bytes(rng.getrandbits(8) for _ in range(rng.randint(0, 3)))
            elif kind == 3:
                data = bytes(rng.getrandbits(8) for _ in range(rng.randint(0, mbytes + 2)))
            inputs.append((data, len(data)))
        # prior state: the destination first receives a decode of an all-ones message (the outcome must not depend on it)
        # ... of a VALID message whose arrays are at capacity (an all-ones byte string is rejected by most types and would
        # leave the destination untouched)
        pv = gen_composite(random.Random(5), t, "ones")
        while not _valid_tags(t, pv):
            pv = gen_composite(random.Random(6), t, "rand")
        prc, pbytes = serialize_ref(t, pv, mbytes + 64)
        ones = ", ".join(str(b) for b in (pbytes if prc == 0 and pbytes else b"\xff" * (mbytes + 2)))
        body.append(f"static void run(int k) {{ {ctype} obj{{}}; {{ static const std::uint8_t o_[] = {{ {ones} }}; (void) deserialize(obj, nunavut::support::const_bitspan{{o_, sizeof(o_)}}); }} switch (k) {{")
        for k, (data, size) in enumerate(inputs):
            erc, ev, esz = deserialize_ref(t, data, size)
            exp.append((erc, ev, esz))
            arr = ", ".join(str(b) for b in data) or "0"
            dump: typing.List[str] = []
            if erc == 0:
                cpp_dump(lang, t, "obj", ev, dump)
            body.append(f"case {k}: {{ static const std::uint8_t d_[] = {{ {arr} }}; std::uint8_t* buf = static_cast<std::uint8_t*>(std::malloc({size} ? {size} : 1)); std::memcpy(buf, d_, {size});"
                        f" auto r = deserialize(obj, nunavut::support::const_bitspan{{buf, {size}U}});"
                        ' std::printf("%d %d %zu ", k, r ? 0 : -static_cast<int>(r.error()), r ? r.value() : static_cast<std::size_t>(0));'
                        f" if (r) {{ {' '.join(dump)} }} std::printf(\"\\n\"); std::free(buf); break; }}")
        body.append("default: break; } }")
        body.append(f"int main() {{ for (int k = 0; k < {len(inputs)}; k++) {{ run(k); std::fflush(stdout); }} return 0; }}")
    src = workdir / f"ppref_{tag}.cpp"
    exe = workdir / f"ppref_{tag}"
    src.write_text('#include <cassert>\n#define NUNAVUT_ASSERT(x) assert(x)\n#include "%s"\n%s\n%s' % (header, CPP_PRELUDE, "\n".join(body)))
    c = subprocess.run(["clang++", f"-std={std.replace('-pmr', '')}", "-g", "-O0", "-fsanitize=address,undefined", "-fno-sanitize-recover=all", "-I", str(workdir), str(src), "-o", str(exe)], capture_output=True, text=True)
    if c.returncode != 0:
        return {"harness_error": c.stderr[:1500]}, 0
    r = subprocess.run([str(exe)], capture_output=True, text=True, timeout=180)
    lines = {int(l.split()[0]): l.split() for l in r.stdout.splitlines() if l.strip()}
    n_expected = len(cases) if direction == "ser" else len(inputs)
    if r.returncode != 0 and len(lines) == n_expected and ("LeakSanitizer" in r.stderr or "AddressSanitizer" in r.stderr or "runtime error" in r.stderr):
        # every case printed its result, and the sanitizers still object at exit: a leak (or a late report)
        return {"input": {"all_cases": n_expected}, "why": f"the generated C++ {'serializer' if direction == 'ser' else 'deserializer'} passes every case but the sanitizers report at exit: {r.stderr[:700]}",
                "evaluations": n_expected}, n_expected
    if direction == "ser":
        for k, (v, cap) in enumerate(cases):
            erc, eb = serialize_ref(t, v, cap)
            if k not in lines:
                return {"input": {"object": v, "capacity_bytes": cap}, "why": f"the generated C++ serializer aborts / is stopped by the sanitizers: {r.stderr[:600]}", "evaluations": k + 1}, k + 1
            grc, gsz = int(lines[k][1]), int(lines[k][2])
            ghex = lines[k][3] if len(lines[k]) > 3 else ""
            if grc != erc:
                return {"input": {"object": v, "capacity_bytes": cap}, "why": f"C++ returns {grc}, the specification gives {erc}", "evaluations": k + 1}, k + 1
            if erc == 0:
                want = eb.hex() + "a5" * (cap - len(eb))
                if gsz != len(eb) or ghex != want:
                    return {"input": {"object": v, "capacity_bytes": cap}, "why": f"C++ size {gsz} bytes {ghex}; the specification gives size {len(eb)} bytes {want} (0xA5 = untouched)", "evaluations": k + 1}, k + 1
        return None, len(cases)
    for k, (data, size) in enumerate(inputs):
        erc, ev, esz = exp[k]
        if k not in lines:
            return {"input": {"bytes": data.hex(), "size": size}, "why": f"the generated C++ deserializer aborts / is stopped by the sanitizers: {r.stderr[:600]}", "evaluations": k + 1}, k + 1
        grc = int(lines[k][1])
        if grc != erc:
            return {"input": {"bytes": data.hex(), "size": size}, "why": f"C++ returns {grc}, the specification gives {erc}", "evaluations": k + 1}, k + 1
        if erc == 0:
            got = [int(x) for x in lines[k][3:]]
            want_k = flat(t, ev)

            def norm(kind, x):
                if kind == "f32" and (x & 0x7F800000) == 0x7F800000 and (x & 0x007FFFFF):
                    return 0x7FC00000
                if kind == "f64" and (x & 0x7FF0000000000000) == 0x7FF0000000000000 and (x & 0x000FFFFFFFFFFFFF):
                    return 0x7FF8000000000000
                return x

            want = [norm(*w) if isinstance(w, tuple) else w for w in want_k]
            if len(got) == len(want_k):
                got = [norm(w[0], g) if isinstance(w, tuple) else g for w, g in zip(want_k, got)]
            if int(lines[k][2]) != esz or got != want:
                return {"input": {"bytes": data.hex(), "size": size}, "why": f"C++ consumed {lines[k][2]} fields {got}; the specification gives consumed {esz} fields {want}", "evaluations": k + 1}, k + 1
    return None, len(inputs)

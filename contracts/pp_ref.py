"""Native replay of per-program counterexamples on the real generated C (placeholder: not built yet -- failed
obligations are reported with the solver model and the words no-failing-input-found)."""


def witness(function, type_name, workdir, model):
    return None

"""Python target, native leg (bounded, never counted as proved): the REAL generated Python codecs and data objects of the
tree under test, executed in the overlay interpreter (/verif/.venv = /venv's Python 3.12 + NumPy from the offline
wheelhouse, built by tools/ensure_venv.sh), against the independent reference codec of contracts/pp_ref.py.

What differs from the C/C++ legs (taken from the generated code's own data-object contract, C18):
  * scalar integer fields only ever hold values of the DSDL type (setters reject the rest); array elements hold any value of
    the NumPy element type (int9[3] is an int16 array), so saturation/truncation is exercised through arrays;
  * scalar float fields hold Python floats (doubles): float16/float32 fields accept any double within the type's finite
    range plus inf/nan -> the reference rounds the double once (struct 'e'/'f' of CPython: round-to-nearest-even);
  * serialization cannot fail (invalid objects cannot be constructed); deserialization returns None for an invalid input.
"""
import json
import math
import pathlib
import random
import struct
import subprocess
import typing

import pydsdl

from contracts import pp_ref

VENV_PY = "/verif/.venv/bin/python"
RUNNER = str(pathlib.Path(__file__).resolve().parent / "py_runner.py")
FLT_MAX = 340282346638528859811704183484516925440.0


def ensure_venv() -> None:
    subprocess.run([str(pathlib.Path(__file__).resolve().parent.parent / "tools" / "ensure_venv.sh")], check=True, capture_output=True)


# ---------------------------------------------------------------------------------------------------------------------
# names
# ---------------------------------------------------------------------------------------------------------------------
def py_lang():
    from vk import render
    return render.language_context("py").get_target_language()


def attr(lang, name: str) -> str:
    return lang.filter_id(name, "any")


def mod_cls(lang, t) -> typing.Tuple[str, str]:
    """(module, class path) of the generated class, through the target language's own naming functions"""
    if getattr(t, "has_parent_service", False):
        parts = t.full_namespace.split(".")  # ns..., Svc
        base = attr(lang, f"{parts[-1]}_{t.version.major}_{t.version.minor}")  # = filter_short_reference_name of the service
        return ".".join([attr(lang, p) for p in parts[:-1]] + [base]), f"{base}.{t.short_name}"
    cls = lang.filter_short_reference_name(t)
    return ".".join([attr(lang, p) for p in t.full_namespace.split(".")] + [cls]), cls


def mangled_fields(lang, t, _seen=None) -> typing.List[str]:
    """fields (transitively) whose generated attribute name is subject to Python's private-name mangling inside a class
    body (two leading underscores, not two trailing): such an attribute is not reachable under its generated name"""
    out = []
    for f in t.inner_type.fields_except_padding:
        a = attr(lang, f.name)
        if a.startswith("__") and not a.endswith("__"):
            out.append(f"{t}.{f.name}")
        dt = f.data_type
        while isinstance(dt, pydsdl.ArrayType):
            dt = dt.element_type
        if isinstance(dt, pydsdl.CompositeType):
            out += mangled_fields(lang, dt)
    return out


def np_dtype(dt) -> str:
    if isinstance(dt, pydsdl.BooleanType):
        return "bool"
    w = 8 if dt.bit_length <= 8 else 16 if dt.bit_length <= 16 else 32 if dt.bit_length <= 32 else 64
    if isinstance(dt, pydsdl.SignedIntegerType):
        return f"int{w}"
    if isinstance(dt, pydsdl.UnsignedIntegerType):
        return f"uint{w}"
    return f"float{w}"


# ---------------------------------------------------------------------------------------------------------------------
# values: the reference's value trees (contracts/pp_ref.py) with Python's float leaves ("d", <pattern of the double>) for
# scalars and ("e", <pattern of the element type>) for array elements
# ---------------------------------------------------------------------------------------------------------------------
def _dbits(x: float) -> int:
    return struct.unpack("<Q", struct.pack("<d", x))[0]


def _f32_to_d(bits: int) -> float:
    return struct.unpack("<f", struct.pack("<I", bits))[0]


def _f16_to_d(bits: int) -> float:
    return struct.unpack("<e", struct.pack("<H", bits))[0]


SCALAR16 = [0.0, -0.0, 1.0, -1.0, 65504.0, -65504.0, 65503.99, 1e-8, 5.9604644775390625e-08, 2.98e-8, 0.1, 1.0 / 3.0, 2049.0, 2051.0, 1.00048828125, 1.000732421875,
            float("inf"), float("-inf"), float("nan"), 6.1e-5, 33.3]
SCALAR32 = [0.0, -0.0, 1.0, FLT_MAX, -FLT_MAX, 0.1, 1.0 + 2.0 ** -24, 1.0 + 2.0 ** -23 + 2.0 ** -24, 1e-50, 1.4e-45, 7e-46, 16777217.0, float("inf"), float("-inf"), float("nan"), 3.0e38, -1.17549435e-38]


def gen_value(rng: random.Random, dt, mode: str, in_array: bool = False):
    if isinstance(dt, pydsdl.BooleanType):
        return {"zero": 0, "ones": 1}.get(mode, rng.randint(0, 1))
    if isinstance(dt, pydsdl.IntegerType):
        tlo, thi = int(dt.inclusive_value_range.min), int(dt.inclusive_value_range.max)
        if in_array:  # any value of the NumPy element type
            std = 8 if dt.bit_length <= 8 else 16 if dt.bit_length <= 16 else 32 if dt.bit_length <= 32 else 64
            lo, hi = (-(1 << (std - 1)), (1 << (std - 1)) - 1) if isinstance(dt, pydsdl.SignedIntegerType) else (0, (1 << std) - 1)
        else:
            lo, hi = tlo, thi
        if mode == "zero":
            return 0
        if mode == "ones":
            return -1 if lo < 0 else hi
        return rng.choice([lo, hi, tlo, thi, max(lo, tlo - 1), min(hi, thi + 1), 0, 1, rng.randint(lo, hi), rng.randint(tlo, thi)])
    if isinstance(dt, pydsdl.FloatType):
        if in_array:
            if mode == "zero":
                return ("e", 0)
            if dt.bit_length == 64:
                return ("e", rng.choice([0, 1 << 63, 0x3FF0000000000000, 0x7FF0000000000000, 0x7FF8000000000000, 0x7FEFFFFFFFFFFFFF, 1, rng.getrandbits(64)]))
            if dt.bit_length == 32:
                return ("e", rng.choice([0, 0x80000000, 0x3F800000, 0x7F800000, 0xFF800000, 0x7FC00000, 0x00000001, 0x7F7FFFFF, 0x3EAAAAAB, rng.getrandbits(32)]))
            return ("e", rng.choice([0, 0x8000, 0x3C00, 0x7C00, 0xFC00, 0x7E00, 0x0001, 0x7BFF, 0x3555, rng.getrandbits(16)]))
        if mode == "zero":
            return ("d", 0)
        if dt.bit_length == 64:
            return ("d", rng.choice([0, 1 << 63, 0x3FF0000000000000, 0x7FF0000000000000, 0x7FF8000000000000, 0x7FEFFFFFFFFFFFFF, 1, rng.getrandbits(64)]))
        if dt.bit_length == 32:
            x = rng.choice(SCALAR32 + [_f32_to_d(rng.getrandbits(32)), rng.uniform(-1e6, 1e6), rng.uniform(-1, 1) * 10.0 ** rng.randint(-44, 38)])
            if math.isfinite(x) and abs(x) > FLT_MAX:
                x = math.copysign(FLT_MAX, x)
            return ("d", _dbits(x))
        x = rng.choice(SCALAR16 + [_f16_to_d(rng.getrandbits(16)), rng.uniform(-65504, 65504), rng.uniform(-1, 1) * 10.0 ** rng.randint(-9, 4)])
        if math.isfinite(x) and abs(x) > 65504.0:
            x = math.copysign(65504.0, x)
        return ("d", _dbits(x))
    if isinstance(dt, pydsdl.FixedLengthArrayType):
        return [gen_value(rng, dt.element_type, mode, True) for _ in range(dt.capacity)]
    if isinstance(dt, pydsdl.VariableLengthArrayType):
        cnt = {"zero": 0, "ones": dt.capacity}.get(mode)
        if cnt is None:
            cnt = rng.choice([0, 1, dt.capacity, dt.capacity, rng.randint(0, dt.capacity)])
        return {"count": cnt, "elements": [gen_value(rng, dt.element_type, mode, True) for _ in range(cnt)]}
    if isinstance(dt, pydsdl.CompositeType):
        return gen_composite(rng, dt, mode)
    raise TypeError(dt)


def gen_composite(rng, t, mode):
    inner = t.inner_type
    if isinstance(inner, pydsdl.UnionType):
        k = 0 if mode == "zero" else (len(inner.fields) - 1 if mode == "ones" else rng.randrange(len(inner.fields)))
        return {"_tag_": k, "v": gen_value(rng, inner.fields[k].data_type, mode)}
    return {f.name: gen_value(rng, f.data_type, mode) for f in inner.fields_except_padding}


def py_float_wire_bits(leaf, dt) -> int:
    """the wire pattern the specification assigns to a Python float leaf of DSDL type dt"""
    kind, bits = leaf
    sat = dt.cast_mode == dt.CastMode.SATURATED
    if kind == "e":  # an element of a NumPy array of the exact IEEE type
        return bits
    x = struct.unpack("<d", struct.pack("<Q", bits))[0]
    if dt.bit_length == 64:
        return bits
    if dt.bit_length == 32:
        if math.isnan(x):
            return 0x7FC00000
        if sat and math.isfinite(x) and abs(x) > FLT_MAX:
            x = math.copysign(FLT_MAX, x)
        try:
            return struct.unpack("<I", struct.pack("<f", x))[0]
        except OverflowError:
            return 0x7F800000 | (0x80000000 if x < 0 else 0)
    return pp_ref.f16_bits(x, sat)


def to_ref_value(dt, v):
    """value tree for pp_ref.enc: float leaves become ("raw", wire pattern)"""
    if isinstance(dt, pydsdl.FloatType):
        return ("raw", py_float_wire_bits(v, dt))
    if isinstance(dt, pydsdl.PrimitiveType):
        return v
    if isinstance(dt, pydsdl.FixedLengthArrayType):
        return [to_ref_value(dt.element_type, x) for x in v]
    if isinstance(dt, pydsdl.VariableLengthArrayType):
        return {"count": v["count"], "elements": [to_ref_value(dt.element_type, x) for x in v["elements"]]}
    if isinstance(dt, pydsdl.CompositeType):
        inner = dt.inner_type
        if isinstance(inner, pydsdl.UnionType):
            return {"_tag_": v["_tag_"], "v": to_ref_value(inner.fields[v["_tag_"]].data_type, v["v"])}
        return {f.name: to_ref_value(f.data_type, v[f.name]) for f in inner.fields_except_padding}
    raise TypeError(dt)


# ---------------------------------------------------------------------------------------------------------------------
# plans for the runner
# ---------------------------------------------------------------------------------------------------------------------
def value_plan(lang, dt, v):
    if isinstance(dt, pydsdl.BooleanType):
        return {"k": "bool", "v": int(v)}
    if isinstance(dt, pydsdl.IntegerType):
        return {"k": "int", "v": int(v)}
    if isinstance(dt, pydsdl.FloatType):
        return {"k": "float", "w": dt.bit_length, "bits": v[1]}
    if isinstance(dt, pydsdl.ArrayType):
        items = v if isinstance(dt, pydsdl.FixedLengthArrayType) else v["elements"][:v["count"]]
        if isinstance(dt.element_type, pydsdl.PrimitiveType):
            return {"k": "arr", "dtype": np_dtype(dt.element_type), "items": [value_plan(lang, dt.element_type, x) for x in items]}
        return {"k": "objs", "items": [value_plan(lang, dt.element_type, x) for x in items]}
    if isinstance(dt, pydsdl.CompositeType):
        m, c = mod_cls(lang, dt)
        inner = dt.inner_type
        if isinstance(inner, pydsdl.UnionType):
            f = inner.fields[v["_tag_"]]
            return {"k": "union", "mod": m, "cls": c, "attr": attr(lang, f.name), "value": value_plan(lang, f.data_type, v["v"])}
        return {"k": "struct", "mod": m, "cls": c, "fields": [[attr(lang, f.name), value_plan(lang, f.data_type, v[f.name])] for f in inner.fields_except_padding]}
    raise TypeError(dt)


def type_plan(lang, dt):
    if isinstance(dt, pydsdl.BooleanType):
        return {"k": "bool"}
    if isinstance(dt, pydsdl.IntegerType):
        return {"k": "int"}
    if isinstance(dt, pydsdl.FloatType):
        return {"k": "float", "w": dt.bit_length}
    if isinstance(dt, pydsdl.ArrayType):
        return {"k": "arr", "elem": type_plan(lang, dt.element_type), "var": isinstance(dt, pydsdl.VariableLengthArrayType)}
    if isinstance(dt, pydsdl.CompositeType):
        inner = dt.inner_type
        fs = [[attr(lang, f.name), type_plan(lang, f.data_type)] for f in inner.fields_except_padding]
        return {"k": "union", "options": fs} if isinstance(inner, pydsdl.UnionType) else {"k": "struct", "fields": fs}
    raise TypeError(dt)


def run_jobs(workdir: pathlib.Path, jobs: typing.List[dict], timeout: int = 600) -> typing.Dict[typing.Any, dict]:
    ensure_venv()
    for i, j in enumerate(jobs):
        j.setdefault("id", i)
    p = subprocess.run([VENV_PY, RUNNER, str(workdir)], input="\n".join(json.dumps(j) for j in jobs) + "\n", capture_output=True, text=True, timeout=timeout,
                       env={"PATH": "/usr/bin:/bin", "PYTHONDONTWRITEBYTECODE": "1", "PYTHONHASHSEED": "0"})
    out = {}
    for line in p.stdout.splitlines():
        try:
            r = json.loads(line)
        except ValueError:
            continue
        out[r.get("id")] = r
    if len(out) != len(jobs):
        out["__stderr__"] = {"stderr": p.stderr[-1500:], "rc": p.returncode}
    return out


def _norm(kind, x):
    if kind == "f32" and (x & 0x7F800000) == 0x7F800000 and (x & 0x007FFFFF):
        return 0x7FC00000
    if kind == "f64" and (x & 0x7FF0000000000000) == 0x7FF0000000000000 and (x & 0x000FFFFFFFFFFFFF):
        return 0x7FF8000000000000
    return x


def _normflat(xs):
    return [[x[0], _norm(x[0], x[1])] if isinstance(x, (list, tuple)) else x for x in xs]


def _has_scalar_nan(dt, v) -> bool:
    if isinstance(dt, pydsdl.FloatType):
        return v[0] == "d" and dt.bit_length < 64 and math.isnan(struct.unpack("<d", struct.pack("<Q", v[1]))[0])
    if isinstance(dt, pydsdl.PrimitiveType):
        return False
    if isinstance(dt, pydsdl.ArrayType):
        return False  # array elements are copied bit for bit
    inner = dt.inner_type
    if isinstance(inner, pydsdl.UnionType):
        return _has_scalar_nan(inner.fields[v["_tag_"]].data_type, v["v"])
    return any(_has_scalar_nan(f.data_type, v[f.name]) for f in inner.fields_except_padding)


def _same_up_to_nan_payload(t, a: bytes, b: bytes) -> bool:
    """two serialized representations that decode (reference decoder) to the same value once every NaN is canonical: a
    built-in float carries NaN-ness, not the payload/signalling bit of a float16/float32 NaN (false alarm of the first
    thorough run: random NaN patterns in float arrays)"""
    if len(a) != len(b):
        return False
    x = pp_ref.deserialize_ref(t, a, len(a))
    y = pp_ref.deserialize_ref(t, b, len(b))
    if x[0] != 0 or y[0] != 0 or x[2] != y[2]:
        return False

    def canon(xs):
        out = []
        for q in xs:
            if isinstance(q, (list, tuple)):
                k, v = q[0], q[1]
                if k == "f32":  # float16 values arrive widened to single: a NaN is a NaN
                    v = 0x7FC00000 if (v & 0x7F800000) == 0x7F800000 and (v & 0x007FFFFF) else v
                else:
                    v = 0x7FF8000000000000 if (v & 0x7FF0000000000000) == 0x7FF0000000000000 and (v & 0x000FFFFFFFFFFFFF) else v
                out.append([k, v])
            else:
                out.append(q)
        return out
    return canon(pp_ref.flat(t, x[1])) == canon(pp_ref.flat(t, y[1]))


def _nan_wire_equal(t, v, got: bytes, want: bytes) -> bool:
    """bytes equal; when a float16/float32 SCALAR holds a NaN, equal up to that NaN's payload/sign (the specification
    fixes NaN-ness only): both byte strings are then decoded by the reference and compared with NaNs canonical"""
    if got == want:
        return True
    if len(got) != len(want) or not _has_scalar_nan(t, v):
        return False
    a = pp_ref.deserialize_ref(t, got, len(got))
    b = pp_ref.deserialize_ref(t, want, len(want))
    if a[0] != 0 or b[0] != 0 or a[2] != b[2]:
        return False
    return _normflat(pp_ref.flat(t, a[1])) == _normflat(pp_ref.flat(t, b[1]))


def witness_py(types, workdir: pathlib.Path, direction: str, n_cases: int = 60):
    """generated Python (de)serializers of `types` (already rendered under workdir) against the reference codec.
    Returns (list of (type, witness dict), evaluations, harness_error or None)."""
    lang = py_lang()
    rng = random.Random(20260929)
    jobs: typing.List[dict] = []
    meta: typing.List[tuple] = []
    for t in types:
        m, c = mod_cls(lang, t)
        mbytes = (max(t.inner_type.bit_length_set) + 7) // 8
        if direction == "ser":
            for i in range(n_cases):
                v = gen_composite(rng, t, "zero" if i == 0 else "ones" if i == 1 else "rand")
                jobs.append({"job": "ser", "plan": value_plan(lang, t, v)})
                meta.append((t, v))
        else:
            for i in range(n_cases):
                v = pp_ref.gen_composite(rng, t, "zero" if i == 0 else "ones" if i == 1 else "rand")
                pp_ref.DELIM_MODE[0] = ("exact", "exact", "shorter", "longer", "overlong")[i % 5] if i > 1 else "exact"
                erc, eb = pp_ref.serialize_ref(t, v, mbytes + 64)
                pp_ref.DELIM_MODE[0] = "exact"
                data = eb if erc == 0 else bytes(rng.getrandbits(8) for _ in range(mbytes))
                kind = (i // 4) % 4
                if kind == 1 and data:
                    data = data[:rng.randint(0, len(data))]
                elif kind == 2:
                    data = bytes(b ^ (1 << rng.randint(0, 7)) if rng.random() < 0.2 else b for b in data) + bytes(rng.getrandbits(8) for _ in range(rng.randint(0, 3)))
                elif kind == 3:
                    data = bytes(rng.getrandbits(8) for _ in range(rng.randint(0, mbytes + 2)))
                j = {"job": "des", "mod": m, "cls": c, "hex": data.hex(), "tp": type_plan(lang, t)}
                if i % 5 == 4 and len(data) > 1:  # fragmented input: the documented Sequence[memoryview] interface
                    j["split"] = rng.randint(1, len(data) - 1)
                jobs.append(j)
                meta.append((t, data))
    res = run_jobs(workdir, jobs)
    if "__stderr__" in res:
        return [], 0, f"runner stopped early: {res['__stderr__']}"
    bad = []
    seen = set()
    for i, (t, x) in enumerate(meta):
        if str(t) in seen:
            continue
        r = res[i]
        if direction == "ser":
            erc, eb = pp_ref.serialize_ref(t, to_ref_value(t, x), 1 << 20)
            assert erc == 0
            if "exc" in r:
                w = {"input": {"object": x}, "why": f"the generated Python serializer raises {r['exc']}: {r['msg']}", "trace": r.get("tb", "")}
            elif not _nan_wire_equal(t, x, bytes.fromhex(r["hex"]), eb):
                w = {"input": {"object": x}, "why": f"Python emits {r['hex']}; the specification gives {eb.hex()}"}
            else:
                continue
        else:
            erc, ev, esz = pp_ref.deserialize_ref(t, x, len(x))
            inp = {"bytes": x.hex(), "size": len(x), "fragments": "2" if jobs[i].get("split") else "1"}
            if "exc" in r:
                w = {"input": inp, "why": f"the generated Python deserializer raises {r['exc']}: {r['msg']} (invalid input must give None, valid input a value)", "trace": r.get("tb", "")}
            elif r.get("none"):
                if erc == 0:
                    w = {"input": inp, "why": "Python rejects the input (None); the specification decodes it"}
                else:
                    continue
            elif erc != 0:
                w = {"input": inp, "why": f"Python decodes an input the specification rejects (error {erc})"}
            else:
                got, want = _normflat(r["flat"]), _normflat([list(y) if isinstance(y, tuple) else y for y in pp_ref.flat(t, ev)])
                if got == want:
                    continue
                w = {"input": inp, "why": f"Python decodes fields {got}; the specification gives {want}"}
        w["evaluations"] = i + 1
        seen.add(str(t))
        bad.append((t, w))
    return bad, len(jobs), None


def roundtrip_py(types, workdir: pathlib.Path, n_cases: int = 100):
    """C03, Python leg (bounded): decode(encode(x)) is x after its cast-mode adjustment and encodes to the same bytes --
    the adjustment is read off the reference decoder applied to the bytes Python itself produced (oracle-free for the
    byte-identity clause, reference-based for the decoded value)."""
    lang = py_lang()
    rng = random.Random(3)
    jobs, meta = [], []
    for t in types:
        m, c = mod_cls(lang, t)
        for i in range(n_cases):
            v = gen_composite(rng, t, "zero" if i == 0 else "ones" if i == 1 else "rand")
            jobs.append({"job": "roundtrip", "mod": m, "cls": c, "plan": value_plan(lang, t, v), "tp": type_plan(lang, t)})
            meta.append((t, v))
    res = run_jobs(workdir, jobs)
    if "__stderr__" in res:
        return [], 0, f"runner stopped early: {res['__stderr__']}"
    bad, seen = [], set()
    for i, (t, v) in enumerate(meta):
        r = res[i]
        if str(t) in seen:
            continue
        if "exc" in r:
            w = {"input": {"object": v}, "why": f"raises {r['exc']}: {r['msg']}"}
        elif r.get("none"):
            w = {"input": {"object": v, "bytes": r["b1"]}, "why": "the generated deserializer rejects the bytes the generated serializer produced"}
        elif r["b1"] != r["b2"]:
            w = {"input": {"object": v}, "why": f"serialize(deserialize(serialize(x))) = {r['b2']} differs from serialize(x) = {r['b1']}"}
        else:
            b1 = bytes.fromhex(r["b1"])
            erc, ev, _ = pp_ref.deserialize_ref(t, b1, len(b1))
            want = _normflat([list(y) if isinstance(y, tuple) else y for y in pp_ref.flat(t, ev)]) if erc == 0 else None
            if want is None or _normflat(r["flat"]) != want:
                w = {"input": {"object": v, "bytes": r["b1"]}, "why": f"deserialize(serialize(x)) has fields {r['flat']}; the cast-mode adjusted value is {want}"}
            else:
                continue
        seen.add(str(t))
        bad.append((t, w))
    return bad, len(jobs), None


# ---------------------------------------------------------------------------------------------------------------------
# C18: data-object contract of the generated classes (bounded native stand-in)
# ---------------------------------------------------------------------------------------------------------------------
def _fplan(x: float, w: int) -> dict:
    return {"k": "float", "w": w, "bits": _dbits(x)}


def field_candidates(lang, dt) -> typing.List[typing.Tuple[typing.Any, str, str]]:
    """(value for the runner, expected outcome 'stored' | 'ValueError', note) -- the expectation comes from the DSDL type"""
    out: typing.List[typing.Tuple[typing.Any, str, str]] = []
    if isinstance(dt, pydsdl.BooleanType):
        return [(True, "stored", "True"), (False, "stored", "False")]
    if isinstance(dt, pydsdl.IntegerType):
        lo, hi = int(dt.inclusive_value_range.min), int(dt.inclusive_value_range.max)
        return [(lo, "stored", "minimum"), (hi, "stored", "maximum"), (lo - 1, "ValueError", "minimum - 1"), (hi + 1, "ValueError", "maximum + 1"), (hi + 256, "ValueError", "maximum + 256")]
    if isinstance(dt, pydsdl.FloatType):
        w = dt.bit_length
        if w == 64:
            return [(_fplan(1.7e308, 64), "stored", "1.7e308"), (_fplan(math.inf, 64), "stored", "inf"), (_fplan(math.nan, 64), "stored", "nan")]
        mx = 65504.0 if w == 16 else FLT_MAX
        return [(_fplan(mx, w), "stored", "largest finite"), (_fplan(-mx, w), "stored", "smallest finite"), (_fplan(math.inf, w), "stored", "inf"), (_fplan(-math.inf, w), "stored", "-inf"),
                (_fplan(math.nan, w), "stored", "nan"), (_fplan(0.1, w), "stored", "0.1"),
                (_fplan(math.nextafter(mx, math.inf), w), "ValueError", "just above the largest finite"), (_fplan(-mx * 1.5, w), "ValueError", "-1.5 x largest finite"),
                (_fplan(mx * 16.0, w), "ValueError", "16 x largest finite")]
    if isinstance(dt, pydsdl.ArrayType):
        cap = dt.capacity
        fixed = isinstance(dt, pydsdl.FixedLengthArrayType)
        et = dt.element_type
        if isinstance(et, pydsdl.CompositeType):
            m, c = mod_cls(lang, et)

            def objs(n):
                return {"k": "list", "items": [{"k": "default", "mod": m, "cls": c} for _ in range(n)]}
            out = [(objs(cap), "stored", f"{cap} elements"), (objs(cap + 1), "ValueError", f"{cap + 1} elements")]
            if fixed and cap > 0:
                out.append((objs(cap - 1), "ValueError", f"{cap - 1} elements"))
            elif not fixed:
                out.append((objs(0), "stored", "0 elements"))
            return out
        ev: typing.Any = True if isinstance(et, pydsdl.BooleanType) else (1.5 if isinstance(et, pydsdl.FloatType) else 1)

        def lst(n):
            return {"k": "list", "items": [ev] * n}

        def arr(n):
            if isinstance(et, pydsdl.FloatType):
                one = {16: 0x3C00, 32: 0x3F800000, 64: 0x3FF0000000000000}[et.bit_length]
                return {"k": "arr", "dtype": np_dtype(et), "items": [{"k": "float", "w": et.bit_length, "bits": one}] * n}
            return {"k": "arr", "dtype": np_dtype(et), "items": [{"k": "bool", "v": 1} if isinstance(et, pydsdl.BooleanType) else {"k": "int", "v": 1}] * n}
        out = [(lst(cap), "stored", f"list of {cap}"), (lst(cap + 1), "ValueError", f"list of {cap + 1}"), (arr(cap), "stored", f"ndarray of {cap}"), (arr(cap + 1), "ValueError", f"ndarray of {cap + 1}"),
               (arr(cap + 9), "ValueError", f"ndarray of {cap + 9}")]
        if fixed and cap > 0:
            out += [(lst(cap - 1), "ValueError", f"list of {cap - 1}"), (arr(cap - 1), "ValueError", f"ndarray of {cap - 1}"), (lst(0), "ValueError", "empty list")]
        if not fixed:
            out += [(lst(0), "stored", "empty list")]
        if isinstance(et, pydsdl.UnsignedIntegerType) and et.bit_length <= 8:
            for mut in (False, True):
                out += [({"k": "bytes", "hex": "41" * cap, "mutable": mut}, "stored", f"{'bytearray' if mut else 'bytes'} of {cap}"),
                        ({"k": "bytes", "hex": "41" * (cap + 1), "mutable": mut}, "ValueError", f"{'bytearray' if mut else 'bytes'} of {cap + 1}")]
                if fixed and cap > 0:
                    out.append(({"k": "bytes", "hex": "41" * (cap - 1), "mutable": mut}, "ValueError", f"{'bytearray' if mut else 'bytes'} of {cap - 1}"))
        if getattr(dt, "string_like", False):
            out += [({"k": "str", "v": "a" * cap}, "stored", f"ASCII str of {cap} characters"), ({"k": "str", "v": "a" * (cap + 1)}, "ValueError", f"ASCII str of {cap + 1} characters")]
            k = cap // 2 + 1  # k two-byte characters: k <= cap characters but 2k > cap encoded bytes
            if k <= cap:
                out.append(({"k": "str", "v": "é" * k}, "ValueError", f"str of {k} two-byte characters = {2 * k} encoded bytes"))
            if cap >= 2:
                out.append(({"k": "str", "v": "é" * (cap // 2)}, "stored", f"str of {cap // 2} two-byte characters"))
        return out
    return []


def data_object_checks(types, workdir: pathlib.Path, n_roundtrip: int = 40):
    """-> (failures [(obligation name, witness dict)], evaluations, harness_error)"""
    lang = py_lang()
    rng = random.Random(18)
    jobs: typing.List[dict] = []
    meta: typing.List[tuple] = []
    for t in types:
        m, c = mod_cls(lang, t)
        inner = t.inner_type
        is_union = isinstance(inner, pydsdl.UnionType)
        fields = list(inner.fields_except_padding)
        opts = [attr(lang, f.name) for f in fields] if is_union else []
        jobs.append({"job": "model", "mod": m, "cls": c})
        meta.append(("model", t, None))
        mg = mangled_fields(lang, t)
        if mg:
            # one dedicated obligation per mangled attribute (reported by the class that declares it); the other jobs of the
            # classes that contain it would only repeat it
            for q in mg:
                if q.startswith(f"{t}."):
                    fn = q[len(str(t)) + 1:]
                    jobs.append({"job": "set", "mod": m, "cls": c, "attr": attr(lang, fn), "value": -1, "init": [], "options": []})
                    meta.append(("mangled", t, fn))
            continue
        if is_union:
            jobs.append({"job": "ctor", "mod": m, "cls": c, "kwargs": [], "options": opts})
            meta.append(("ctor", t, ([], [opts[0]])))
            for i, f in enumerate(fields):
                v = gen_value(rng, f.data_type, "rand")
                jobs.append({"job": "ctor", "mod": m, "cls": c, "kwargs": [[opts[i], value_plan(lang, f.data_type, v)]], "options": opts})
                meta.append(("ctor", t, ([f.name], [opts[i]])))
            if len(fields) > 1:
                a, b = fields[0], fields[-1]
                jobs.append({"job": "ctor", "mod": m, "cls": c, "options": opts,
                             "kwargs": [[opts[0], value_plan(lang, a.data_type, gen_value(rng, a.data_type, "zero"))], [opts[-1], value_plan(lang, b.data_type, gen_value(rng, b.data_type, "zero"))]]})
                meta.append(("ctor", t, ([a.name, b.name], "ValueError")))
        for i, f in enumerate(fields):
            for val, expect, note in field_candidates(lang, f.data_type):
                inits = [[]]
                if is_union and len(fields) > 1:  # the object holds ANOTHER option when the assignment is made
                    o = fields[(i + 1) % len(fields)]
                    inits = [[], [[attr(lang, o.name), value_plan(lang, o.data_type, gen_value(rng, o.data_type, "rand"))]]]
                for init in inits:
                    jobs.append({"job": "set", "mod": m, "cls": c, "attr": attr(lang, f.name), "value": val, "init": init, "options": opts})
                    meta.append(("set", t, (f, val, expect, note, bool(init))))
        for i in range(n_roundtrip):
            v = gen_composite(rng, t, "zero" if i == 0 else "ones" if i == 1 else "rand")
            jobs.append({"job": "builtin_roundtrip", "mod": m, "cls": c, "plan": value_plan(lang, t, v)})
            meta.append(("rt", t, v))
    res = run_jobs(workdir, jobs)
    if "__stderr__" in res:
        return [], 0, f"runner stopped early: {res['__stderr__']}"
    bad: typing.List[typing.Tuple[str, dict]] = []
    seen = set()

    def add(name, w):
        if name not in seen:
            seen.add(name)
            bad.append((name, w))
    for i, (kind, t, x) in enumerate(meta):
        r = res[i]
        tn = str(t)
        if kind == "mangled":
            if r.get("res") != "ValueError":
                add(f"native[py]:{tn}.{x}#attribute-is-reachable-under-its-generated-name",
                    {"input": {"class": tn, "field": x, "statement": f"obj.{attr(lang, x)} = -1"},
                     "why": f"the assignment is {r.get('res', r)} instead of being validated: inside the class body the attribute and the constructor keyword {attr(lang, x)!r} are private-name-mangled "
                            f"(_{mod_cls(lang, t)[1]}{attr(lang, x)}), so the property cannot be reached under its generated name; get_attribute/set_attribute, to_builtin and update_from_builtin fail on it"})
            continue
        if kind == "model":
            inner = t.inner_type
            want = {"repr": str(t), "fields": [[str(f.data_type), f.name] for f in inner.fields], "extent": int(t.extent)}
            if "exc" in r:
                add(f"native[py]:{tn}#embedded-model-equals-the-source-model", {"input": {"class": tn}, "why": f"get_model raises {r['exc']}: {r['msg']}"})
            elif any(r.get(k) != v for k, v in want.items()) or r.get("class_extent_bytes") != t.extent // 8 or not r.get("get_class_is_cls"):
                add(f"native[py]:{tn}#embedded-model-equals-the-source-model", {"input": {"class": tn}, "why": f"generated class reports {r}, the source definition is {want}"})
        elif kind == "ctor":
            given, want = x
            if want == "ValueError":
                if r.get("res") != "ValueError":
                    add(f"native[py]:{tn}#union-constructor-refuses-two-options", {"input": {"class": tn, "arguments": given}, "why": f"constructor with two options: {r}"})
            elif "exc" in r or r.get("res") != "ok" or r.get("selected") != want:
                add(f"native[py]:{tn}#union-holds-exactly-one-option", {"input": {"class": tn, "arguments": given}, "why": f"after construction the object holds {r.get('selected', r)}, expected {want}"})
        elif kind == "set":
            f, val, expect, note, other = x
            inp = {"class": tn, "field": f.name, "assigned": note, "object_holds_another_option": other}
            name = f"native[py]:{tn}.{f.name}#assignment-{'is-stored' if expect == 'stored' else 'outside-the-type-raises-ValueError-and-stores-nothing'}"
            if "exc" in r:
                add(name, {"input": inp, "why": f"raises {r['exc']}: {r['msg']} (expected {expect})"})
            elif r["res"] != expect:
                add(name, {"input": inp, "why": f"outcome {r['res']}, expected {expect}"})
            elif expect == "ValueError" and (r["after"] != r["before"]):
                add(name, {"input": inp, "why": f"the rejected assignment changed the object: serializes to {r['after']} (before: {r['before']})"})
            elif isinstance(t.inner_type, pydsdl.UnionType) and ((expect == "stored" and r["selected"] != [attr(lang, f.name)]) or (expect == "ValueError" and len(r["selected"]) != 1)):
                add(f"native[py]:{tn}#union-holds-exactly-one-option", {"input": inp, "why": f"after the assignment the union holds the options {r['selected']}"})
            elif expect == "stored" and r["after"].startswith("<"):
                add(name, {"input": inp, "why": f"the stored value cannot be serialized: {r['after']}"})
        else:
            if "exc" in r:
                add(f"native[py]:{tn}#to_builtin-update_from_builtin-round-trip", {"input": {"object": x}, "why": f"raises {r['exc']}: {r['msg']}", "trace": r.get("tb", "")})
            elif r["a"] != r["b"] and not _same_up_to_nan_payload(t, bytes.fromhex(r["a"]), bytes.fromhex(r["b"])):
                add(f"native[py]:{tn}#to_builtin-update_from_builtin-round-trip", {"input": {"object": x, "builtin": r["builtin"]}, "why": f"serialize(update_from_builtin(T(), to_builtin(o))) = {r['b']}, serialize(o) = {r['a']}"})
    return bad, len(jobs), None

"""Runs INSIDE the overlay interpreter (/verif/.venv: Python 3.12 + NumPy): executes the REAL generated Python of the tree
under test.  usage: py_runner.py <dir holding the generated packages and nunavut_support.py>   (jobs: JSON on stdin,
one JSON line per job on stdout).  Imports nothing from /verif and nothing from nunavut: only the generated code.

Value plans (built by the host from the pydsdl model, independent of the `_MODEL_` embedded in the generated classes):
  {"k":"int","v":n} {"k":"bool","v":0|1} {"k":"float","w":16|32|64,"bits":<IEEE pattern of a double (scalars) or of the
  element type (array elements)>} {"k":"arr","dtype":"uint16","items":[...]} (primitive elements -> numpy array)
  {"k":"objs","items":[...]} (composite elements -> list) {"k":"struct","mod":..,"cls":..,"fields":[[attr, plan],..]}
  {"k":"union","mod":..,"cls":..,"attr":name,"value":plan}
Type plans (for dumping a decoded object): {"k":"int"|"bool"} {"k":"float","w":..} {"k":"arr","elem":tp,"var":bool}
  {"k":"struct","fields":[[attr,tp],..]} {"k":"union","options":[[attr,tp],..]}
"""
import importlib
import json
import struct
import sys
import traceback

sys.path.insert(0, sys.argv[1])
import numpy as np  # noqa: E402

import nunavut_support as ns  # noqa: E402


def get_cls(mod, cls):
    o = importlib.import_module(mod)
    for p in cls.split("."):
        o = getattr(o, p)
    return o


def dbl(bits):
    return struct.unpack("<d", struct.pack("<Q", bits))[0]


def build(p):
    k = p["k"]
    if k == "int":
        return int(p["v"])
    if k == "bool":
        return bool(p["v"])
    if k == "float":
        return dbl(p["bits"])  # scalars are Python floats: the plan carries the pattern of the double
    if k == "arr":
        dt = np.dtype(p["dtype"])
        items = p["items"]
        if dt.kind == "f":
            u = {2: np.uint16, 4: np.uint32, 8: np.uint64}[dt.itemsize]
            return np.array([x["bits"] for x in items], dtype=u).view(dt)
        if dt.kind == "b":
            return np.array([bool(x["v"]) for x in items], dtype=np.bool_)
        return np.array([x["v"] for x in items], dtype=dt)
    if k == "objs":
        return [build(x) for x in p["items"]]
    if k == "bytes":
        return bytes.fromhex(p["hex"]) if not p.get("mutable") else bytearray.fromhex(p["hex"])
    if k == "str":
        return p["v"]
    if k == "list":
        return [build(x) if isinstance(x, dict) else x for x in p["items"]]
    if k == "default":
        return get_cls(p["mod"], p["cls"])()
    if k == "struct":
        return get_cls(p["mod"], p["cls"])(**{a: build(v) for a, v in p["fields"]})
    if k == "union":
        return get_cls(p["mod"], p["cls"])(**{p["attr"]: build(p["value"])})
    raise TypeError(k)


def f_bits(x, w):
    """bit pattern of a decoded float in the reference's convention: float16/32 -> IEEE single pattern, 64 -> double"""
    if w == 64:
        return ["f64", struct.unpack("<Q", struct.pack("<d", float(x)))[0]]
    return ["f32", struct.unpack("<I", struct.pack("<f", float(x)))[0]]


def dump(o, tp, out):
    k = tp["k"]
    if k == "int":
        if isinstance(o, (bool, np.bool_)) or not isinstance(o, (int, np.integer)):
            raise TypeError(f"integer field holds {type(o).__name__}")
        out.append(int(o))
    elif k == "bool":
        if not isinstance(o, (bool, np.bool_)):
            raise TypeError(f"boolean field holds {type(o).__name__}")
        out.append(int(bool(o)))
    elif k == "float":
        out.append(f_bits(o, tp["w"]))
    elif k == "arr":
        if tp["var"]:
            out.append(len(o))
        for e in o:
            dump(e, tp["elem"], out)
    elif k == "struct":
        for a, t in tp["fields"]:
            dump(getattr(o, a), t, out)
    elif k == "union":
        sel = [i for i, (a, _) in enumerate(tp["options"]) if getattr(o, a) is not None]
        if len(sel) != 1:
            raise TypeError(f"union object holds {len(sel)} options")
        out.append(sel[0])
        dump(getattr(o, tp["options"][sel[0]][0]), tp["options"][sel[0]][1], out)
    else:
        raise TypeError(k)


def job(j):
    kind = j["job"]
    if kind == "ser":
        obj = build(j["plan"])
        return {"hex": b"".join(bytes(x) for x in ns.serialize(obj)).hex()}
    if kind == "des":
        cls = get_cls(j["mod"], j["cls"])
        data = bytearray.fromhex(j["hex"])
        frags = [memoryview(data)] if not j.get("split") else [memoryview(data[: j["split"]]), memoryview(data[j["split"]:])]
        o = ns.deserialize(cls, frags)
        if o is None:
            return {"none": True}
        out = []
        dump(o, j["tp"], out)
        return {"flat": out, "type": type(o).__name__}
    if kind == "roundtrip":  # oracle-free: serialize, deserialize with the same generated code, serialize again
        obj = build(j["plan"])
        b1 = b"".join(bytes(x) for x in ns.serialize(obj))
        o2 = ns.deserialize(get_cls(j["mod"], j["cls"]), [memoryview(bytearray(b1))])
        if o2 is None:
            return {"b1": b1.hex(), "none": True}
        b2 = b"".join(bytes(x) for x in ns.serialize(o2))
        out = []
        dump(o2, j["tp"], out)
        return {"b1": b1.hex(), "b2": b2.hex(), "flat": out}
    if kind == "builtin_roundtrip":
        obj = build(j["plan"])
        a = b"".join(bytes(x) for x in ns.serialize(obj)).hex()
        bi = ns.to_builtin(obj)
        json.dumps(bi)  # "only native built-in types"
        o2 = ns.update_from_builtin(get_cls(j["mod"], j["cls"])(), bi)
        b = b"".join(bytes(x) for x in ns.serialize(o2)).hex()
        return {"a": a, "b": b, "builtin": repr(bi)[:400]}
    if kind == "set":  # assign a candidate value to a field of a default-constructed object; report the outcome
        cls = get_cls(j["mod"], j["cls"])
        o = cls(**{a: build(v) for a, v in j.get("init", [])})
        before = b"".join(bytes(x) for x in ns.serialize(o)).hex()
        v = j["value"]
        val = build(v) if isinstance(v, dict) else v
        try:
            setattr(o, j["attr"], val)
            res = "stored"
        except ValueError:
            res = "ValueError"
        try:
            after = b"".join(bytes(x) for x in ns.serialize(o)).hex()
        except Exception as ex:  # noqa: the object no longer serializes
            after = f"<serialize raises {type(ex).__name__}: {str(ex)[:120]}>"
        stored = getattr(o, j["attr"])
        n = len(stored) if hasattr(stored, "__len__") else None
        sel = [a for a in j.get("options", []) if getattr(o, a) is not None]
        return {"res": res, "before": before, "after": after, "len": n, "selected": sel}
    if kind == "ctor":
        cls = get_cls(j["mod"], j["cls"])
        try:
            o = cls(**{a: build(v) for a, v in j["kwargs"]})
        except ValueError:
            return {"res": "ValueError"}
        sel = [a for a in j["options"] if getattr(o, a) is not None]
        return {"res": "ok", "selected": sel}
    if kind == "model":
        cls = get_cls(j["mod"], j["cls"])
        m = ns.get_model(cls)
        inner = m.inner_type if hasattr(m, "inner_type") else m
        return {"repr": str(m), "fields": [[str(f.data_type), f.name] for f in inner.fields], "extent": int(m.extent) if hasattr(m, "extent") else None,
                "class_extent_bytes": int(getattr(cls, "_EXTENT_BYTES_", -1)), "get_class_is_cls": ns.get_class(m) is cls,
                "port": ns.get_fixed_port_id(cls)}
    raise ValueError(kind)


def main():
    for line in sys.stdin:
        line = line.strip()
        if not line:
            continue
        j = json.loads(line)
        try:
            r = job(j)
        except Exception as ex:  # an exception of the generated code is an observation, reported to the host
            r = {"exc": type(ex).__name__, "msg": str(ex)[:300], "tb": traceback.format_exc()[-700:]}
        r["id"] = j.get("id")
        print(json.dumps(r), flush=True)


if __name__ == "__main__":
    main()

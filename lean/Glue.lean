/-
Glue lemmas of the nunavut contract verification (core Lean 4 only, no Mathlib).
They lift per-call contracts (discharged by the SMT back ends on the real code) to the whole-history / whole-text
statements of the properties.  Checked by `lean lean/Glue.lean` (see props/lean_glue.py).

L2  history induction (C12, C10)       L3  ceil(n/8) facts (C05)       L4  factor closure of A* (C09)
L1  uniqueness of the line decomposition (C15) is in lean/Lines.lean
-/

/-! ## L3: `(n + 7) / 8` is the least number of bytes holding `n` bits -/

theorem L3_ceil_upper (n : Nat) : n ≤ 8 * ((n + 7) / 8) := by omega

theorem L3_ceil_tight (n : Nat) (h : 0 < n) : 8 * ((n + 7) / 8 - 1) < n := by omega

theorem L3_ceil_least (n r : Nat) (h : n ≤ 8 * r) : (n + 7) / 8 ≤ r := by omega

theorem L3_ceil_zero : (0 + 7) / 8 = 0 := by decide

/-- a serialization buffer of `ceil(max_bits / 8)` bytes holds every representation of at most `max_bits` bits, and an
extent of at least `max_bits` bits is never smaller than that buffer -/
theorem L3_buffer_sufficient (bits maxBits extentBits : Nat) (h1 : bits ≤ maxBits) (h2 : maxBits ≤ extentBits)
    (h3 : extentBits % 8 = 0) : bits ≤ 8 * ((maxBits + 7) / 8) ∧ (maxBits + 7) / 8 ≤ extentBits / 8 := by
  omega

/-! ## L4: a factor (infix) of a word over an alphabet `A` is a word over `A` -/

theorem L4_factor_closure {α : Type} (A : α → Prop) (w u s t : List α) (hw : ∀ c, c ∈ w → A c)
    (hu : w = s ++ u ++ t) : ∀ c, c ∈ u → A c := by
  intro c hc
  apply hw
  rw [hu]
  exact List.mem_append_left t (List.mem_append_right s hc)

/-- concatenation of words over `A` is a word over `A` (used with L4 for the `re.sub` contract: result = segments) -/
theorem L4_concat_closure {α : Type} (A : α → Prop) (u v : List α) (hu : ∀ c, c ∈ u → A c) (hv : ∀ c, c ∈ v → A c) :
    ∀ c, c ∈ u ++ v → A c := by
  intro c hc
  rcases List.mem_append.mp hc with h | h
  · exact hu c h
  · exact hv c h

/-! ## L2: history induction

A file system is a map from paths to (optional) contents.  A *run* of the generator with fixed inputs is any function on
file systems that satisfies the per-run contract proved on the real code:
  * post:  every generated path `p ∈ G` holds `R p` afterwards, whatever the file system was before;
  * frame: every other path is unchanged.
Then after ANY finite sequence of such runs, started from ANY file system, every generated path holds what a single run
on a fresh (empty) file system produces, and paths outside `G` still hold what they held at the start. -/

section History
variable {Path Content : Type}

def RunContract (G : Path → Prop) (R : Path → Content) (run : (Path → Option Content) → (Path → Option Content)) : Prop :=
  (∀ fs p, G p → run fs p = some (R p)) ∧ (∀ fs p, ¬ G p → run fs p = fs p)

def iter (runs : List ((Path → Option Content) → (Path → Option Content))) (fs : Path → Option Content) :
    Path → Option Content :=
  runs.foldl (fun s r => r s) fs

theorem L2_stable (G : Path → Prop) (R : Path → Content)
    (runs : List ((Path → Option Content) → (Path → Option Content)))
    (hc : ∀ r, r ∈ runs → RunContract G R r) (fs : Path → Option Content) :
    (∀ p, ¬ G p → iter runs fs p = fs p) ∧ (∀ p, G p → fs p = some (R p) → iter runs fs p = some (R p)) := by
  induction runs generalizing fs with
  | nil => exact ⟨fun _ _ => rfl, fun _ _ h => h⟩
  | cons r rs ih =>
    have hr : RunContract G R r := hc r (List.mem_cons_self ..)
    have ih' := ih (fun r' h' => hc r' (List.mem_cons_of_mem _ h')) (r fs)
    constructor
    · intro p hp
      show iter rs (r fs) p = fs p
      rw [ih'.1 p hp, hr.2 fs p hp]
    · intro p hp _
      show iter rs (r fs) p = some (R p)
      exact ih'.2 p hp (hr.1 fs p hp)

theorem L2_history (G : Path → Prop) (R : Path → Content)
    (runs : List ((Path → Option Content) → (Path → Option Content)))
    (hc : ∀ r, r ∈ runs → RunContract G R r) (hne : runs ≠ [])
    (fs0 : Path → Option Content) (fresh : (Path → Option Content) → (Path → Option Content))
    (hf : RunContract G R fresh) :
    (∀ p, G p → iter runs fs0 p = fresh (fun _ => none) p) ∧ (∀ p, ¬ G p → iter runs fs0 p = fs0 p) := by
  cases runs with
  | nil => exact absurd rfl hne
  | cons r rs =>
    have hr : RunContract G R r := hc r (List.mem_cons_self ..)
    have st := L2_stable G R rs (fun r' h' => hc r' (List.mem_cons_of_mem _ h')) (r fs0)
    constructor
    · intro p hp
      show iter rs (r fs0) p = fresh (fun _ => none) p
      rw [st.2 p hp (hr.1 fs0 p hp), hf.1 _ p hp]
    · intro p hp
      show iter rs (r fs0) p = fs0 p
      rw [st.1 p hp, hr.2 fs0 p hp]

end History

/-! ## L2 for per-file generator state (C10)

`gen f σ` renders file `f` from generator state `σ` and leaves a new state.  Per-file obligation proved on the real code:
the output of `gen f` does not depend on the incoming state (every location is reset before use or is a transparent cache).
Then in any sequence of files each output equals the output of generating that file alone from the initial state. -/

section PerFile
variable {File State Out : Type}

def outputs (gen : File → State → Out × State) : List File → State → List Out
  | [], _ => []
  | f :: fs, σ => (gen f σ).1 :: outputs gen fs (gen f σ).2

theorem L2_per_file (gen : File → State → Out × State) (σ0 : State)
    (hindep : ∀ f σ, (gen f σ).1 = (gen f σ0).1) (fs : List File) (σ : State) :
    outputs gen fs σ = fs.map (fun f => (gen f σ0).1) := by
  induction fs generalizing σ with
  | nil => rfl
  | cons f fs ih => simp [outputs, hindep f σ, ih]

/-- in particular the outputs do not depend on the order or on which other files are generated: a file's output in any
sequence equals its output in any other sequence -/
theorem L2_order_independent (gen : File → State → Out × State) (σ0 : State)
    (hindep : ∀ f σ, (gen f σ).1 = (gen f σ0).1) (fs gs : List File) (σ τ : State) (i j : Nat)
    (hi : i < fs.length) (hj : j < gs.length) (hsame : fs[i] = gs[j]) :
    (outputs gen fs σ)[i]'(by rw [L2_per_file gen σ0 hindep]; simpa using hi) =
    (outputs gen gs τ)[j]'(by rw [L2_per_file gen σ0 hindep]; simpa using hj) := by
  simp [L2_per_file gen σ0 hindep, hsame]

end PerFile

#print axioms L2_stable
#print axioms L2_history
#print axioms L2_per_file
#print axioms L2_order_independent
#print axioms L4_factor_closure
#print axioms L4_concat_closure
#print axioms L3_ceil_upper
#print axioms L3_ceil_tight
#print axioms L3_ceil_least
#print axioms L3_buffer_sufficient

/-
L1 (C15): the decomposition of a text into (line, terminator) pieces that satisfy the *emit precondition* of the line
buffer is unique.  The E-PY proof shows, for every chunking of the rendered text, that the pieces handed to the line
post-processors (a) concatenate to the whole text and (b) each satisfy the emit precondition:
    no "\n" inside the line;  terminator ∈ {"\n", "\r\n"};  terminator "\n" ⇒ the line does not end in "\r";
    only the last piece may lack a terminator, and then it is not empty.
By this lemma two runs over different chunkings of the same text hand the *same* pieces to the processors, in particular
the same pieces as the single-chunk run.  Core Lean 4 only.
-/

inductive Term where
  | lf | crlf | none
  deriving DecidableEq

section
variable {α : Type} (nl cr : α)

def tchars : Term → List α
  | .lf => [nl]
  | .crlf => [cr, nl]
  | .none => []

def render : List (List α × Term) → List α
  | [] => []
  | (l, t) :: ps => l ++ tchars nl cr t ++ render ps

/-- the emit precondition of every piece -/
def WF : List (List α × Term) → Prop
  | [] => True
  | (l, t) :: ps => nl ∉ l ∧ (t = .lf → l.getLast? ≠ some cr) ∧ (t = .none → l ≠ [] ∧ ps = []) ∧ WF ps

/-- the first line feed of a text is where it is -/
theorem first_nl : ∀ (a b x y : List α), nl ∉ a → nl ∉ b → a ++ nl :: x = b ++ nl :: y → a = b ∧ x = y := by
  intro a
  induction a with
  | nil =>
    intro b x y _ hb h
    cases b with
    | nil => simp at h; exact ⟨rfl, h⟩
    | cons d b' =>
      simp at h
      exact absurd (h.1 ▸ List.mem_cons_self) hb
  | cons c a' ih =>
    intro b x y ha hb h
    cases b with
    | nil =>
      simp at h
      exact absurd (h.1 ▸ List.mem_cons_self) ha
    | cons d b' =>
      simp at h
      have ha' : nl ∉ a' := fun m => ha (List.mem_cons_of_mem _ m)
      have hb' : nl ∉ b' := fun m => hb (List.mem_cons_of_mem _ m)
      have := ih b' x y ha' hb' h.2
      exact ⟨by rw [h.1, this.1], this.2⟩

theorem getLast_snoc (l : List α) (c : α) : (l ++ [c]).getLast? = some c := by simp

/-- a terminated piece, seen as  prefix-without-nl ++ nl :: rest -/
theorem piece_shape (hne : cr ≠ nl) (l : List α) (t : Term) (ht : t ≠ .none) (hl : nl ∉ l) (r : List α) :
    ∃ a, nl ∉ a ∧ l ++ tchars nl cr t ++ r = a ++ nl :: r ∧ ((t = .lf ∧ a = l) ∨ (t = .crlf ∧ a = l ++ [cr])) := by
  cases t with
  | lf => exact ⟨l, hl, by simp [tchars], Or.inl ⟨rfl, rfl⟩⟩
  | crlf =>
    refine ⟨l ++ [cr], ?_, by simp [tchars], Or.inr ⟨rfl, rfl⟩⟩
    intro m
    rcases List.mem_append.mp m with h | h
    · exact hl h
    · simp at h; exact hne h.symm
  | none => exact absurd rfl ht

theorem nl_mem_piece (l : List α) (t : Term) (ht : t ≠ .none) (r : List α) : nl ∈ l ++ tchars nl cr t ++ r := by
  cases t with
  | lf => simp [tchars]
  | crlf => simp [tchars]
  | none => exact absurd rfl ht

theorem L1_unique (hne : cr ≠ nl) : ∀ (d1 d2 : List (List α × Term)), WF nl cr d1 → WF nl cr d2 →
    render nl cr d1 = render nl cr d2 → d1 = d2 := by
  intro d1
  induction d1 with
  | nil =>
    intro d2 _ h2 h
    cases d2 with
    | nil => rfl
    | cons p ps =>
      obtain ⟨l, t⟩ := p
      simp only [render] at h
      obtain ⟨_, _, hn, _⟩ := h2
      by_cases ht : t = .none
      · have := (hn ht).1
        subst ht
        simp [tchars] at h
        exact absurd h.1 this
      · have := nl_mem_piece nl cr l t ht (render nl cr ps)
        rw [← h] at this
        exact absurd this (by simp)
  | cons p1 ps1 ih =>
    intro d2 h1 h2 h
    obtain ⟨l1, t1⟩ := p1
    obtain ⟨hl1, hlf1, hn1, hw1⟩ := h1
    cases d2 with
    | nil =>
      simp only [render] at h
      by_cases ht : t1 = .none
      · have := (hn1 ht).1
        subst ht
        simp [tchars] at h
        exact absurd h.1 this
      · have := nl_mem_piece nl cr l1 t1 ht (render nl cr ps1)
        rw [h] at this
        exact absurd this (by simp)
    | cons p2 ps2 =>
      obtain ⟨l2, t2⟩ := p2
      obtain ⟨hl2, hlf2, hn2, hw2⟩ := h2
      simp only [render] at h
      by_cases ht1 : t1 = .none
      · -- the first decomposition ends here: no line feed in the whole text
        obtain ⟨_, hps1⟩ := hn1 ht1
        subst ht1; subst hps1
        by_cases ht2 : t2 = .none
        · obtain ⟨_, hps2⟩ := hn2 ht2
          subst ht2; subst hps2
          simp [tchars, render] at h
          rw [h]
        · have := nl_mem_piece nl cr l2 t2 ht2 (render nl cr ps2)
          rw [← h] at this
          simp [tchars, render] at this
          exact absurd this hl1
      · by_cases ht2 : t2 = .none
        · obtain ⟨_, hps2⟩ := hn2 ht2
          subst ht2; subst hps2
          have := nl_mem_piece nl cr l1 t1 ht1 (render nl cr ps1)
          rw [h] at this
          simp [tchars, render] at this
          exact absurd this hl2
        · obtain ⟨a1, ha1, e1, s1⟩ := piece_shape nl cr hne l1 t1 ht1 hl1 (render nl cr ps1)
          obtain ⟨a2, ha2, e2, s2⟩ := piece_shape nl cr hne l2 t2 ht2 hl2 (render nl cr ps2)
          rw [e1, e2] at h
          obtain ⟨ea, er⟩ := first_nl nl a1 a2 _ _ ha1 ha2 h
          have hrest : ps1 = ps2 := ih ps2 hw1 hw2 er
          rcases s1 with ⟨t1e, a1e⟩ | ⟨t1e, a1e⟩ <;> rcases s2 with ⟨t2e, a2e⟩ | ⟨t2e, a2e⟩
          · subst t1e; subst t2e; rw [a1e, a2e] at ea; rw [ea, hrest]
          · -- lf against crlf: the lf line would end in cr
            subst t1e; rw [a1e, a2e] at ea
            exact absurd (ea ▸ getLast_snoc l2 cr) (hlf1 rfl)
          · subst t2e; rw [a1e, a2e] at ea
            exact absurd (ea ▸ getLast_snoc l1 cr) (hlf2 rfl)
          · subst t1e; subst t2e; rw [a1e, a2e] at ea
            have : l1 = l2 := List.append_cancel_right ea
            rw [this, hrest]

end

#print axioms first_nl
#print axioms L1_unique
#check @L1_unique

"""C01: generated C serializers emit exactly the DSDL wire representation (per program, E-C + SPEC)."""
import shutil

from vk import report, smt
from props import perprogram as PP
from props.common import parse_args

PROP = "C01"
KINDS = ("post", "pre", "assert")  # a firing NUNAVUT_ASSERT aborts the codec: part of the functional contract when asserts are generated


def cpp_bounded(run, prop, direction, args):
    """C++ leg: NOT under contract.  Bounded stand-in (never counted as proved): the generated C++ codecs of every corpus
    type, built with ASan/UBSan, against the independent reference codec of contracts/pp_ref.py on boundary and
    pseudo-random inputs."""
    import concurrent.futures
    import pathlib
    import tempfile
    import pydsdl
    from contracts import pp_ref
    from vk import render
    stds = ["c++14"] + (["c++17", "c++20"] if args.tier == "thorough" else [])
    n_cases = 60 if args.tier != "thorough" else 200
    for std in stds:
        work = pathlib.Path(tempfile.mkdtemp(prefix="vk_cpp_"))
        try:
            render.render_types("cpp", PP.CORPUS / "vk", work, {"std": std})
            types = PP.flatten_types(pydsdl.read_namespace(str(PP.CORPUS / "vk"), []))
            jobs = [(t, d) for t in sorted(types, key=str) for d in direction]
            with concurrent.futures.ThreadPoolExecutor(max_workers=12) as ex:
                results = list(ex.map(lambda j: (j, pp_ref.witness_cpp(j[0], work, std, j[1], n_cases)), jobs))
            total = 0
            bad = []
            for (t, d), (w, n) in results:
                total += n
                if w is None:
                    continue
                if "harness_error" in w:
                    run.undecide(f"[{std}] C++ harness for {t} ({d}): {w['harness_error'][:300]}")
                    continue
                bad.append((t, d, w))
            run.add_bounded(f"native [{std}]: generated C++ {'/'.join(direction)} codecs == reference codec (ASan/UBSan)", f"{len(types)} corpus types x {n_cases} inputs per direction (boundary + pseudo-random, exactly-sized heap buffers)",
                            total, not bad, "" if not bad else f"{bad[0][0]} {bad[0][1]}: {str(bad[0][2]['input'])[:200]}: {bad[0][2]['why'][:300]}")
            for t, d, w in bad:
                run.fail(report.Failure(f"native[{std}]:{t}#{'serialize' if d == 'ser' else 'deserialize'}-c++-agrees-with-the-specification", "post",
                                        f"generated C++ ({std}) for {t}: {str(w['input'])[:300]}: {w['why'][:500]}", {"witness": w}, True))
        finally:
            shutil.rmtree(work, ignore_errors=True)


def py_bounded(run, prop, direction, args):
    """Python leg: the codecs are NOT under contract.  Bounded stand-in (never counted as proved): the generated Python
    (de)serializers of every corpus type, executed in the overlay interpreter (NumPy from the offline wheelhouse), against
    the independent reference codec of contracts/pp_ref.py."""
    import pathlib
    import tempfile
    import pydsdl
    from contracts import py_leg
    from vk import render
    n_cases = 200 if args.tier != "thorough" else 2000
    work = pathlib.Path(tempfile.mkdtemp(prefix="vk_py_"))
    try:
        render.render_types("py", PP.CORPUS / "vk", work, {})
        types = sorted(PP.flatten_types(pydsdl.read_namespace(str(PP.CORPUS / "vk"), [])), key=str)
        for d in direction:
            try:
                bad, total, err = py_leg.witness_py(types, work, d, n_cases)
            except Exception as ex:  # the stand-in could not run: undecided, never a violation
                run.undecide(f"Python harness ({d}): {type(ex).__name__}: {str(ex)[:300]}")
                continue
            if err:
                run.undecide(f"Python harness ({d}): {err[:400]}")
                continue
            run.add_bounded(f"native [py]: generated Python {'serializers' if d == 'ser' else 'deserializers'} == reference codec (CPython 3.12 + NumPy)",
                            f"{len(types)} corpus types x {n_cases} inputs (boundary + pseudo-random objects / byte strings incl. truncations, bit flips, fragmented input)",
                            total, not bad, "" if not bad else f"{bad[0][0]}: {str(bad[0][1]['input'])[:200]}: {bad[0][1]['why'][:300]}")
            for t, w in bad:
                run.fail(report.Failure(f"native[py]:{t}#{'serialize' if d == 'ser' else 'deserialize'}-python-agrees-with-the-specification", "post",
                                        f"generated Python for {t}: {str(w['input'])[:300]}: {w['why'][:500]}", {"witness": w}, True))
    finally:
        shutil.rmtree(work, ignore_errors=True)


def py_proof(run, prop, args):
    """Python codecs UNDER CONTRACT (serializers for C01, deserializers for C02).  Serializers: Python serializers UNDER CONTRACT (props/pyprog.py): the real generated `_serialize_` of every corpus type and every
    shape (array lengths, union options), E-PY against Enc_T derived from the pydsdl model, with the support-library
    primitives replaced by their C14 contracts."""
    import multiprocessing
    import pathlib
    import tempfile
    import pydsdl
    from contracts import py_leg
    from props import pyprog
    from props.common import SRC
    from vk import render
    work = pathlib.Path(tempfile.mkdtemp(prefix="vk_pyp_"))
    try:
        render.render_types("py", PP.CORPUS / "vk", work, {})
        lang = py_leg.py_lang()
        types = sorted(PP.flatten_types(pydsdl.read_namespace(str(PP.CORPUS / "vk"), [])), key=str)
        jobs = []
        direction = "ser" if prop == "C01" else "des"
        outside = {}
        for i, t in enumerate(types):
            m, c = py_leg.mod_cls(lang, t)
            text = (work / (m.replace(".", "/") + ".py")).read_text()
            try:
                cases = pyprog.cases_of(t, direction, 300 if args.tier != "thorough" else 3000)
            except pyprog.NotInSubset as ex:
                outside[str(t)] = f"not in the subset: {ex}"
                continue
            for sh, inv in cases:
                jobs.append((i, direction, sh, inv, str(PP.CORPUS / "vk"), t.full_name, (t.version.major, t.version.minor), text, m, c, str(SRC)))
        with multiprocessing.get_context("fork").Pool(14) as pool:
            out = pool.map(pyprog.generate_case, jobs, chunksize=1)
    finally:
        shutil.rmtree(work, ignore_errors=True)
    obs = []
    per_type = {}
    for idx, target, o, info, kind, err in out:
        t = types[idx]
        d = per_type.setdefault(str(t), {"cases": 0, "obs": 0, "returns": 0, "outside": [], "assumed": set()})
        if kind == "outside":
            d["outside"].append(err)
            continue
        if kind == "undecided":
            run.undecide(f"py:{t}: {err[:300]}")
            continue
        d["cases"] += 1
        d["obs"] += len(o)
        d["returns"] += info.get("returns", 0) + (info.get("raises", 0) if direction == "des" else 0)
        d["assumed"].update(info.get("assumed", []))
        if len(o) + info.get("trivial", 0) == 0:
            run.undecide(f"py:{t}: a case generated no obligation (vacuity guard)")
        for x in o:
            x.name = "py:" + x.name
        obs.extend(o)
    for tn, d in sorted(per_type.items()):
        if d["cases"]:
            if d["returns"] == 0:
                run.undecide(f"py:{tn}: no path reaches an exit (vacuity guard)")
            run.add_function(f"generated Python {tn}.{'_serialize_' if prop == 'C01' else '_deserialize_'} ({d['cases']} shapes/cases, {d['obs']} obligations)")
            for a in sorted(d["assumed"]):
                run.assume("py: " + a)
        if d["outside"]:
            outside[tn] = f"{len(d['outside'])} of {d['cases'] + len(d['outside'])} shapes/cases: {d['outside'][0]}"
    res = smt.solve_all_batched(obs)
    run.add_results(res)
    run.notes["python_serializers_not_under_contract" if prop == "C01" else "python_deserializers_not_under_contract"] = outside
    run.assume("py: contracts of the Serializer/Deserializer primitives (proved under C14 for every bit length and cursor position); ASSUMED contracts of the NumPy/struct based primitives "
               "(add_/fetch_*_array_of_standard_bit_length_primitives, *_array_of_bits, *_f16/f32/f64: they place / read the elements' and the packed float's bits at the cursor); "
               "deserializers: the generated constructors as ASSUMED from C18 (a value outside the DSDL range or an over-long array raises ValueError, otherwise it is stored); each shape's "
               "contract is conditioned on the input's length prefixes / union tags taking that shape's values, and every prefix/tag beyond its bound must raise FormatError",
               "py: data-object invariant of `self` (scalar integers within the DSDL range, finite float16/float32 scalars within the type's range, array elements within the NumPy element type): "
               "established by the generated setters (C18)")
    seen = set()
    for r in res:
        if r.ok:
            continue
        base = r.ob.name.split("/p")[0]
        tname = r.ob.name.split("[", 1)[1].split("]")[0].split("{")[0] if "[" in r.ob.name else ""
        if base in seen:
            continue
        seen.add(base)
        if any(f.obligation.startswith(f"native[py]:{tname}#") for f in run.failures):
            continue  # the native run already reports this type with a replayed failing input
        if r.status == "sat":
            run.fail(report.Failure(base, r.ob.kind, f"{r.ob.name} not discharged (sat); model {dict(list(r.model.items())[:8])}", {"model": r.model, "solver_output": r.raw[:2000], "smt2": r.ob.smt2()}, False))


def main(prop=PROP, direction=("ser",), kinds=KINDS, title="serializers", extra=None):
    args = parse_args(prop)
    run = report.Run(prop, "proof", f"./check {prop}", args.tier)
    # target_endianness=little selects the memmove fast paths of the templates: part of the every-change tier
    variants = [("any+asserts", {"enable_serialization_asserts": True}), ("any", {}), ("little", {"target_endianness": "little"})]
    if prop == "C04" or args.tier == "thorough":
        # the documented per-field capacity override with user-reduced capacities (named in C04's quantifier)
        variants.append(("override", {"enable_override_variable_array_capacity": True, "__override__": True}))
    if args.tier == "thorough":
        variants += [("little+asserts", {"enable_serialization_asserts": True, "target_endianness": "little"}), ("big", {"target_endianness": "big"})]
    n_all = 0
    for label, opts in variants:
        obs = PP.collect(run, opts, label, direction)
        n_all += len(obs)
        mine = [o for o in obs if o.kind in kinds]
        res = smt.solve_all(mine)
        run.add_results(res)
        PP.report_failures(run, res, label)
        shutil.rmtree(PP._STATE.get("workdir", "/nonexistent"), ignore_errors=True)
    import os
    proof_only = os.environ.get("VK_PROOF_ONLY") == "1"  # experiments only (which leg catches a seeded change): never set by a registered command
    if not proof_only:
        cpp_bounded(run, prop, direction, args)
    if prop in ("C01", "C02") and not proof_only:
        py_bounded(run, prop, direction, args)
    if prop in ("C01", "C02"):
        py_proof(run, prop, args)
    tpls = tuple(t for d, t in (("ser", "serialization.j2"), ("des", "deserialization.j2")) if d in direction)
    PP.template_error_guards(run, tpls)
    if prop in ("C01", "C02"):  # the same template-level obligation for the codecs that are not under contract
        PP.template_error_guards(run, tpls, "cpp")
        PP.template_error_guards(run, tpls, "py")
    if extra is not None:
        extra(run)
    run.notes["obligations_generated_all_kinds"] = n_all
    run.notes["obligation_kinds_reported_here"] = list(kinds)
    run.trust("clang 14 typed AST of the rendered headers (-Wall -Wextra -Werror)", "z3 4.8.12 / 5.1.0", "E-C semantics (vk/ec.py)", "SPEC (vk/spec.py): reading of the Cyphal DSDL specification",
              "contracts of the support library functions (proved separately under C14)")
    run.assume("per program: proved for all values/contents of each corpus program; the programs (DSDL types) are a fixed corpus written to cover every template branch it can (corpus/vk)",
               "struct members are bound to DSDL fields by position; C bool objects hold 0 or 1; union members are disjoint objects",
               "the C++ and Python codecs are not under contract here; both are covered by bounded differential stand-ins only (generated code executed against an independent reference codec)")
    run.explanation = (f"generated C {title} of {len(run.notes.get('programs', {}).get(variants[0][0], []))} corpus types, every array-length/union-tag shape and null-argument variant, "
                       "executed symbolically against contracts derived from the wire specification")
    return run.finish()


if __name__ == "__main__":
    report.main_wrapper(main)

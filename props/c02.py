"""C02: generated C deserializers decode every byte string as the specification prescribes (per program)."""
from vk import report
from props import c01


def main():
    return c01.main("C02", ("des",), ("post", "pre", "assert"), "deserializers")


if __name__ == "__main__":
    report.main_wrapper(main)

"""C03: round trip and cross-option agreement, as lemmas over the wire specification that C01/C02 prove the code equal to.

Per corpus type and per valid shape:  Dec_T(Enc_T(x)) == cast_T(x),  |Enc_T(x)| is the decoder's end position and lies in
pydsdl's bit-length set,  Enc_T(cast_T(x)) == Enc_T(x).  Agreement of the option variants follows because every variant
was proved equal to the same Enc_T / Dec_T (C01/C02): recorded as a derivation over their evidence files."""
import json
import pathlib
import shutil
import tempfile

import pydsdl

from vk import ec, report, smt, spec
from vk.ec import Eq, Not, Ite, app, bvlit
from contracts import c14_c as K14
from props import perprogram as PP
from props.common import parse_args

PROP = "C03"


def cast_storage(ws: spec.WireSpec, dt, v):
    """cast_T on one primitive, as the value the decoder must produce in the storage type"""
    n = dt.bit_length
    bits, w = ws.cast_bits(dt, v)
    if isinstance(dt, pydsdl.BooleanType):
        return ("bits", bits)
    if isinstance(dt, pydsdl.UnsignedIntegerType):
        sw = v.ct.width
        if n < sw:
            return ("bits", f"(bvand {bits} {bvlit((1 << n) - 1, sw)})")  # truncation keeps the low n bits; saturation already fits
        return ("bits", bits)
    if isinstance(dt, pydsdl.SignedIntegerType):
        return ("bits", bits)  # saturated into range: sign-extending the low n bits gives it back
    if isinstance(dt, pydsdl.FloatType):
        if n == 16:
            return ("f16", bits)
        return ("bits", bits)
    raise ec.COutOfSubset(str(dt))


def lemmas_for(eng, binder, t):
    obs = []
    name = spec.c_type_name(t)
    fn = eng.functions[name + "_serialize_"]
    c = eng.contracts[name + "_serialize_"]
    for shape in spec.enumerate_shapes(binder, t):
        if "__invalid__" in shape:
            continue
        xp = ec.Explorer()

        def one_path():
            ex = ec.Exec(eng, xp, fn, c)
            ex.fname = f"SPEC[{name}]"
            root = ex.new_struct_root("x")
            ex.param_roots.add(root)
            PP.apply_shape(ex, binder, t, root, shape)
            buf = ex.new_region("wire", "4096")
            ws = spec.WireSpec(ex, binder)
            for r in PP.bool_leaf_requirements(ws, binder, t, spec.Obj(root), shape):
                ex.assume(r)
            mem2, nbits, err = ws.enc(t, spec.Obj(root), buf.mem, 0, shape)
            if err is not None:
                ex.prove("false", "lemma", "valid-shape-encodes")
                return
            label = PP.shape_label(shape)
            bls = (t.inner_type if isinstance(t, pydsdl.DelimitedType) else t).bit_length_set
            ex.prove("true" if nbits in set(bls) else "false", "lemma", f"[{label}]length-in-bit-length-set")
            ex.xp.trivial -= 1 if nbits in set(bls) else 0
            obs_before = len(xp.obligations)
            dec = spec.WireDecoder(ex, binder, mem2, K14.zx_read).decode(t, spec.Obj(root), 0, str(nbits // 8))
            if dec.error is not None:
                ex.prove("false", "lemma", f"[{label}]Dec(Enc(x))-is-not-an-error")
                return
            ex.prove(Eq(str(dec.end), str(nbits)), "lemma", f"[{label}]decoder-consumes-exactly-the-encoding")
            for o, ct, idx, (kind, term) in dec.values:
                dt = dec.dtypes.get((o.path, idx))
                nm = ".".join(o.path) + (f"[{idx}]" if ct.kind == "array" else "")
                if dt is None:
                    # counts and tags: the shape's literal
                    want = shape.get(o.path)
                    if want is None:
                        continue
                    got = term if kind == "int" else f"(bv2nat {term})"
                    ex.prove(Eq(got, str(want)), "lemma", f"[{label}]Dec(Enc(x)).{nm}==shape")
                    continue
                v = ws.load(o, ct, idx)
                k2, want = cast_storage(ws, dt, v)
                ex.prove(Eq(term, want), "lemma", f"[{label}]Dec(Enc(x)).{nm}==cast(x).{nm}", "fp" if isinstance(dt, pydsdl.FloatType) else None)
            for o, ct, bit_idx, cond in dec.bits:
                src = ws.bytes_mem(o, ct)
                ex.prove(Eq(cond, Eq(src.bit(str(bit_idx)), "#b1")), "lemma", f"[{label}]Dec(Enc(x)).{'.'.join(o.path)}[bit {bit_idx}]")

        try:
            xp.run(one_path)
        except (ec.COutOfSubset, ec.CBindingError) as ex:
            raise
        obs.extend(xp.obligations)
    return obs


def main():
    args = parse_args(PROP)
    run = report.Run(PROP, "proof", "./check C03", args.tier)
    work = pathlib.Path(tempfile.mkdtemp(prefix="vk_c03_"))
    try:
        types = PP.flatten_types(PP.render_corpus(work, {}))
        eng, binder = PP.build_engine(work, types)
    finally:
        shutil.rmtree(work, ignore_errors=True)
    for tt in types:
        eng.contracts[spec.c_type_name(tt) + "_serialize_"] = PP.serialize_contract(binder, tt, None)
    obs = []
    for t in types:
        try:
            o = lemmas_for(eng, binder, t)
        except (ec.COutOfSubset, ec.CBindingError) as ex:
            run.undecide(f"SPEC[{spec.c_type_name(t)}]: {ex}")
            continue
        run.add_function(f"SPEC lemmas for {spec.c_type_name(t)} ({len(o)} obligations)")
        obs.extend(o)
    res = smt.solve_all(obs)
    run.add_results(res)
    # derivation: the code-level statements rest on C01 and C02 (same SPEC); undecided there => undecided here
    here = pathlib.Path(__file__).resolve().parent.parent / "evidence"
    premises = {}
    for pid in ("C01", "C02"):
        try:
            e = json.loads((here / f"{pid}.json").read_text())
            cov = e["coverage"]
            premises[pid] = {"obligations": cov.get("obligations"), "discharged": cov.get("discharged"), "violations": e.get("violations"), "tier": e.get("tier"),
                             "variants": list((cov.get("programs") or {}).keys())}
        except Exception:
            premises[pid] = None
    run.notes["premises_from_other_checks"] = premises
    run.notes["derivation"] = ("C01: every option variant's T_serialize_ == Enc_T; C02: every variant's T_deserialize_ == Dec_T; lemmas here: Dec_T(Enc_T(x)) == cast_T(x) and "
                               "length facts.  Hence: decode(encode(x)) == cast(x) for the generated C, identical bytes/values across the verified option variants.")
    # Python leg (bounded, never counted as proved): the generated Python round trip, executed natively
    from contracts import py_leg
    from vk import render
    pw = pathlib.Path(tempfile.mkdtemp(prefix="vk_c03py_"))
    try:
        render.render_types("py", PP.CORPUS / "vk", pw, {})
        try:
            bad, n, err = py_leg.roundtrip_py(sorted(types, key=str), pw, 100 if args.tier != "thorough" else 1500)
        except Exception as ex:  # the stand-in must never turn into a verdict by crashing
            bad, n, err = [], 0, f"{type(ex).__name__}: {ex}"
    finally:
        shutil.rmtree(pw, ignore_errors=True)
    if err:
        run.undecide(f"Python round-trip stand-in: {err[:300]}")
    else:
        run.add_bounded("native [py]: serialize -> deserialize -> serialize with the generated Python: identical bytes, decoded value == cast-mode adjusted value",
                        f"{len(types)} corpus types x boundary + pseudo-random objects (array elements outside the DSDL range, non-finite floats)", n, not bad,
                        "" if not bad else f"{bad[0][0]}: {bad[0][1]['why'][:300]}")
        for t, w in bad:
            run.fail(report.Failure(f"native[py]:{t}#python-round-trip", "post", f"generated Python for {t}: {str(w['input'])[:300]}: {w['why'][:500]}", {"witness": w}, True))
    run.notes["cross_target_derivation"] = ("C: every option variant proved equal to Enc_T/Dec_T (C01/C02). C++ (c++14; c++17/20 in the thorough tier) and Python: generated codecs executed against the "
                                            "independent reference codec in the bounded legs of C01/C02, which itself agrees with the proved C code on every corpus type. Hence identical bytes/values across "
                                            "targets on everything explored; unbounded only for the C target.")
    run.trust("z3", "SPEC (vk/spec.py)", "C01 and C02 (premises; their evidence files are read, not re-proved here)")
    run.assume("the cross-target clause is decided deductively for the C target's option variants only; C++ and Python agree with the specification on the bounded inputs of C01/C02 (stand-ins); "
               "the C++ allocator/container options are not reached")
    run.explanation = "round trip and option independence as lemmas over the specification functions that the per-program contracts use"
    return run.finish()


if __name__ == "__main__":
    report.main_wrapper(main)

"""C04: generated C codecs are memory safe, total and free of prior-state influence (safety obligations of the same
symbolic executions as C01/C02), including the documented per-field capacity override with user-reduced capacities."""
import pathlib
import shutil
import subprocess
import tempfile

from vk import render, report
from props import c01
from props import perprogram as PP


def override_buffer_check_witness():
    """With the capacity-override option and a user override, the generated serializer has NO buffer-size check (the
    option documents this).  The override variant above is therefore proved under the precondition that the caller
    supplies at least the maximum size; this native run shows what happens otherwise (ASan, exactly-sized heap buffer)."""
    work = pathlib.Path(tempfile.mkdtemp(prefix="vk_c04o_"))
    try:
        render.render_types("c", PP.CORPUS / "vk", work / "out", {"enable_override_variable_array_capacity": True})
        (work / "t.c").write_text(
            '#define vk_inner_InnerD_1_0_q_ARRAY_CAPACITY_ 1U\n#include "vk/inner/InnerD_1_0.h"\n#include <stdlib.h>\n#include <stdio.h>\n'
            "int main(void) {\n  vk_inner_InnerD_1_0 o; o.p = 1; o.q.count = 1; o.q.elements[0] = 2;\n  uint8_t* buf = malloc(1); size_t sz = 1;\n"
            '  int8_t rc = vk_inner_InnerD_1_0_serialize_(&o, buf, &sz);\n  printf("rc=%d\\n", rc); free(buf); return 0;\n}\n')
        c = subprocess.run(["clang", "-std=c11", "-g", "-fsanitize=address,undefined", "-fno-sanitize-recover=all", "-I", str(work / "out"), str(work / "t.c"), "-o", str(work / "t")],
                           capture_output=True, text=True)
        if c.returncode != 0:
            return {"harness_error": c.stderr[:500]}
        r = subprocess.run([str(work / "t")], capture_output=True, text=True)
        if r.returncode != 0 and "heap-buffer-overflow" in r.stderr:
            return {"input": "InnerD{p=1,q=[2]} serialized into a 1-byte heap buffer, vk_inner_InnerD_1_0_q_ARRAY_CAPACITY_=1U",
                    "why": "heap-buffer-overflow (WRITE) in the generated serializer instead of -NUNAVUT_ERROR_SERIALIZATION_BUFFER_TOO_SMALL", "asan": r.stderr[:1500]}
        return None if "rc=-" in r.stdout else {"harness_error": f"unexpected outcome: {r.stdout[:100]} {r.stderr[:300]}"}
    finally:
        shutil.rmtree(work, ignore_errors=True)


def extra(run):
    w = override_buffer_check_witness()
    name = "override:vk_inner_InnerD_1_0_serialize_#undersized-buffer-is-refused"
    if w is None:
        run.add_check(name, True, "native ASan run", 0, "refused with an error code")
    elif "harness_error" in w:
        run.undecide(f"{name}: harness: {w['harness_error']}")
    else:
        run.add_check(name, False, "native ASan run", 0, w["why"])
        run.fail(report.Failure(name, "safety", f"{w['input']}: {w['why']}", {"witness": w}, True))
    run.assume("override variant: every variable-length array field of non-boolean elements with capacity > 1 is overridden to capacity - 1; the serializers of that variant are proved under the "
               "precondition 8*capacity_bytes >= max bits, because the option removes the buffer-size check (documented; see the known finding)")


def main():
    return c01.main("C04", ("ser", "des"), ("safety", "assert", "frame", "variant", "pre"), "serializers and deserializers (safety/frame obligations)", extra=extra)


if __name__ == "__main__":
    report.main_wrapper(main)

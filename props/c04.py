"""C04: generated C codecs are memory safe, total and free of prior-state influence (safety obligations of the same
symbolic executions as C01/C02)."""
from vk import report
from props import c01


def main():
    return c01.main("C04", ("ser", "des"), ("safety", "assert", "frame", "variant", "pre"), "serializers and deserializers (safety/frame obligations)")


if __name__ == "__main__":
    report.main_wrapper(main)

"""C05: exported size bounds and type metadata.

 A. E-PY contracts on the filters that print numbers (bits2bytes_ceil, C/C++ filter_literal integer and boolean branches).
 B. E-J: verification conditions over the expressions the real templates print after each metadata name, for ALL types:
    value == the pydsdl attribute the property names, under the stated pydsdl model invariants.
 C. per program (corpus/vkm + corpus/vk): every exported constant of the rendered C header, C++ header and Python module
    is compared with the value computed from the pydsdl model -- by clang's constant evaluator (_Static_assert /
    static_assert in a probe translation unit including the real header) and by evaluating the class-level constant
    expressions of the generated Python module's AST.
 D. per program (corpus/vk): the serializer contracts of C01 (result == -BUFFER_TOO_SMALL iff 8*capacity < max bits,
    otherwise success with size_out == |Enc(x)|/8, buffer untouched on refusal) -- together with C's
    `8*SERIALIZATION_BUFFER_SIZE_BYTES_ >= max bits` from part C this is the sufficiency/refusal clause.
"""
import ast
import fractions
import math
import pathlib
import re
import shutil
import subprocess
import tempfile
import time
import typing

import pydsdl

from vk import driver, efx, ej, epy, render, report, smt, spec
from contracts import c05 as K
from props import perprogram as PP
from props.common import SRC, parse_args

PROP = "C05"
CORPUS = pathlib.Path(__file__).resolve().parent.parent / "corpus"
FORMATS = {16: (11, -14), 32: (24, -126), 64: (53, -1022)}  # precision incl. hidden bit, minimum normal exponent


# ---------------------------------------------------------------------------------------------------------------------
# SPEC side: values from the pydsdl model
# ---------------------------------------------------------------------------------------------------------------------
def round_to_format(fr: fractions.Fraction, bits: int) -> typing.Tuple[fractions.Fraction, fractions.Fraction]:
    """(exact rational rounded to nearest-even in IEEE binary<bits>, unit in the last place at that value)"""
    p, emin = FORMATS[bits]
    if fr == 0:
        return fractions.Fraction(0), fractions.Fraction(2) ** (emin - p + 1)
    a = abs(fr)
    e = a.numerator.bit_length() - a.denominator.bit_length()
    while fractions.Fraction(2) ** e > a:
        e -= 1
    while fractions.Fraction(2) ** (e + 1) <= a:
        e += 1
    e = max(e, emin)
    q = fractions.Fraction(2) ** (e - p + 1)
    n = a / q
    fl = n.numerator // n.denominator
    rem = n - fl
    if rem > fractions.Fraction(1, 2) or (rem == fractions.Fraction(1, 2) and fl % 2 == 1):
        fl += 1
    r = fl * q
    return (r if fr > 0 else -r), q


def hexfloat(fr: fractions.Fraction) -> str:
    f = float(fr)
    if fractions.Fraction(f) != fr:
        raise ValueError(f"bound {fr} is not a double")
    return f.hex()


DBL_MAX = fractions.Fraction(2) ** 1024 - fractions.Fraction(2) ** 971


def int_assert(m: str, v: int) -> str:
    if v >= 0:
        return f"((({m}) > 0) || ({v} == 0)) && ((({m}) < 0) == 0) && ((unsigned long long)({m}) == {v}ULL)"
    return f"(({m}) < 0) && ((unsigned long long)(-(({m}) + 1)) == {-v - 1}ULL)"


def const_assert(m: str, c: pydsdl.Constant) -> typing.Tuple[str, str]:
    """(C/C++ constant expression that is true iff the exported constant has the DSDL value, description)"""
    dt, v = c.data_type, c.value.native_value
    if isinstance(dt, pydsdl.BooleanType):
        return f"(({m}) == {1 if v else 0})", f"== {bool(v)}"
    if isinstance(dt, pydsdl.IntegerType):
        return int_assert(m, int(v)), f"== {int(v)}"
    if isinstance(dt, pydsdl.FloatType):
        r, ulp = round_to_format(fractions.Fraction(v), dt.bit_length)
        lo, hi = max(r - ulp, -DBL_MAX), min(r + ulp, DBL_MAX)
        return f"(({m}) >= {hexfloat(lo)}) && (({m}) <= {hexfloat(hi)})", f"within one ulp(binary{dt.bit_length}) of {float(r)!r}"
    raise ValueError(f"constant of type {dt}")


def composites(types) -> typing.List[typing.Tuple[typing.Any, typing.Any]]:
    """(top-level type, composite to describe): services contribute request and response"""
    out = []
    for t in types:
        if isinstance(t, pydsdl.ServiceType):
            out += [(t, t.request_type), (t, t.response_type)]
        else:
            out.append((t, t))
    return out


def max_bits(t) -> int:
    return max((t.inner_type if isinstance(t, pydsdl.DelimitedType) else t).bit_length_set)


def c_ref(t) -> str:
    return spec.c_type_name(t)


def cpp_ref(t) -> str:
    parts = t.full_name.split(".")
    return "::".join(parts[:-1] + [f"{parts[-1]}_{t.version.major}_{t.version.minor}"])


# ---------------------------------------------------------------------------------------------------------------------
# part C: probes decided by clang's constant evaluator
# ---------------------------------------------------------------------------------------------------------------------
class Probe:
    def __init__(self, lang: str, header: str, std: str):
        self.lang, self.header, self.std = lang, header, std
        self.lines: typing.List[str] = [f'#include "{header}"']
        if lang == "cpp":
            self.lines.append("#include <tuple>")
        self.obl: typing.Dict[int, typing.Tuple[str, str]] = {}  # line number -> (obligation name, text)

    def add(self, name: str, expr: str, what: str):
        kw = "_Static_assert" if self.lang == "c" else "static_assert"
        self.lines.append(f'{kw}({expr}, "{name}");')
        self.obl[len(self.lines)] = (name, what)

    def run(self, incdir: pathlib.Path, workdir: pathlib.Path) -> typing.Tuple[typing.Dict[str, typing.Tuple[bool, str]], str, float]:
        src = workdir / ("probe_" + re.sub(r"\W", "_", self.header) + (".c" if self.lang == "c" else ".cpp"))
        src.write_text("\n".join(self.lines) + "\n")
        cc = ["clang", "-x", "c", f"-std={self.std}"] if self.lang == "c" else ["clang++", "-x", "c++", f"-std={self.std}"]
        t0 = time.time()
        p = subprocess.run(cc + ["-fsyntax-only", "-ferror-limit=0", "-fno-caret-diagnostics", "-I", str(incdir), str(src)], capture_output=True, text=True)
        dt = time.time() - t0
        bad: typing.Dict[int, str] = {}
        stray = []
        for line in p.stderr.splitlines():
            m = re.match(r"(.*?):(\d+):\d+: (?:fatal )?error: (.*)", line)
            if not m:
                continue
            if pathlib.Path(m.group(1)).name == src.name and int(m.group(2)) in self.obl:
                bad.setdefault(int(m.group(2)), m.group(3))
            else:
                stray.append(line)
        if stray:
            raise RuntimeError(f"clang rejected {self.header} or the probe outside an assertion:\n" + "\n".join(stray[:6]))
        if p.returncode != 0 and not bad:
            raise RuntimeError(f"clang failed without a located error:\n{p.stderr[:1500]}")
        return {nm: (ln not in bad, bad.get(ln, "")) for ln, (nm, _) in self.obl.items()}, src.read_text(), dt


def c_probes(types, std="c11") -> typing.List[Probe]:
    out = []
    by_header: typing.Dict[str, Probe] = {}
    for top, t in composites(types):
        header = "/".join(top.full_name.split(".")[:-1] + [f"{top.short_name}_{top.version.major}_{top.version.minor}.h"])
        pr = by_header.get(header)
        if pr is None:
            pr = by_header[header] = Probe("c", header, std)
            out.append(pr)
            tr = c_ref(top)
            tn = f"{top.full_name}.{top.version.major}.{top.version.minor}"
            if top.has_fixed_port_id:
                pr.add(f"{tn}#c:HAS_FIXED_PORT_ID_", f"({tr}_HAS_FIXED_PORT_ID_) == 1", "true")
                pr.add(f"{tn}#c:FIXED_PORT_ID_", int_assert(f"{tr}_FIXED_PORT_ID_", top.fixed_port_id), f"== {top.fixed_port_id}")
            else:
                pr.add(f"{tn}#c:HAS_FIXED_PORT_ID_", f"({tr}_HAS_FIXED_PORT_ID_) == 0", "false")
            if top is not t:
                for suffix, s in (("FULL_NAME_", top.full_name), ("FULL_NAME_AND_VERSION_", tn)):
                    pr.add(f"{tn}#c:{suffix}", f'sizeof({tr}_{suffix}) == {len(s) + 1} && __builtin_strcmp({tr}_{suffix}, "{s}") == 0', f'== "{s}"')
        r = c_ref(t)
        tn = f"{t.full_name}.{t.version.major}.{t.version.minor}"
        for suffix, s in (("FULL_NAME_", t.full_name), ("FULL_NAME_AND_VERSION_", tn)):
            pr.add(f"{tn}#c:{suffix}", f'sizeof({r}_{suffix}) == {len(s) + 1} && __builtin_strcmp({r}_{suffix}, "{s}") == 0', f'== "{s}"')
        pr.add(f"{tn}#c:EXTENT_BYTES_", int_assert(f"{r}_EXTENT_BYTES_", t.extent // 8), f"== {t.extent // 8}")
        mb = max_bits(t)
        pr.add(f"{tn}#c:SERIALIZATION_BUFFER_SIZE_BYTES_-suffices", f"(8ULL * ({r}_SERIALIZATION_BUFFER_SIZE_BYTES_) >= {mb}ULL)", f"8*size >= {mb} bits (largest serialized representation)")
        pr.add(f"{tn}#c:SERIALIZATION_BUFFER_SIZE_BYTES_-within-extent", f"(({r}_SERIALIZATION_BUFFER_SIZE_BYTES_) <= {t.extent // 8}ULL) && (({r}_SERIALIZATION_BUFFER_SIZE_BYTES_) >= 0)", f"<= extent {t.extent // 8}")
        for c in t.constants:
            e, what = const_assert(f"{r}_{c.name}", c)
            if isinstance(c.data_type, pydsdl.FloatType):
                continue  # floating comparisons are not integer constant expressions in C: decided in the C++ probe of the same header
            pr.add(f"{tn}#c:{c.name}", e, what)
        for f in t.fields_except_padding:
            if isinstance(f.data_type, pydsdl.ArrayType):
                pr.add(f"{tn}#c:{f.name}_ARRAY_CAPACITY_", int_assert(f"{r}_{f.name}_ARRAY_CAPACITY_", f.data_type.capacity), f"== {f.data_type.capacity}")
                var = isinstance(f.data_type, pydsdl.VariableLengthArrayType)
                pr.add(f"{tn}#c:{f.name}_ARRAY_IS_VARIABLE_LENGTH_", f"({r}_{f.name}_ARRAY_IS_VARIABLE_LENGTH_) == {1 if var else 0}", str(var))
        if isinstance(t.inner_type, pydsdl.UnionType):
            pr.add(f"{tn}#c:UNION_OPTION_COUNT_", int_assert(f"{r}_UNION_OPTION_COUNT_", len(t.fields)), f"== {len(t.fields)}")
    return out


def c_float_probes(types) -> typing.List[Probe]:
    """float constants of the C header, evaluated by clang++ over the same header (C forbids them in _Static_assert)"""
    out = []
    by_header: typing.Dict[str, Probe] = {}
    for top, t in composites(types):
        fl = [c for c in t.constants if isinstance(c.data_type, pydsdl.FloatType)]
        if not fl:
            continue
        header = "/".join(top.full_name.split(".")[:-1] + [f"{top.short_name}_{top.version.major}_{top.version.minor}.h"])
        pr = by_header.get(header)
        if pr is None:
            pr = by_header[header] = Probe("cpp", header, "c++14")
            out.append(pr)
        tn = f"{t.full_name}.{t.version.major}.{t.version.minor}"
        for c in fl:
            e, what = const_assert(f"{c_ref(t)}_{c.name}", c)
            pr.add(f"{tn}#c:{c.name}", e, what)
    return out


def cpp_probes(types, std: str) -> typing.List[Probe]:
    out = []
    by_header: typing.Dict[str, Probe] = {}
    for top, t in composites(types):
        header = "/".join(top.full_name.split(".")[:-1] + [f"{top.short_name}_{top.version.major}_{top.version.minor}.hpp"])
        pr = by_header.get(header)
        if pr is None:
            pr = by_header[header] = Probe("cpp", header, std)
            out.append(pr)
        r = cpp_ref(t)
        tn = f"{t.full_name}.{t.version.major}.{t.version.minor}"
        tr = f"{r}::_traits_"
        pr.add(f"{tn}#cpp:HasFixedPortID", f"{tr}::HasFixedPortID == {'true' if top.has_fixed_port_id else 'false'}", str(top.has_fixed_port_id))
        if top.has_fixed_port_id:
            pr.add(f"{tn}#cpp:FixedPortId", int_assert(f"{tr}::FixedPortId", top.fixed_port_id), f"== {top.fixed_port_id}")
        pr.add(f"{tn}#cpp:IsServiceType", f"{tr}::IsServiceType == {'true' if top is not t else 'false'}", str(top is not t))
        if top is not t:
            pr.add(f"{tn}#cpp:IsRequest", f"{tr}::IsRequest == {'true' if t is top.request_type else 'false'}", str(t is top.request_type))
            pr.add(f"{tn}#cpp:IsResponse", f"{tr}::IsResponse == {'true' if t is top.response_type else 'false'}", str(t is top.response_type))
        pr.add(f"{tn}#cpp:ExtentBytes", int_assert(f"{tr}::ExtentBytes", t.extent // 8), f"== {t.extent // 8}")
        mb = max_bits(t)
        pr.add(f"{tn}#cpp:SerializationBufferSizeBytes-suffices", f"(8ULL * {tr}::SerializationBufferSizeBytes >= {mb}ULL)", f"8*size >= {mb} bits")
        pr.add(f"{tn}#cpp:SerializationBufferSizeBytes-within-extent", f"({tr}::SerializationBufferSizeBytes <= {t.extent // 8}ULL)", f"<= extent {t.extent // 8}")
        for c in t.constants:
            e, what = const_assert(f"{r}::{c.name}", c)
            pr.add(f"{tn}#cpp:{c.name}", e, what)
        for f in t.fields_except_padding:
            if isinstance(f.data_type, pydsdl.FixedLengthArrayType) and not isinstance(f.data_type.element_type, pydsdl.BooleanType):
                pr.add(f"{tn}#cpp:{f.name}-fixed-array-size", f"std::tuple_size<{tr}::TypeOf::{f.name}>::value == {f.data_type.capacity}", f"== {f.data_type.capacity}")
        if isinstance(t.inner_type, pydsdl.UnionType):
            pr.add(f"{tn}#cpp:union-option-count", int_assert(f"{r}::VariantType::MAX_INDEX", len(t.fields)), f"== {len(t.fields)}")
    return out


def _const_eval(node: ast.AST):
    """evaluate a class-level constant expression of a generated Python module (numbers, unary minus, + - * /)"""
    if isinstance(node, ast.Constant) and isinstance(node.value, (int, float, bool)):
        return node.value
    if isinstance(node, ast.UnaryOp) and isinstance(node.op, (ast.USub, ast.UAdd)):
        v = _const_eval(node.operand)
        return -v if isinstance(node.op, ast.USub) else v
    if isinstance(node, ast.BinOp) and isinstance(node.op, (ast.Add, ast.Sub, ast.Mult, ast.Div, ast.FloorDiv)):
        a, b = _const_eval(node.left), _const_eval(node.right)
        return {ast.Add: lambda: a + b, ast.Sub: lambda: a - b, ast.Mult: lambda: a * b, ast.Div: lambda: a / b, ast.FloorDiv: lambda: a // b}[type(node.op)]()
    raise ValueError("not a constant expression: " + ast.unparse(node))


def py_checks(types, outdir: pathlib.Path) -> typing.List[typing.Tuple[str, bool, str, str]]:
    """(name, ok, detail, source line) for the class-level metadata of the generated Python modules"""
    res = []
    for top, t in composites(types):
        path = outdir.joinpath(*top.full_name.split(".")[:-1], f"{top.short_name}_{top.version.major}_{top.version.minor}.py")
        tree = ast.parse(path.read_text())
        cls_path = [f"{top.short_name}_{top.version.major}_{top.version.minor}"] + ([t.short_name] if top is not t else [])
        body = tree.body
        node = None
        for nm in cls_path:
            node = next((n for n in body if isinstance(n, ast.ClassDef) and n.name == nm), None)
            if node is None:
                break
            body = node.body
        tn = f"{t.full_name}.{t.version.major}.{t.version.minor}"
        if node is None:
            res.append((f"{tn}#py:class", False, f"class {'.'.join(cls_path)} not found in {path.name}", ""))
            continue
        attrs: typing.Dict[str, ast.AST] = {}
        for n in node.body:
            if isinstance(n, ast.Assign) and len(n.targets) == 1 and isinstance(n.targets[0], ast.Name):
                attrs[n.targets[0].id] = n.value
            elif isinstance(n, ast.AnnAssign) and isinstance(n.target, ast.Name) and n.value is not None:
                attrs[n.target.id] = n.value

        def check(name, attr, pred, what):
            if attr not in attrs:
                res.append((f"{tn}#py:{name}", False, f"{attr} is not a class-level constant of {'.'.join(cls_path)}", ""))
                return
            try:
                v = _const_eval(attrs[attr])
            except (ValueError, ZeroDivisionError, OverflowError) as ex:
                res.append((f"{tn}#py:{name}", False, f"{attr}: {ex}", ast.unparse(attrs[attr])))
                return
            res.append((f"{tn}#py:{name}", bool(pred(v)), f"{attr} = {ast.unparse(attrs[attr])} evaluates to {v!r}; expected {what}", ast.unparse(attrs[attr])))

        check("_EXTENT_BYTES_", "_EXTENT_BYTES_", lambda v: type(v) is int and v == t.extent // 8, f"{t.extent // 8}")
        if top.has_fixed_port_id:
            check("_FIXED_PORT_ID_", "_FIXED_PORT_ID_", lambda v: type(v) is int and v == top.fixed_port_id, f"{top.fixed_port_id}")
        else:
            ok = "_FIXED_PORT_ID_" not in attrs or (isinstance(attrs["_FIXED_PORT_ID_"], ast.Constant) and attrs["_FIXED_PORT_ID_"].value is None)
            res.append((f"{tn}#py:_FIXED_PORT_ID_", ok, "no fixed port-ID: attribute absent or None", ""))
        for c in t.constants:
            dt, v0 = c.data_type, c.value.native_value
            if isinstance(dt, pydsdl.BooleanType):
                check(c.name, c.name, lambda v, v0=v0: type(v) is bool and v == bool(v0), str(bool(v0)))
            elif isinstance(dt, pydsdl.IntegerType):
                check(c.name, c.name, lambda v, v0=v0: type(v) is int and v == int(v0), str(int(v0)))
            else:
                r, ulp = round_to_format(fractions.Fraction(v0), dt.bit_length)
                check(c.name, c.name, lambda v, r=r, ulp=ulp: isinstance(v, (int, float)) and not (isinstance(v, float) and (math.isinf(v) or math.isnan(v)))
                      and r - ulp <= fractions.Fraction(v) <= r + ulp, f"within one ulp(binary{dt.bit_length}) of {float(r)!r}")
    return res


def per_program(run, args):
    work = pathlib.Path(tempfile.mkdtemp(prefix="vk_c05_"))
    n = 0
    try:
        c_variants = [("c", {})] + ([("c+override-capacity", {"enable_override_variable_array_capacity": True})] if args.tier == "thorough" else [])
        cpp_variants = [("c++14", {"std": "c++14"})] + ([("c++17", {"std": "c++17"}), ("c++17-pmr", {"std": "c++17-pmr"}), ("c++20", {"std": "c++20"})] if args.tier == "thorough" else [])
        for ns in ("vkm", "vk"):
            types = pydsdl.read_namespace(str(CORPUS / ns), [], allow_unregulated_fixed_port_id=True)
            jobs: typing.List[typing.Tuple[str, pathlib.Path, typing.List[Probe]]] = []
            for label, opts in c_variants:
                out = work / f"{ns}_{label}"
                render.render_types("c", CORPUS / ns, out, opts)
                jobs.append((label, out, c_probes(types) + c_float_probes(types)))
            for label, opts in cpp_variants:
                out = work / f"{ns}_{label}"
                render.render_types("cpp", CORPUS / ns, out, opts)
                jobs.append((label, out, cpp_probes(types, opts["std"].replace("-pmr", ""))))
            for label, out, probes in jobs:
                for pr in probes:
                    try:
                        verdicts, text, dt = pr.run(out, work)
                    except RuntimeError as ex:
                        run.undecide(f"[{label}] {pr.header}: {ex}")
                        continue
                    for (name, what) in pr.obl.values():
                        ok, msg = verdicts[name]
                        n += 1
                        run.add_check(f"[{label}] {name}", ok, "clang constexpr", dt / max(1, len(pr.obl)), what)
                        if not ok:
                            gen = (out / pr.header).read_text()
                            key = name.split(":", 1)[1].split("-")[0]
                            lines = [l for l in gen.splitlines() if key in l][:4]
                            run.fail(report.Failure(f"[{label}] {name}", "post", f"{pr.header}: exported constant is not {what} ({msg[:160]}); generated: {' | '.join(x.strip() for x in lines)[:300]}",
                                                    {"probe": text, "clang": msg, "header": pr.header, "options": label, "generated_lines": lines}, True))
            out = work / f"{ns}_py"
            render.render_types("py", CORPUS / ns, out, {})
            for name, ok, detail, srcline in py_checks(types, out):
                n += 1
                run.add_check(f"[py] {name}", ok, "python constant expression evaluation (generated module AST)", 0, detail)
                if not ok:
                    run.fail(report.Failure(f"[py] {name}", "post", detail, {"generated": srcline, "detail": detail}, True))
    finally:
        shutil.rmtree(work, ignore_errors=True)
    run.notes["per_program_constant_obligations"] = n
    if n == 0:
        run.undecide("no per-program constant obligations generated (vacuity guard)")


# ---------------------------------------------------------------------------------------------------------------------
# part B: template expressions, all programs
# ---------------------------------------------------------------------------------------------------------------------
MODEL_INVARIANTS = [  # pydsdl model invariants (evaluated on every corpus type below; otherwise assumed)
    "(>= extent 0)", "(= (mod extent 8) 0)", "(>= inner_extent 0)", "(= (mod inner_extent 8) 0)", "(>= inner_max_bits 0)",
    "(>= inner_extent inner_max_bits)", "(>= extent inner_extent)", "(>= port 0)", "(>= capacity 0)", "(>= n_options 0)",
]
SYMS = {("extent",): ("Int", "extent"), ("inner_type", "extent"): ("Int", "inner_extent"), ("inner_type", "bit_length_set", "max"): ("Int", "inner_max_bits"),
        ("bit_length_set", "max"): ("Int", "inner_max_bits"),
        ("fixed_port_id",): ("Int", "port"), ("data_type", "capacity"): ("Int", "capacity")}
DECLS = [f"(declare-const {s} Int)" for s in ("extent", "inner_extent", "inner_max_bits", "port", "capacity", "n_options")]

TEMPLATE_OBLIGATIONS = [
    # (template, text before the expression, allowed root variables, goal over `v`, what, suffix regex the next text must match)
    ("lang/c/templates/definitions.j2", r"_EXTENT_BYTES_[ \t]+", {"t"}, "(= v (div extent 8))", "extent in bytes", r"U?L{0,2}\b"),
    ("lang/c/templates/definitions.j2", r"_SERIALIZATION_BUFFER_SIZE_BYTES_[ \t]+", {"t"}, "(and (>= (* 8 v) inner_max_bits) (<= (* 8 v) extent))", "covers the largest serialized representation, within the extent", r"U?L{0,2}\b"),
    ("lang/c/templates/definitions.j2", r"_ARRAY_CAPACITY_[ \t]+", {"f"}, "(= v capacity)", "array capacity", r"U?L{0,2}\b"),
    ("lang/c/templates/definitions.j2", r"_UNION_OPTION_COUNT_[ \t]+", {"t"}, "(= v n_options)", "number of union options", r"U?L{0,2}\b"),
    ("lang/c/templates/base.j2", r"_FIXED_PORT_ID_[ \t]+", {"T"}, "(= v port)", "fixed port-ID", r"U?L{0,2}\b"),
    ("lang/cpp/templates/_composite_type.j2", r"ExtentBytes[ \t]+=[ \t\n]*", {"composite_type"}, "(= v (div extent 8))", "extent in bytes", r"U?L{0,2}\b"),
    ("lang/cpp/templates/_composite_type.j2", r"SerializationBufferSizeBytes[ \t]+=[ \t\n]*", {"composite_type"}, "(and (>= (* 8 v) inner_max_bits) (<= (* 8 v) extent))", "covers the largest serialized representation, within the extent", r"U?L{0,2}\b"),
    ("lang/cpp/templates/_composite_type.j2", r"FixedPortId[ \t]+=[ \t]*", {"T"}, "(= v port)", "fixed port-ID", r"U?L{0,2}\b"),
    ("lang/py/templates/base.j2", r"_EXTENT_BYTES_[ \t]+=[ \t]*", {"type"}, "(= v (div extent 8))", "extent in bytes", r"\s"),
    ("lang/py/templates/base.j2", r"_FIXED_PORT_ID_[ \t]+=[ \t]*", {"T"}, "(= v port)", "fixed port-ID", r"\s"),
]


def template_obligations(run) -> typing.List[smt.Obligation]:
    obs = []
    filters = {"bits2bytes_ceil": ej.f_bits2bytes_ceil, "int": ej.f_int,
               "length": ej.f_length_of({("fields",): "n_options", ("fields_except_padding",): "n_options"})}
    cache: typing.Dict[str, list] = {}
    for rel, before, roots, goal, what, suffix in TEMPLATE_OBLIGATIONS:
        path = SRC / "nunavut" / rel
        if rel not in cache:
            cache[rel] = ej.flat_outputs(efx.parse_template(SRC, path))
        found = ej.exprs_after(cache[rel], before)
        label = re.sub(r"\[.*?\]|\\.|[+*]", "", before).strip("= ")
        if not found:
            run.undecide(f"binding failure: {rel}: no expression is printed after /{before}/")
            continue
        run.add_function(f"nunavut/{rel}@{label}")
        for k, (expr, guards, nxt) in enumerate(found):
            name = f"nunavut/{rel}@{label}#{what.replace(' ', '-')}" + (f"/{k}" if len(found) > 1 else "")
            tr = ej.Translator(roots, SYMS, filters)
            try:
                sort, term = tr.tr(expr)
            except ej.EJOutOfSubset as ex:
                run.undecide(f"{name}: `{efx.jinja_text(expr)}` is outside the E-J subset ({ex})")
                continue
            if sort != "Int":
                run.undecide(f"{name}: `{efx.jinja_text(expr)}` is not an integer expression")
                continue
            obs.append(smt.Obligation(name=name, kind="post", decls=DECLS + tr.decls + ["(declare-const v Int)"],
                                      assumptions=MODEL_INVARIANTS + tr.side + [f"(= v {term})"], goal=goal, function=f"nunavut/{rel}@{label}",
                                      model_vars=["extent", "inner_extent", "inner_max_bits", "port", "capacity", "n_options", "v"],
                                      meta={"expr": efx.jinja_text(expr), "guards": [g[0] for g in guards]}))
            ok = re.match(suffix, nxt) is not None
            run.add_check(name + "#literal-suffix", ok, "regex on the template text following the expression", 0, f"text after `{efx.jinja_text(expr)}` starts with {nxt[:12]!r}")
            if not ok:
                run.fail(report.Failure(name + "#literal-suffix", "post", f"{rel}: the text following `{efx.jinja_text(expr)}` ({nxt[:20]!r}) changes the value or is not a valid integer suffix", {"next": nxt[:80]}, False))
    return obs


def model_invariants_on_corpus(run):
    n = 0
    for ns in ("vkm", "vk"):
        for top, t in composites(pydsdl.read_namespace(str(CORPUS / ns), [], allow_unregulated_fixed_port_id=True)):
            inner = t.inner_type
            ok = (t.extent % 8 == 0 and inner.extent % 8 == 0 and inner.extent >= max(inner.bit_length_set) and t.extent >= inner.extent
                  and (not isinstance(inner, pydsdl.UnionType) or len(t.fields) == len(t.fields_except_padding)))
            n += 1
            if not ok:
                run.undecide(f"pydsdl model invariant does not hold for {t}: the E-J assumptions are wrong")
    run.add_bounded("pydsdl-model-invariants", f"{n} corpus types", n, True, "extent/inner extent/bit_length_set relations assumed by the template obligations, evaluated on the corpus")


# ---------------------------------------------------------------------------------------------------------------------
def literal_witness():
    """bounded native search: C integer literal tokens of the real filter, evaluated by clang"""
    from nunavut.lang.c import filter_literal
    lang = render.language_context("c").get_target_language()
    cases = []
    for bits in (1, 7, 8, 15, 16, 17, 31, 32, 33, 63, 64):
        for ty, vals in ((pydsdl.UnsignedIntegerType(bits, pydsdl.PrimitiveType.CastMode.TRUNCATED), (0, 1, 2 ** bits - 1)),
                         (pydsdl.SignedIntegerType(bits, pydsdl.PrimitiveType.CastMode.SATURATED), (0, -1, 2 ** (bits - 1) - 1, -(2 ** (bits - 1)))) if bits > 1 else (None, ())):
            if ty is None:
                continue
            for v in vals:
                cases.append((ty, v, filter_literal(lang, v, ty)))
    src = "\n".join(f'_Static_assert({int_assert("(" + tok + ")", v)}, "case {i}");' for i, (ty, v, tok) in enumerate(cases)) + "\n"
    with tempfile.TemporaryDirectory() as d:
        p = pathlib.Path(d) / "lit.c"
        p.write_text(src)
        r = subprocess.run(["clang", "-std=c11", "-fsyntax-only", "-ferror-limit=0", "-fno-caret-diagnostics", str(p)], capture_output=True, text=True)
    literal_witness.evaluations = len(cases)
    for line in r.stderr.splitlines():
        m = re.match(r".*?:(\d+):\d+: error: (.*)", line)
        if m:
            ty, v, tok = cases[int(m.group(1)) - 1]
            return {"input": {"value": v, "type": str(ty)}, "why": f"filter_literal renders {tok!r}, which clang evaluates to a different value ({m.group(2)[:120]})", "evaluations": len(cases)}
    return None


def main():
    args = parse_args(PROP)
    run = report.Run(PROP, "proof", "./check C05", args.tier)
    # A
    eng = epy.Engine(SRC)
    K.install(eng)
    wc: typing.Dict[str, typing.Any] = {}

    def w():
        if "w" not in wc:
            wc["w"] = literal_witness()
        return wc["w"]

    driver.verify_contracts(run, eng, [K.BITS2BYTES, K.LITERAL_UNSIGNED, K.LITERAL_SIGNED, K.LITERAL_BOOL],
                            witness={"filter_literal[UnsignedIntegerType]": w, "filter_literal[SignedIntegerType]": w})
    wit = w()
    run.add_bounded("filter_literal-tokens-evaluated-by-clang", "bit lengths {1,7,8,15,16,17,31,32,33,63,64} x extreme values", getattr(literal_witness, "evaluations", 0), wit is None,
                    "" if wit is None else f"{wit['input']}: {wit['why']}")
    if wit is not None and not any("filter_literal" in f.obligation for f in run.failures):
        run.fail(report.Failure("filter_literal#token-denotes-the-value-in-C", "post", f"real code: {wit['input']}: {wit['why']}", {"witness": wit}, True))
    # B
    tobs = template_obligations(run)
    tres = smt.solve_all(tobs)
    run.add_results(tres)
    model_invariants_on_corpus(run)
    # C
    per_program(run, args)
    for r in tres:
        if not r.ok and r.status == "sat":
            run.fail(report.Failure(r.ob.name, "post", f"{r.ob.name}: the template prints `{r.ob.meta['expr']}`, which is not the {r.ob.name.split('#')[1]} for model {r.model}",
                                    {"model": r.model, "expr": r.ob.meta["expr"], "smt2": r.ob.smt2()}, False))
    # D
    # (the little-endian variant selects the memmove fast paths, whose copy lengths decide whether an exactly-sized buffer suffices)
    for label, opts in (("any", {}), ("little", {"target_endianness": "little"})):
        sobs = [o for o in PP.collect(run, opts, label, ("ser",)) if o.kind in ("post", "frame", "safety", "pre")]
        sres = smt.solve_all(sobs)
        run.add_results(sres)
        PP.report_failures(run, sres, label)
        shutil.rmtree(PP._STATE.get("workdir", "/nonexistent"), ignore_errors=True)
    from props import lean_glue
    lean_glue.lemmas(run, "Glue.lean", ["L3_ceil_upper", "L3_ceil_tight", "L3_ceil_least", "L3_buffer_sufficient"], "(n + 7) / 8 is the least byte count holding n bits; a buffer of ceil(max/8) bytes holds every representation and is not larger than the extent")
    run.trust("lean 4 (lemma L3, lean/Glue.lean)", "clang 14 constant evaluator and typed AST (x86-64, FLT_EVAL_METHOD 0)", "pydsdl model attributes (extent, bit_length_set, fixed_port_id, constants) as the DSDL definition",
              "z3 / cvc5", "E-PY, E-J and E-C semantics (vk/epy.py, vk/ej.py, vk/ec.py)", "bundled Jinja2 parser for the template ASTs")
    run.assume("per program: constants are compared on the corpus types (corpus/vkm, corpus/vk) for every exported name; the template obligations (E-J) hold for all types but cover only the integer metadata expressions",
               "the C++ and Python serializers are not under contract: sufficiency/refusal of the buffer size is proved for the C serializers only (with their contracts from C01)",
               "floating-point constants: one unit in the last place of the declared DSDL type around the exact rational rounded to nearest-even")
    run.explanation = ("filters printing numbers under E-PY contracts; metadata expressions of the real templates proved equal to the pydsdl attributes for all types (E-J + z3); every exported constant of the corpus "
                       "headers/modules compared with the model by clang's constant evaluator; C serializer capacity contracts (SPEC) for sufficiency and refusal")
    return run.finish()


if __name__ == "__main__":
    report.main_wrapper(main)

"""C06: every valid DSDL input yields generated code that builds cleanly on its own.

What a contract can decide here (proved, for all inputs):
  * the include path printed for a dependency is the path its header is written to: both are computed by the SAME function
    (IncludeGenerator.make_path) from equal arguments -- obligations on the real ASTs of Namespace._add_data_type,
    build_namespace_tree, IncludeGenerator.generate_include_filepart_list, the c / cpp `includes` filters and
    Language.extension (E-FX relational argument check).
What no contract within reach expresses: "the compiler emits no diagnostic for the generated text".  That clause is
covered by a BOUNDED stand-in with the compilers as oracle (never counted as proved): the corpora under corpus/ (incl.
corpus/kw: attribute, type and namespace names that are keywords or reserved patterns of C, C++ and Python, a service,
deprecated, empty and very wide types, a dependency across root namespaces) x option sets x language standards; every
generated C header alone as C11 and inside a C++ translation unit, every C++ header alone per standard, with the project's
strict warning set (verification/cmake/compiler_flag_sets/common.cmake); every Python module parsed and compiled.
"""
import ast
import concurrent.futures
import pathlib
import py_compile
import re
import shutil
import subprocess
import tempfile
import typing

from vk import efx, render, report
from props.common import REPO, SRC, parse_args

PROP = "C06"
CORPUS = pathlib.Path(__file__).resolve().parent.parent / "corpus"


def project_flags() -> typing.Tuple[typing.List[str], typing.List[str]]:
    """the project's own strict warning set, read from the working tree"""
    text = (REPO / "verification/cmake/compiler_flag_sets/common.cmake").read_text()
    m = re.search(r"list\(APPEND C_FLAG_SET(.*?)\)", text, re.S)
    c = re.findall(r'"(-[^"]+)"', m.group(1)) if m else ["-Wall", "-Wextra", "-Werror", "-pedantic"]
    m = re.search(r"list\(APPEND CXX_FLAG_SET(.*?)\)", text, re.S)
    cxx = c + (re.findall(r'"(-[^"]+)"', m.group(1)) if m else [])
    return c, cxx


def relational(run):
    ix = efx.PyIndex(SRC)

    def body(q):
        if q not in ix.fns:
            run.undecide(f"binding failure: {q}")
            return None
        run.add_function(q)
        return ix.fns[q].node

    def calls(fn, pred):
        return [n for n in ast.walk(fn) if isinstance(n, ast.Call) and pred(ast.unparse(n.func))]

    checks = []
    fn = body("nunavut._namespace:Namespace._add_data_type")
    if fn is not None:
        c = calls(fn, lambda f: f.endswith("make_path"))
        ok = len(c) == 1 and ast.unparse(c[0].func) == "IncludeGenerator.make_path" and [ast.unparse(a) for a in c[0].args] == ["dsdl_type", "self._language_context.get_target_language()", "extension"]
        checks.append(("Namespace._add_data_type#output-path-is-make_path(type, target language, extension)", ok, ast.unparse(c[0]) if c else "no make_path call"))
    fn = body("nunavut._namespace:build_namespace_tree")
    if fn is not None:
        c = calls(fn, lambda f: f.endswith("_add_data_type"))
        ok = len(c) == 1 and len(c[0].args) == 2 and ast.unparse(c[0].args[0]) == "dsdl_type" and \
            ast.unparse(c[0].args[1]) == "language_context.get_target_language().get_config_value(Language.WKCV_DEFINITION_FILE_EXTENSION)"
        checks.append(("build_namespace_tree#every-type-registered-with-the-configured-extension", ok, ast.unparse(c[0]) if c else "no _add_data_type call"))
    fn = body("nunavut.lang._common:IncludeGenerator.generate_include_filepart_list")
    if fn is not None:
        c = calls(fn, lambda f: f.endswith("make_path"))
        ok = len(c) == 1 and ast.unparse(c[0].func) == "self.make_path" and [ast.unparse(a) for a in c[0].args] == ["dt", "self._language", "output_extension"]
        # ... for every direct composite dependency
        comp = [n for n in ast.walk(fn) if isinstance(n, ast.comprehension) and ast.unparse(n.iter) == "dep_types.composite_types" and not n.ifs]
        dep = [n for n in ast.walk(fn) if isinstance(n, ast.Assign) and ast.unparse(n.targets[0]) == "dep_types" and ast.unparse(n.value) == "self._language.get_dependency_builder(self._type).direct()"]
        checks.append(("IncludeGenerator.generate_include_filepart_list#include-path-is-make_path(dependency, language, extension)-for-every-direct-dependency", ok and len(comp) == 1 and len(dep) == 1,
                       (ast.unparse(c[0]) if c else "no make_path call") + f"; unfiltered comprehension over dep_types.composite_types: {len(comp)}"))
    for lang in ("c", "cpp"):
        fn = body(f"nunavut.lang.{lang}:filter_includes")
        if fn is not None:
            c = calls(fn, lambda f: f.endswith("generate_include_filepart_list"))
            ok = len(c) == 1 and ast.unparse(c[0].args[0]) == "language.extension" and ast.unparse(c[0].func).startswith("IncludeGenerator(language, t, ")
            checks.append((f"{lang}:filter_includes#asks-for-includes-with-the-language's-extension", ok, ast.unparse(c[0])[:140] if c else "no call"))
    fn = body("nunavut.lang._language:Language.extension")
    if fn is not None:
        rets = [n for n in ast.walk(fn) if isinstance(n, ast.Return)]
        ok = len(rets) == 1 and ast.unparse(rets[0].value) == "self._config.get_config_value(self._section, self.WKCV_DEFINITION_FILE_EXTENSION)"
        checks.append(("Language.extension#is-the-configured-definition-file-extension", ok, ast.unparse(rets[0]) if rets else "no return"))
    fn = body("nunavut.lang._language:Language.get_config_value")
    if fn is not None:
        rets = [ast.unparse(n.value) for n in ast.walk(fn) if isinstance(n, ast.Return) and n.value is not None]
        ok = any("self._config.get_config_value(self._section, key" in r for r in rets)
        checks.append(("Language.get_config_value#reads-the-same-section-of-the-same-configuration", ok, str(rets)[:160]))
    for name, ok, detail in checks:
        run.add_check(name, ok, "E-FX relational argument check (AST)", 0, detail)
        if not ok:
            run.fail(report.Failure(name, "post", f"the include path of a dependency is no longer provably the path its file is generated to: {detail}", {}, False))
    return len(checks)


# ---------------------------------------------------------------------------------------------------------------------
def compile_one(args):
    kind, cc, flags, incs, header, std, prelude = args
    src = prelude + f'#include "{header}"\n'
    lang = "c" if kind == "c" else "c++"
    p = subprocess.run([cc, "-x", lang, f"-std={std}", "-fsyntax-only", "-fno-caret-diagnostics", *flags, *[f"-I{i}" for i in incs], "-"], input=src, capture_output=True, text=True)
    return args, p.returncode, p.stderr


def bounded_build(run, args):
    work = pathlib.Path(tempfile.mkdtemp(prefix="vk_c06_"))
    cflags, cxxflags = project_flags()
    # headers are compiled as the only thing in the translation unit: static functions they define stay unused
    cflags = cflags + ["-Wno-unused-function"]
    cxxflags = cxxflags + ["-Wno-unused-function"]
    run.notes["project_warning_flags"] = {"c": cflags, "cxx": cxxflags}
    jobs = []
    failures: typing.Dict[str, list] = {}
    n_py = 0
    try:
        corpora = [("kw", CORPUS / "kw", [CORPUS / "kw2"]), ("kw2", CORPUS / "kw2", []), ("vk", CORPUS / "vk", []), ("vkm", CORPUS / "vkm", [])]
        copts = [("default", {}), ("asserts", {"enable_serialization_asserts": True}), ("little", {"target_endianness": "little"}), ("omit-float", {"omit_float_serialization_support": True})]
        cppopts = [("c++14", {"std": "c++14"}), ("c++17", {"std": "c++17"}), ("c++20", {"std": "c++20"}), ("c++17-pmr", {"std": "c++17-pmr"})]
        if args.tier != "thorough":
            copts = copts[:3]  # every C++ flavour (incl. c++17-pmr: its allocator header is an option-dependent include) stays in the every-change tier
        for cname, root, lookup in corpora:
            has_float = cname != "kw2"
            for oname, opts in copts:
                if oname == "omit-float" and has_float:
                    continue
                for omit in ((False, True) if oname == "default" else (False,)):
                    out = work / f"c_{cname}_{oname}_{'nosup' if omit else 'sup'}"
                    try:
                        files = render_c(root, out, opts, lookup, omit)
                    except Exception as ex:
                        failures.setdefault(f"c:{cname}[{oname}{',omit-support' if omit else ''}]#generation-completes", []).append(f"{type(ex).__name__}: {str(ex)[:300]}")
                        continue
                    pre = "#include <assert.h>\n#define NUNAVUT_ASSERT(x) assert(x)\n" if opts.get("enable_serialization_asserts") else ""
                    for h in files:
                        rel = h.relative_to(out).as_posix()
                        label = f"c:{cname}[{oname}{',omit-support' if omit else ''}]"
                        jobs.append(("c", "clang", cflags, [str(out)], rel, "c11", pre, label + ":" + rel + "#C11"))
                        jobs.append(("cxx", "clang++", [f for f in cflags if f not in ("-Wmissing-declarations", "-pedantic")], [str(out)], rel, "c++14", pre, label + ":" + rel + "#in-a-C++14-TU"))
            for oname, opts in cppopts + [(n_ + ",omit-support", dict(o_, __omit__=True)) for n_, o_ in cppopts[:2]]:
                out = work / f"cpp_{cname}_{oname.replace(',', '_')}"
                try:
                    if opts.get("__omit__"):
                        opts = {k: v for k, v in opts.items() if k != "__omit__"}
                        files = render_omit("cpp", root, out, opts, lookup)
                    else:
                        files = render.render_types("cpp", root, out, opts, lookup=lookup)
                        for lk in lookup:  # the other involved root namespace is generated too
                            files += render.render_types("cpp", lk, out, opts, support=False)
                except Exception as ex:
                    failures.setdefault(f"cpp:{cname}[{oname}]#generation-completes", []).append(f"{type(ex).__name__}: {str(ex)[:300]}")
                    continue
                for h in files:
                    if h.suffix == ".hpp":
                        rel = h.relative_to(out).as_posix()
                        jobs.append(("cxx", "clang++", cxxflags, [str(out)], rel, opts["std"].replace("-pmr", ""), "", f"cpp:{cname}[{oname}]:{rel}#{opts['std']}"))
            out = work / f"py_{cname}"
            try:
                files = render.render_types("py", root, out, {}, lookup=lookup)
                for lk in lookup:
                    files += render.render_types("py", lk, out, {}, support=False)
            except Exception as ex:
                failures.setdefault(f"py:{cname}#generation-completes", []).append(f"{type(ex).__name__}: {str(ex)[:300]}")
                files = []
            roots = {p.name for p in out.iterdir() if p.is_dir()} if out.exists() else set()
            for f in files:
                if f.suffix == ".py":
                    n_py += 1
                    try:
                        py_compile.compile(str(f), cfile=str(work / "x.pyc"), doraise=True)
                    except py_compile.PyCompileError as ex:
                        failures.setdefault(f"py:{cname}:{f.relative_to(out).as_posix()}#compiles", []).append(str(ex)[:300])
                        continue
                    # every import of a module below a generated root package names a module that was generated
                    # (the modules cannot be imported here -- NumPy is absent -- so the import graph is resolved on the AST)
                    for node in ast.walk(ast.parse(f.read_text())):
                        mods = []
                        if isinstance(node, ast.ImportFrom) and node.module and node.level == 0:
                            mods = [node.module]
                        elif isinstance(node, ast.Import):
                            mods = [a.name for a in node.names]
                        for m_ in mods:
                            parts = m_.split(".")
                            if parts[0] in roots and parts[0] != "nunavut_support":
                                target = out.joinpath(*parts)
                                if not (target.with_suffix(".py").exists() or (target / "__init__.py").exists()):
                                    failures.setdefault(f"py:{cname}:{f.relative_to(out).as_posix()}#imports-resolve", []).append(
                                        f"{cname}/{f.relative_to(out).as_posix()}:{node.lineno}: imports {m_}, a module that is not generated")
        with concurrent.futures.ThreadPoolExecutor(max_workers=14) as ex:
            results = list(ex.map(lambda j: (j[-1],) + compile_one(j[:-1])[1:], jobs))
        for label, rc, err in results:
            if rc != 0:
                first = next((l for l in err.splitlines() if "error" in l or "warning" in l), err[:200])
                failures.setdefault(label, []).append(re.sub(r"/tmp/vk_c06_\w+/", "", first)[:300])
    finally:
        shutil.rmtree(work, ignore_errors=True)
    total = len(jobs) + n_py
    # group: one finding per (language, diagnostic text) so that the same diagnostic in 40 headers is one line
    grouped: typing.Dict[str, list] = {}
    for label, msgs in failures.items():
        diag = re.sub(r"^[^:]*:\d+:\d+: ", "", msgs[0])
        diag = re.sub(r"'[^']*'", "'…'", diag)
        hdr = (re.search(r"((?:kw2?|vkm?|nunavut)/[\w/]+\.(?:hpp|h|py)):\d+", msgs[0]) or re.search(r":([\w/]+\.(?:hpp|h|py))#", label))
        h = re.sub(r"^(?:c|cpp|py)_[^/]*/", "", hdr.group(1)) if hdr else "?"
        key = f"{label.split(':')[0]}:{h}#{re.sub(r'[^A-Za-z0-9]+', '-', diag)[:70]}"
        grouped.setdefault(key, []).append(f"{label}: {msgs[0]}")
    known = [k["obligation"] for k in report.load_known() if k.get("property") == PROP]
    unlisted = [k for k in grouped if not any(f"native:{k}" == o or (o.endswith("*") and f"native:{k}".startswith(o[:-1])) for o in known)]
    run.add_bounded("native: every generated file builds alone without diagnostics", f"{len(corpora)} corpora x option sets x standards: {len(jobs)} compiler runs, {n_py} Python modules", total, not unlisted,
                    str({k: v[0] for k, v in list(grouped.items())[:4]})[:700])
    for key, items in sorted(grouped.items()):
        run.fail(report.Failure(f"native:{key}", "post", f"{items[0]} ({len(items)} files/configurations)", {"items": items[:60]}, True))
    if total == 0:
        run.undecide("no file was compiled (vacuity guard)")
    return total


def render_omit(lang, root, out, opts, lookup):
    import pydsdl
    from nunavut._namespace import build_namespace_tree
    from nunavut.jinja import DSDLCodeGenerator

    ctx = render.language_context(lang, opts)
    files = []
    for r, lks in [(root, lookup)] + [(lk, []) for lk in lookup]:
        types = pydsdl.read_namespace(str(r), [str(p) for p in lks], allow_unregulated_fixed_port_id=True)
        files += list(DSDLCodeGenerator(build_namespace_tree(types, str(r), str(out), ctx)).generate_all(omit_serialization_support=True))
    return [pathlib.Path(f) for f in files]


def render_c(root, out, opts, lookup, omit):
    import pydsdl
    from nunavut._namespace import build_namespace_tree
    from nunavut.jinja import DSDLCodeGenerator, SupportGenerator

    ctx = render.language_context("c", opts)
    types = pydsdl.read_namespace(str(root), [str(p) for p in lookup], allow_unregulated_fixed_port_id=True)
    ns = build_namespace_tree(types, str(root), str(out), ctx)
    files = list(DSDLCodeGenerator(ns).generate_all(omit_serialization_support=omit))
    # dependencies from the other root namespace are generated as well (the property is about the involved namespaces)
    for lk in lookup:
        t2 = pydsdl.read_namespace(str(lk), [], allow_unregulated_fixed_port_id=True)
        files += list(DSDLCodeGenerator(build_namespace_tree(t2, str(lk), str(out), ctx)).generate_all(omit_serialization_support=omit))
    if not omit:
        list(SupportGenerator(ns).generate_all())
    return [f for f in files if pathlib.Path(f).suffix == ".h"]


def main():
    args = parse_args(PROP)
    run = report.Run(PROP, "other", "./check C06", args.tier)
    n = relational(run)
    total = bounded_build(run, args)
    run.notes["relational_obligations"] = n
    run.notes["compiler_runs_and_modules"] = total
    run.trust("clang 14 / CPython compile() as build oracles", "E-FX AST matching")
    run.assume("'no diagnostic for every valid input' is not expressible as a contract: the build clause is a bounded stand-in over the corpora, option sets and standards listed in the evidence",
               "generated Python modules are compiled but not imported (NumPy is not installed in this sandbox)",
               "make_path is a pure function of its arguments (ambient frame of C07)")
    run.explanation = "include path == output path by a relational argument check on the real ASTs; compilers as oracle over corpora of keyword-named, wide, empty, deprecated, service and cross-namespace types (bounded)"
    return run.finish()


if __name__ == "__main__":
    report.main_wrapper(main)

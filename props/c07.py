"""C07: reproducible output (E-FX ambient frame over Python and Jinja ASTs)."""
import ast
import typing
import hashlib
import os
import pathlib
import re
import shutil
import subprocess
import sys
import tempfile

from vk import efx, report
from contracts import c07_fx as K
from props.common import SRC, REPO, parse_args

PROP = "C07"

GEN_SCRIPT = r'''
import sys, pathlib
import pydsdl
from nunavut.lang import LanguageContextBuilder
from nunavut._namespace import build_namespace_tree
from nunavut.jinja import DSDLCodeGenerator, SupportGenerator
lang, root, out = sys.argv[1], sys.argv[2], sys.argv[3]
ctx = LanguageContextBuilder(include_experimental_languages=True).set_target_language(lang).create()
types = pydsdl.read_namespace(root, [])
ns = build_namespace_tree(types, root, out, ctx)
DSDLCodeGenerator(ns).generate_all(False, True, False, False)
SupportGenerator(ns).generate_all(False, True, False, False)
'''

DSDL = {
    "rep/Thing.1.0.dsdl": "# a thing\nuint8 VALUE = 7\nuint7 a\nvoid1\nfloat16[<=3] b\nrep.inner.Other.1.0 c\n@sealed\n",
    "rep/inner/Other.1.0.dsdl": "# doc\nint13 x\nbool[4] y\n@extent 64\n",
    "rep/U.1.0.dsdl": "@union\nuint8 a\nrep.inner.Other.1.0 b\n@sealed\n",
}


def tree_digest(root: pathlib.Path):
    out = {}
    for p in sorted(root.rglob("*")):
        if p.is_file():
            out[p.relative_to(root).as_posix()] = hashlib.sha256(p.read_bytes()).hexdigest()
    return out


def native_two_runs(lang: str, vary: str):
    """Generate the same namespace twice, differing only in one ambient input; return the differing files."""
    import time
    base = pathlib.Path(tempfile.mkdtemp(prefix="vk_c07_"))
    try:
        digests = []
        for k in (0, 1):
            loc = base / ("a" if (vary != "location" or k == 0) else "b/deeper/elsewhere")
            src, out = loc / "in", loc / f"out{k}"
            for rel, text in DSDL.items():
                (src / rel).parent.mkdir(parents=True, exist_ok=True)
                (src / rel).write_text(text)
            env = dict(os.environ, PYTHONPATH=str(SRC), PYTHONHASHSEED="1" if (vary != "hashseed" or k == 0) else "4242", PYTHONDONTWRITEBYTECODE="1")
            cwd = base if (vary != "cwd" or k == 0) else loc
            if vary == "clock" and k == 1:
                time.sleep(1.2)
            script = base / "gen.py"
            script.write_text(GEN_SCRIPT)
            p = subprocess.run([sys.executable, str(script), lang, str(src / "rep"), str(out)], cwd=str(cwd), env=env, capture_output=True, text=True)
            if p.returncode != 0:
                return {"error": p.stderr[-800:]}
            digests.append(tree_digest(out))
        a, b = digests
        diff = sorted(set(a) ^ set(b)) + sorted(k for k in a if k in b and a[k] != b[k])
        return {"differing_files": diff, "files": len(a)}
    finally:
        shutil.rmtree(base, ignore_errors=True)


def main():
    args = parse_args(PROP)
    run = report.Run(PROP, "other", "./check C07", args.tier)
    ix = efx.PyIndex(SRC)
    n_occ = 0
    # ---- Python obligation -------------------------------------------------------------------------
    used_allow = set()
    for q, fn in sorted(ix.fns.items()):
        if fn.module.startswith("nunavut.cli") or fn.module in ("nunavut.__main__",):
            continue
        occ, _ = efx.effects_in(fn)
        for o in occ:
            if o.kind != "ambient":
                continue
            n_occ += 1
            what = o.what
            if "python_version()" in o.expr and what == "platform":
                what = "platform#python_version"
            name = f"{q}#ambient:{what}@{o.expr[:40]}"
            if efx.guard_holds(o.guards, K.AUDIT_GUARD_PY, True):
                run.add_check(name, True, "E-FX guard dominance", 0, f"{o.where()}: dominated by `if {K.AUDIT_GUARD_PY}`")
            elif (q, what) in K.ALLOW:
                used_allow.add((q, what))
                run.add_check(name, True, "E-FX declared frame", 0, f"{o.where()}: {K.ALLOW[(q, what)]}")
                run.assume(f"{q} [{what}]: {K.ALLOW[(q, what)]}")
            else:
                vary = {"clock": "clock", "clock (gzip header mtime)": "clock", "absolute path": "location", "cwd": "cwd", "process/cwd": "cwd"}.get(o.what, "clock")
                w = {}
                for lang in ("py", "c"):
                    w = native_two_runs(lang, vary)
                    if w.get("differing_files"):
                        w["language"], w["varied"] = lang, vary
                        break
                repro = bool(w.get("differing_files"))
                run.fail(report.Failure(name, "frame", f"{o.where()}: ambient input ({o.what}) `{o.expr}` is read on the generation path without the auditing guard"
                                        + (f"; two runs differing only in {vary} ({w.get('language')}): files differ: {w['differing_files'][:4]}" if repro else ""),
                                        {"occurrence": o.where(), "expr": o.expr, "witness": w}, repro))
                run.add_check(name, False, "E-FX guard dominance", 0, f"{o.where()}: unguarded {o.expr}")
    # now_utc is read by no Python code (only templates see it)
    readers = []
    for q, fn in ix.fns.items():
        for n in ast.walk(fn.node):
            if isinstance(n, ast.Attribute) and n.attr == "now_utc" and isinstance(n.ctx, ast.Load):
                readers.append(f"{fn.file}:{n.lineno}")
    run.add_check("now_utc-only-read-by-templates", not readers, "E-FX", 0, f"Python readers of .now_utc: {readers}")
    # no built-in template asks for resolved (absolute) include paths
    # hash-ordered iteration
    for q, fn in sorted(ix.fns.items()):
        if fn.module.startswith("nunavut.cli"):
            continue
        for n in ast.walk(fn.node):
            it = None
            if isinstance(n, (ast.For, ast.comprehension)):
                it = n.iter
            if it is None:
                continue
            t = ast.unparse(it)
            if re.search(r"\bset\(|frozenset\(|\.intersection\(|\.union\(|\.difference\(|\.symmetric_difference\(|^\{.*\}$", t) and not t.startswith("sorted("):
                name = f"{q}#hash-ordered-iteration@{t[:50]}"
                if q in K.ALLOW_SET_ITERATION:
                    run.add_check(name, True, "E-FX declared frame", 0, K.ALLOW_SET_ITERATION[q])
                    run.assume(f"{q}: {K.ALLOW_SET_ITERATION[q]}")
                else:
                    w = native_two_runs("c", "hashseed")
                    repro = bool(w.get("differing_files"))
                    run.fail(report.Failure(name, "frame", f"{fn.file}:{getattr(n, 'lineno', it.lineno)}: iteration over a hash-ordered collection `{t}` on the generation path", {"witness": w}, repro))
                    run.add_check(name, False, "E-FX", 0, t)
    # keyed sorts over possibly hash-ordered input: `sorted(X, key=K)` is a total order only if K is injective on X
    set_attrs = set()
    for q, fn in ix.fns.items():
        for n in ast.walk(fn.node):
            if isinstance(n, (ast.Assign, ast.AnnAssign)):
                tgt = n.targets[0] if isinstance(n, ast.Assign) else n.target
                val = n.value
                ann = ast.unparse(n.annotation) if isinstance(n, ast.AnnAssign) else ""
                if isinstance(tgt, ast.Attribute) and ((val is not None and re.match(r"(set|frozenset)\(", ast.unparse(val))) or re.search(r"\b(Set|FrozenSet|set|frozenset)\[", ann)):
                    set_attrs.add(tgt.attr)
    run.notes["hash_ordered_attributes"] = sorted(set_attrs)

    def hash_ordered(e: ast.AST, tainted: typing.Set[str]) -> bool:
        for x in ast.walk(e):
            if isinstance(x, ast.Call) and ast.unparse(x.func) == "sorted" and not any(k.arg == "key" for k in x.keywords):
                continue
            if isinstance(x, (ast.Set, ast.SetComp)):
                return True
            if isinstance(x, ast.Call) and ast.unparse(x.func) in ("set", "frozenset"):
                return True
            if isinstance(x, ast.Attribute) and x.attr in set_attrs:
                return True
            if isinstance(x, ast.Name) and x.id in tainted:
                return True
        return False

    for q, fn in sorted(ix.fns.items()):
        if fn.module.startswith("nunavut.cli"):
            continue
        node = fn.node
        tainted = {a.arg for a in node.args.args + node.args.kwonlyargs if a.arg not in ("self", "cls")}  # callers may hand in any iterable
        for _ in range(3):  # assignments propagate (small fixpoint)
            for n in ast.walk(node):
                if isinstance(n, ast.Assign) and hash_ordered(n.value, tainted) and not (isinstance(n.value, ast.Call) and ast.unparse(n.value.func) == "sorted" and not any(k.arg == "key" for k in n.value.keywords)):
                    for t_ in n.targets:
                        if isinstance(t_, ast.Name):
                            tainted.add(t_.id)
                if isinstance(n, ast.AugAssign) and isinstance(n.target, ast.Name) and hash_ordered(n.value, tainted):
                    tainted.add(n.target.id)
        for n in ast.walk(node):
            if not isinstance(n, ast.Call):
                continue
            f = ast.unparse(n.func)
            keyk = next((k for k in n.keywords if k.arg == "key"), None)
            if keyk is None:
                continue
            if f in ("sorted", "min", "max") and n.args:
                subject = n.args[0]
            elif f.endswith(".sort") and isinstance(n.func, ast.Attribute):
                subject = n.func.value
            else:
                continue
            if not hash_ordered(subject, tainted):
                continue
            ktext = ast.unparse(keyk.value)
            name = f"{q}#keyed-sort-of-possibly-hash-ordered-input-has-an-injective-key@{ktext[:40]}"
            reason = K.INJECTIVE_SORT_KEYS.get((q, ktext))
            if reason:
                run.add_check(name, True, "E-FX declared frame", 0, reason)
                run.assume(f"{q}: key `{ktext}`: {reason}")
            else:
                w = native_two_runs("c", "hashseed")
                repro = bool(w.get("differing_files"))
                run.add_check(name, False, "E-FX", 0, f"{f}({ast.unparse(subject)[:40]}, key={ktext})")
                run.fail(report.Failure(name, "frame", f"{fn.file}:{n.lineno}: `{f}(..., key={ktext})` orders `{ast.unparse(subject)[:60]}`, whose order may be hash order; ties keep that order, so the key must be injective "
                                        "(no entry in contracts/c07_fx.py:INJECTIVE_SORT_KEYS justifies it)", {"witness": w}, repro))
    run.add_function(f"{len(ix.fns)} Python functions of nunavut/ (bundled Jinja2 and CLI argument/environment parsing excluded)")
    # ---- template obligation -----------------------------------------------------------------------
    n_t, n_out = 0, 0
    for path in sorted((SRC / "nunavut" / "lang").rglob("*.j2")):
        rel = path.relative_to(SRC).as_posix()
        try:
            tree = efx.parse_template(SRC, path)
        except Exception as ex:  # a template the bundled parser rejects cannot be rendered either
            run.add_check(f"{rel}#parse", None, "bundled Jinja2 parser", 0, f"{type(ex).__name__}: {ex}")
            continue
        n_t += 1
        for expr, guards in efx.jinja_outputs(tree):
            n_out += 1
            text = efx.jinja_text(expr)
            if re.search(r"type_to_include_path\([^)]*resolve", text) or re.search(r"type_to_include_path\([^)]*,\s*True", text):
                run.fail(report.Failure(f"{rel}#resolved-include-path@L{expr.lineno}", "frame", f"{rel}:{expr.lineno}: template asks for a resolved (absolute) include path: {text}", {}, False))
            def is_source(t, node):
                return any(re.search(p, t) for p, _ in K.TEMPLATE_SOURCES)
            def is_safe(t, node):
                return bool(re.fullmatch(r".*source_file_path\.(name|stem|suffix)", t))
            hits = efx.jinja_tainted(expr, is_source, set(), is_safe)
            for h in hits:
                name = f"{rel}#output-of-ambient:{h[:50]}"
                ok = efx.guard_holds(guards, K.AUDIT_GUARD_J2, True)
                run.add_check(name, ok, "E-FX guard dominance (Jinja AST)", 0, f"{rel}:{expr.lineno}: {{{{ {text[:80]} }}}} guards={list(guards)[:3]}")
                if not ok:
                    vary = "clock" if "now_utc" in h else "location"
                    lang = rel.split("/")[2]
                    w = native_two_runs(lang if lang in ("c", "cpp", "py", "html") else "c", vary)
                    repro = bool(w.get("differing_files"))
                    run.fail(report.Failure(name, "frame", f"{rel}:{expr.lineno}: `{{{{ {text[:80]} }}}}` emits an ambient input ({h}) without `{{% if {K.AUDIT_GUARD_J2} %}}`"
                                            + (f"; two runs differing only in {vary}: files differ: {w['differing_files'][:4]}" if repro else ""),
                                            {"witness": w, "template": rel, "line": expr.lineno}, repro))
    run.add_function(f"{n_t} built-in templates ({n_out} output expressions)")
    run.notes["ambient_occurrences_python"] = n_occ
    run.notes["templates"] = n_t
    run.notes["template_output_expressions"] = n_out
    unused = [f"{k}" for k in K.ALLOW if k not in used_allow]
    run.notes["allow_entries_unused"] = unused
    # ---- bounded native cross-check (never counted as proved) ---------------------------------------
    langs = ("c", "cpp", "py", "html") if args.tier == "thorough" else ("c", "py")
    known_pickle = any("|pickle" in k["obligation"] for k in report.load_known() if k["property"] == PROP)
    for lang in langs:
        for vary in ("clock", "hashseed", "cwd", "location"):
            if args.tier != "thorough" and vary in ("cwd",):
                continue
            if lang == "py" and vary == "location" and known_pickle:
                continue  # explained by the listed known finding (absolute path inside the pickled model)
            w = native_two_runs(lang, vary)
            ok = not w.get("differing_files") and "error" not in w
            run.add_bounded(f"two native runs differing only in {vary} ({lang})", "one 3-type namespace", 2, ok, str(w) if not ok else f"{w.get('files')} files identical")
            if not ok and not any(f.reproduced for f in run.failures):
                run.fail(report.Failure(f"native#{lang}:{vary}", "frame", f"two runs differing only in {vary} produce different files {w.get('differing_files', w)}", {"witness": w}, True))
    run.trust("E-FX (vk/efx.py): syntactic effect tables and guard dominance; bundled Jinja2 parser as the template front end")
    run.assume("third-party code (pydsdl, yaml, the Jinja runtime) reads no ambient input that reaches output",
               "template filters are pure except for the occurrences listed (effect table covers clock/platform/cwd/absolute path/hash/random/env)")
    run.explanation = ("decision procedure over the real ASTs: every ambient-input occurrence and every template output of an ambient "
                       "value is shown dominated by the auditing guard, or named; not a search over inputs")
    return run.finish()


if __name__ == "__main__":
    report.main_wrapper(main)

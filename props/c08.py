"""C08: listing and dry-run modes tell the truth (E-FX relational/frame obligations on the real ASTs + native replay)."""
import ast
import os
import pathlib
import shutil
import subprocess
import sys
import tempfile

from vk import efx, report
from props.common import SRC, parse_args

PROP = "C08"
RESULT_NEUTRAL = {"is_dryrun", "allow_overwrite", "embed_auditing_info"}  # proved not to influence the returned list (R2)


def find_calls(fn: ast.FunctionDef, method: str):
    out = []
    for node, guards in efx.walk_with_guards(fn):
        if isinstance(node, ast.Call) and isinstance(node.func, ast.Attribute) and node.func.attr == method:
            out.append((ast.unparse(node.func.value), node, guards))
    return out


def norm_args(call: ast.Call, sig: ast.FunctionDef, local_defs):
    """argument name -> source text, with defaults from the signature; local single-assignment names are inlined"""
    params = [a.arg for a in sig.args.args if a.arg != "self"]
    defaults = sig.args.defaults
    vals = {}
    for p, d in zip(params[len(params) - len(defaults):], defaults):
        vals[p] = ast.unparse(d)
    for p, a in zip(params, call.args):
        vals[p] = ast.unparse(a)
    for k in call.keywords:
        vals[k.arg] = ast.unparse(k.value)
    return {k: local_defs.get(v, v) for k, v in vals.items()}


def local_single_defs(fn: ast.FunctionDef):
    d, n = {}, {}
    for s in ast.walk(fn):
        if isinstance(s, ast.Assign) and len(s.targets) == 1 and isinstance(s.targets[0], ast.Name):
            nm = s.targets[0].id
            n[nm] = n.get(nm, 0) + 1
            d[nm] = ast.unparse(s.value)
    return {k: v for k, v in d.items() if n[k] == 1}


def guard_text(guards):
    return sorted(f"{'' if pol else 'not '}({t})" for t, pol in guards)


# ---- native harness ---------------------------------------------------------------------------------------------
DSDL = {
    "in/rep/Thing.1.0.dsdl": "uint8 a\ndepns.D.1.0 d\nrep.inner.Other.1.0 o\ndepns.Mid.1.0[<=2] mids\nrep.ext.Far.1.0 far\ndepns.D.2.0 d_newer\n@sealed\n",
    # a second version of a lookup definition: two files, one name
    "dep/depns/D.2.0.dsdl": "float16 f\nuint8 more\n@sealed\n",
    "in/rep/inner/Other.1.0.dsdl": "int13 x\n@sealed\n",
    "dep/depns/D.1.0.dsdl": "float16 f\n@sealed\n",
    # reached only through an array element type
    "dep/depns/Mid.1.0.dsdl": "depns.leaf.Leaf.1.0 l\n@sealed\n",
    "dep/depns/leaf/Leaf.1.0.dsdl": "uint8 v\n@sealed\n",
    # the root namespace continued in a lookup directory (same root name, other directory)
    "dep2/rep/ext/Far.1.0.dsdl": "uint16 w\n@sealed\n",
}


def nnvg(base: pathlib.Path, extra):
    env = dict(os.environ, PYTHONPATH=str(SRC), PYTHONDONTWRITEBYTECODE="1")
    argv = [sys.executable, "-m", "nunavut", "--outdir", str(base / "out"), "-I", str(base / "dep/depns"), "-I", str(base / "dep2/rep")] + extra + [str(base / "in/rep")]
    return subprocess.run(argv, capture_output=True, text=True, env=env, cwd=str(base))


def scenario():
    base = pathlib.Path(tempfile.mkdtemp(prefix="vk_c08_"))
    for rel, text in DSDL.items():
        (base / rel).parent.mkdir(parents=True, exist_ok=True)
        (base / rel).write_text(text)
    return base


def snapshot(root: pathlib.Path):
    out = {}
    for p in sorted(root.rglob("*")):
        st = p.lstat()
        out[str(p)] = (st.st_mode, st.st_size, st.st_mtime_ns, p.read_bytes() if p.is_file() else None)
    return out


def native_list_vs_generate(opts):
    base = scenario()
    try:
        before = snapshot(base)
        lo = nnvg(base, opts + ["--list-outputs"])
        if lo.returncode != 0:
            return None  # option combination rejected: outside the property's quantifier
        if snapshot(base) != before:
            return {"input": opts + ["--list-outputs"], "why": "listing mode changed the file system"}
        listed = sorted(x for x in lo.stdout.strip().split(";") if x)
        dr = nnvg(base, opts + ["--dry-run"])
        if dr.returncode == 0 and snapshot(base) != before:
            return {"input": opts + ["--dry-run"], "why": "dry-run changed the file system"}
        g = nnvg(base, opts)
        if g.returncode != 0:
            return None
        made = sorted(str(p) for p in (base / "out").rglob("*") if p.is_file()) if (base / "out").exists() else []
        if listed != made:
            return {"input": opts, "why": f"--list-outputs printed {[os.path.relpath(x, base) for x in listed]} but the run created {[os.path.relpath(x, base) for x in made]}"}
        return None
    finally:
        shutil.rmtree(base, ignore_errors=True)


def native_inputs_complete(lang):
    """every DSDL file whose modification changes some output must be in --list-inputs"""
    base = scenario()
    try:
        li = nnvg(base, ["--target-language", lang, "--list-inputs"])
        if li.returncode != 0:
            return None
        listed = {os.path.realpath(x) for x in li.stdout.strip().split(";") if x}
        nnvg(base, ["--target-language", lang])
        ref = {str(p): p.read_bytes() for p in (base / "out").rglob("*") if p.is_file()}
        for rel in DSDL:
            f = base / rel
            orig = f.read_text()
            f.write_text(orig.replace("@sealed", "uint8 zzz_extra\n@sealed"))
            shutil.rmtree(base / "out")
            nnvg(base, ["--target-language", lang])
            now = {str(p): p.read_bytes() for p in (base / "out").rglob("*") if p.is_file()}
            f.write_text(orig)
            if now != ref and os.path.realpath(f) not in listed:
                return {"input": {"language": lang, "modified": rel}, "why": f"changing {rel} changes the output but --list-inputs does not name it"}
        return None
    finally:
        shutil.rmtree(base, ignore_errors=True)


def native_custom_support_template():
    base = scenario()
    try:
        sup = base / "sup"
        sup.mkdir()
        text = (SRC / "nunavut/lang/c/support/serialization.j2").read_text()
        (sup / "serialization.j2").write_text(text + "\n// CUSTOM SUPPORT TEMPLATE\n")
        li = nnvg(base, ["--target-language", "c", "--support-templates", str(sup), "--list-inputs"])
        g = nnvg(base, ["--target-language", "c", "--support-templates", str(sup)])
        if li.returncode != 0 or g.returncode != 0:
            return None
        used = "CUSTOM SUPPORT TEMPLATE" in (base / "out/nunavut/support/serialization.h").read_text()
        listed = {os.path.realpath(x) for x in li.stdout.strip().split(";") if x}
        if used and os.path.realpath(sup / "serialization.j2") not in listed:
            return {"input": ["--support-templates", "<dir with serialization.j2>"], "why": "the run renders the custom support template but --list-inputs names the built-in one instead"}
        return None
    finally:
        shutil.rmtree(base, ignore_errors=True)


def native_custom_templates():
    """custom template directory with same-named partials in sub-folders: both must be listed"""
    base = scenario()
    try:
        t = base / "tpl"
        for sub, text in (("head", "/* head */\n"), ("tail", "/* tail */\n")):
            (t / sub).mkdir(parents=True)
            (t / sub / "part.j2").write_text(text)
        (t / "Any.j2").write_text("{% include 'head/part.j2' %}{{ T.full_name }}{% include 'tail/part.j2' %}\n")
        li = nnvg(base, ["--target-language", "c", "--templates", str(t), "--list-inputs"])
        if li.returncode != 0:
            return None
        listed = {os.path.realpath(x) for x in li.stdout.strip().split(";") if x}
        for f in (t / "head/part.j2", t / "tail/part.j2", t / "Any.j2"):
            if os.path.realpath(f) not in listed:
                return {"input": {"templates": ["Any.j2", "head/part.j2", "tail/part.j2"]}, "why": f"custom template {f.relative_to(t)} is used by the run but not named by --list-inputs"}
        return None
    finally:
        shutil.rmtree(base, ignore_errors=True)


def main():
    args = parse_args(PROP)
    run = report.Run(PROP, "other", "./check C08", args.tier)
    ix = efx.PyIndex(SRC)
    R = "nunavut.cli.runners:ArgparseRunner."
    need = [R + "_list_outputs_only", R + "_generate", R + "_list_inputs_only", R + "_should_generate_support",
            "nunavut.jinja:DSDLCodeGenerator.generate_all", "nunavut.jinja:SupportGenerator.generate_all"]
    missing = [q for q in need if q not in ix.fns]
    if missing:
        run.undecide(f"binding failure: {missing}")
        return run.finish()
    lo, ge, li = ix.fns[R + "_list_outputs_only"], ix.fns[R + "_generate"], ix.fns[R + "_list_inputs_only"]
    sigs = {"self._generator": ix.fns["nunavut.jinja:DSDLCodeGenerator.generate_all"].node,
            "self._support_generator": ix.fns["nunavut.jinja:SupportGenerator.generate_all"].node}
    cache = {}

    def witness(opts_list):
        for o in opts_list:
            key = tuple(o)
            if key not in cache:
                cache[key] = native_list_vs_generate(o)
            if cache[key]:
                return cache[key]
        return None

    MATRIX = [["--target-language", l] + s + o for l in ("c", "py") for s in ([], ["--generate-support", "only"], ["--generate-support", "never"], ["--generate-support", "always"])
              for o in ([], ["--omit-serialization-support"])]

    # R1: list and generate call generate_all on the same generators, under the same conditions, with the same
    #     result-relevant arguments
    lcalls, gcalls = find_calls(lo.node, "generate_all"), find_calls(ge.node, "generate_all")
    ldefs, gdefs = local_single_defs(lo.node), local_single_defs(ge.node)
    for recv, sig in sigs.items():
        lc = [c for c in lcalls if c[0] == recv]
        gc = [c for c in gcalls if c[0] == recv]
        name = f"ArgparseRunner#list==generate:{recv.split('._')[1]}"
        if len(lc) != 1 or len(gc) != 1:
            run.add_check(name, None, "E-FX relational", 0, f"expected one generate_all call per function, found {len(lc)} / {len(gc)}")
            continue
        la, ga = norm_args(lc[0][1], sig, ldefs), norm_args(gc[0][1], sig, gdefs)
        diffs = {k: (la.get(k), ga.get(k)) for k in set(la) | set(ga) if k not in RESULT_NEUTRAL and la.get(k) != ga.get(k)}
        same_guard = guard_text(lc[0][2]) == guard_text(gc[0][2])
        ok = not diffs and same_guard and la.get("is_dryrun") == "True"
        detail = f"list args {la} guards {guard_text(lc[0][2])}; generate args {ga} guards {guard_text(gc[0][2])}"
        run.add_check(name, ok, "E-FX relational", 0, detail)
        if not ok:
            w = witness(MATRIX)
            run.fail(report.Failure(name, "relational", f"the listing and the real run do not ask the {recv} for the same thing: differing arguments {diffs}, same guards: {same_guard}"
                                    + (f"; nnvg {' '.join(w['input'])}: {w['why']}" if w else ""), {"witness": w, "detail": detail}, bool(w)))
    # R2: the list returned by generate_all does not depend on is_dryrun / allow_overwrite / embed_auditing_info
    for recv, sig in sigs.items():
        q = "DSDLCodeGenerator" if recv.endswith("_generator") and "support" not in recv else "SupportGenerator"
        bad = []
        for node, guards in efx.walk_with_guards(sig):
            if isinstance(node, ast.Call) and isinstance(node.func, ast.Attribute) and node.func.attr in ("append", "extend", "insert") or isinstance(node, ast.Return):
                for t, _ in guards:
                    if any(p in t for p in RESULT_NEUTRAL):
                        bad.append(f"line {node.lineno} under `{t}`")
        run.add_check(f"{q}.generate_all#result-independent-of-dryrun/overwrite/auditing", not bad, "E-FX", 0, f"result construction guarded by mode flags: {bad}")
        if bad:
            w = witness(MATRIX)
            run.fail(report.Failure(f"{q}.generate_all#result-independent-of-dryrun/overwrite/auditing", "frame", f"returned file list depends on a mode flag: {bad}", {"witness": w}, bool(w)))
    # R3: every file-system write reachable from generate_all is dominated by `not is_dryrun`
    cg = efx.CallGraph(ix, {"self._env": "CodeGenEnvironment"})
    roots = [ix.fns["nunavut.jinja:DSDLCodeGenerator.generate_all"], ix.fns["nunavut.jinja:SupportGenerator.generate_all"]]
    n_w = 0
    for fn, chain in cg.reach(roots):
        occ, calls = efx.effects_in(fn)
        for o in occ:
            if o.kind != "fs_write":
                continue
            if o.what == "pathlib write" and ".replace(" in o.expr and o.expr.count(",") >= 1:
                continue  # str.replace(a, b)
            n_w += 1
            allg = tuple(g for (_, _, gs) in chain for g in gs) + o.guards
            ok = efx.guard_holds(allg, "is_dryrun", False)
            path = " -> ".join(f"{c[0].name}:{c[1]}" for c in chain) + f" -> {fn.name}:{o.line}"
            name = f"dry-run-frame:{fn.cls}.{fn.name}:{o.expr[:40]}"
            run.add_check(name, ok, "E-FX guard dominance over the call graph", 0, f"{path}: {o.expr[:60]}")
            if not ok:
                w = witness([m for m in MATRIX[:4]])
                run.fail(report.Failure(name, "frame", f"{o.where()}: `{o.expr}` can execute in a dry run (call path {path})", {"witness": w}, bool(w)))
        # the flag is handed on unchanged
        for call, g in calls:
            for k in call.keywords:
                if k.arg == "is_dryrun" and ast.unparse(k.value) not in ("is_dryrun", "True"):
                    run.add_check(f"dry-run-flag-passed-unchanged:{fn.name}:{call.lineno}", False, "E-FX", 0, ast.unparse(call)[:100])
    run.notes["fs_write_occurrences_reachable"] = n_w
    run.notes["unresolved_callees_assumed_pure"] = {k: sorted(v)[:12] for k, v in list(cg.unresolved.items())[:30]}
    # R4: the listing functions write nothing themselves
    for fn in (lo, li, ix.fns[R + "_list_configuration_only"]):
        occ, _ = efx.effects_in(fn)
        w = [o for o in occ if o.kind == "fs_write"]
        run.add_check(f"{fn.name}#no-direct-fs-writes", not w, "E-FX", 0, str([o.expr for o in w]))
    # R5: input listing: templates with the same arguments as the run; DSDL files incl. the dependency closure
    tcalls = find_calls(li.node, "get_templates")
    for recv in sigs:
        tc = [c for c in tcalls if c[0] == recv]
        gc = [c for c in gcalls if c[0] == recv]
        ok = len(tc) == 1 and len(gc) == 1 and guard_text(tc[0][2]) == guard_text(gc[0][2]) and \
            any(k.arg == "omit_serialization_support" and ast.unparse(k.value) == "self._args.omit_serialization_support" for k in tc[0][1].keywords)
        run.add_check(f"_list_inputs_only#templates-of:{recv.split('._')[1]}", ok, "E-FX relational", 0, "same guard and omit argument as the run")
    src = ast.unparse(li.node)
    has_types = "get_all_datatypes()" in src and "source_file_path" in src
    has_closure = ".transitive()" in src and "DependencyBuilder(" in src
    run.add_check("_list_inputs_only#lists-generated-types", has_types, "E-FX", 0, "")
    run.add_check("_list_inputs_only#lists-dependency-closure", has_closure, "E-FX", 0, "DependencyBuilder(<root datatypes>).transitive() is listed")
    if not has_closure:
        w = native_inputs_complete("c")
        run.fail(report.Failure("_list_inputs_only#lists-dependency-closure", "relational", "DSDL files reached through lookup directories are not listed"
                                + (f"; {w['why']}" if w else ""), {"witness": w}, bool(w)))
    # the filter that avoids listing a file twice may only drop what was listed just before
    gens = [n for n in ast.walk(li.node) if isinstance(n, (ast.GeneratorExp, ast.ListComp)) and "lookup" in ast.unparse(n)]
    if not gens:
        w = native_inputs_complete("c")
        run.add_check("_list_inputs_only#lookup-listing-drops-only-what-is-already-listed", False if w else None, "E-FX", 0, "the lookup dependencies are no longer listed through a filter over the dependency set")
        if w:
            run.fail(report.Failure("_list_inputs_only#lookup-listing-drops-only-what-is-already-listed", "relational", f"the lookup dependency listing was restructured; {w['why']}", {"witness": w}, True))
    for g in gens:
        conds = [ast.unparse(c) for comp in g.generators for c in comp.ifs]
        ok = all(c in ("d not in root_datatypes",) for c in conds)
        run.add_check("_list_inputs_only#lookup-listing-drops-only-what-is-already-listed", ok, "E-FX", 0, f"filters {conds}")
        if not ok:
            w = native_inputs_complete("c")
            run.fail(report.Failure("_list_inputs_only#lookup-listing-drops-only-what-is-already-listed", "relational", f"lookup dependencies are filtered by {conds}, which can drop files that were not listed"
                                    + (f"; {w['why']}" if w else ""), {"witness": w}, bool(w)))
    # the dependency closure really is transitive: every recursive call hands the flag on unchanged
    q = "nunavut._dependencies:DependencyBuilder._extract_dependent_types"
    if q in ix.fns:
        bad = []
        for n in ast.walk(ix.fns[q].node):
            if isinstance(n, ast.Call) and ast.unparse(n.func).endswith("_extract_dependent_types") and len(n.args) >= 2 and ast.unparse(n.args[1]) != "transitive":
                bad.append(ast.unparse(n)[:90])
        for q2 in ("nunavut._dependencies:DependencyBuilder._extract_dependent_types_handle_array_type",):
            pass
        run.add_check("DependencyBuilder._extract_dependent_types#transitive-flag-handed-on-unchanged", not bad, "E-FX", 0, str(bad))
        if bad:
            w = native_inputs_complete("c")
            run.fail(report.Failure("DependencyBuilder._extract_dependent_types#transitive-flag-handed-on-unchanged", "relational", f"recursive call drops the transitive flag: {bad}"
                                    + (f"; {w['why']}" if w else ""), {"witness": w}, bool(w)))
    else:
        run.undecide("binding failure: DependencyBuilder._extract_dependent_types")
    # get_templates: the set of listed templates is keyed by the full path
    q = "nunavut.jinja.loaders:DSDLTemplateLoader.get_templates"
    if q in ix.fns:
        fn = ix.fns[q].node
        adds = [ast.unparse(n.args[0]) for n in ast.walk(fn) if isinstance(n, ast.Call) and ast.unparse(n.func) == "files.add"]
        ok = sorted(adds) == ["template", "templates_base_path / pathlib.Path(t)"] and "sorted(files)" in ast.unparse(fn) and "files = set()" in ast.unparse(fn)
        run.add_check("DSDLTemplateLoader.get_templates#every-template-file-listed-by-full-path", ok, "E-FX", 0, f"files.add arguments {adds}")
        if not ok:
            w = native_custom_templates()
            run.fail(report.Failure("DSDLTemplateLoader.get_templates#every-template-file-listed-by-full-path", "relational", f"template listing built from {adds}"
                                    + (f"; {w['why']}" if w else ""), {"witness": w}, bool(w)))
    # SupportGenerator.get_templates must name the templates the support loader really resolves (custom
    # --support-templates directories included), as CodeGenerator.get_templates does for type templates
    q = "nunavut.jinja:SupportGenerator.get_templates"
    if q in ix.fns:
        src_t = ast.unparse(ix.fns[q].node)
        ok = "_dsdl_template_loader" in src_t or "support_templates" in src_t
        run.add_check("SupportGenerator.get_templates#lists-the-templates-the-loader-resolves", ok, "E-FX", 0, "consults the template loader / the custom support template directory")
        if not ok:
            w = native_custom_support_template()
            run.fail(report.Failure("SupportGenerator.get_templates#lists-the-templates-the-loader-resolves", "relational",
                                    "the support template listing is built from the package resources only" + (f"; {w['why']}" if w else ""), {"witness": w}, bool(w)))
    # files pulled in by built-in templates through include/import/extends must be covered by the (suffix-filtered) listing
    from nunavut.jinja.jinja2 import nodes as JN
    for path in sorted((SRC / "nunavut" / "lang").rglob("*.j2")):
        try:
            tree = efx.parse_template(SRC, path)
        except Exception:
            continue
        for node in tree.find_all((JN.Include, JN.Import, JN.FromImport, JN.Extends)):
            tn = node.template
            names = [tn.value] if isinstance(tn, JN.Const) and isinstance(tn.value, str) else []
            for nm in names:
                ok = nm.endswith(".j2")
                rel = path.relative_to(SRC).as_posix()
                run.add_check(f"{rel}#included-file-is-a-listed-template:{nm}", ok, "E-FX (Jinja AST)", 0, f"{rel}:{node.lineno} includes {nm}")
                if not ok:
                    run.fail(report.Failure(f"{rel}#included-file-is-a-listed-template:{nm}", "relational",
                                            f"{rel}:{node.lineno} includes {nm!r}, whose content reaches the output, but only *.j2 files are named by --list-inputs", {}, False))
    run.add_function("ArgparseRunner._list_outputs_only/_list_inputs_only/_list_configuration_only/_generate/_should_generate_support",
                     "DSDLCodeGenerator.generate_all/_generate_type", "SupportGenerator.generate_all/_generate_header/_copy_header/_copy_header_using_line_pps",
                     "CodeGenerator._generate_code/_handle_overwrite", "post-processors (SetFileMode, ExternalProgramEditInPlace)")
    # bounded native cross-check (never counted as proved)
    matrix = MATRIX if args.tier == "thorough" else MATRIX[:8:1]
    n, bad = 0, None
    for o in matrix:
        n += 1
        bad = bad or witness([o])
    run.add_bounded("nnvg --list-outputs == files created; listing and dry-run leave the file system untouched", f"{len(matrix)} option sets x one 3-type namespace with a lookup dependency", n, bad is None, str(bad or ""))
    if bad and not run.failures:
        run.fail(report.Failure("native#list-vs-generate", "relational", f"nnvg {' '.join(bad['input'])}: {bad['why']}", {"witness": bad}, True))
    for lang in (("c", "py") if args.tier == "thorough" else ("c",)):
        w = native_inputs_complete(lang)
        run.add_bounded(f"--list-inputs names every DSDL file whose content changes the output ({lang})", f"{len(DSDL)} files, one mutation each", len(DSDL), w is None, str(w or ""))
        if w and not any("dependency-closure" in f.obligation for f in run.failures):
            run.fail(report.Failure("native#inputs-complete", "relational", w["why"], {"witness": w}, True))
    w = native_custom_templates()
    run.add_bounded("--list-inputs names same-named custom templates in different sub-folders", "one custom template directory", 1, w is None, str(w or ""))
    run.trust("E-FX (vk/efx.py): call resolution by class hierarchy, guard dominance")
    run.assume("the file list returned by generate_all is a function of the namespace, the language context and omit_serialization_support (R2 checks the mode flags syntactically)",
               "OS file-system calls behave as documented; callees E-FX cannot resolve are pure (listed under unresolved_callees_assumed_pure)")
    run.explanation = "relational contract list==generate as equality of the result-relevant argument tuples and guards at the two call sites; dry-run frame as guard dominance over the call graph"
    return run.finish()


if __name__ == "__main__":
    report.main_wrapper(main)

"""C09: identifier stropping always yields valid, unreserved, deterministic identifiers.

For each target language (c, cpp, py) the REAL TokenEncoder of the working tree is constructed natively, its
configuration is read off the object (keyword list, compiled patterns, encoding rules, prefixes, failure handlers) and
every function of the stropping pipeline is verified against a contract instantiated with these constants
(contracts/c09.py): encode_character, _encoding_filter, _matches (per list), _strop_by_keyword, _strop_by_pattern and
_encode (per type key), _do_for_type_and_all (per transform and requested type), the language's failure handlers, and
finally strop for every identifier category:

    normal return  =>  result is a syntactically valid identifier
                       and is not a reserved identifier
                       and matches no reserved pattern of 'all' or of the requested type ('any': of any type)
    token valid, unreserved and free of characters to encode  =>  result == token

The bounded native enumeration (all strings up to length 3 over a 15-symbol alphabet, every reserved word and its
prefixed / suffixed / re-cased variants, x 6 categories x 3 languages) is a stand-in reported as bounded; it doubles as
the witness search when an obligation is not discharged.
"""
import ast
import itertools
import re
import typing

from vk import driver, efx, epy, report
from contracts import c09 as K
from props.common import SRC, parse_args

PROP = "C09"
ID_TYPES = ["any", "path", "macro", "typedef", "function", "enum"]
ALPHA = ["a", "Z", "_", "0", "9", " ", "-", ".", "é", "\t", "E", "i", "s", "t", "__"]


def native_search(lang: str, st: K.State, quick: bool):
    """first (id_type, token) on which the real filter returns an invalid / reserved token or changes a clean identifier"""
    from nunavut.lang import LanguageContextBuilder
    L = LanguageContextBuilder(include_experimental_languages=True).set_target_language(lang).create().get_target_language()
    kw = set(st.kw)
    ident = re.compile(r"[A-Za-z_][A-Za-z0-9_]*\Z")

    def pats(ty):
        return list(st.pat.get("all", [])) + (list(st.pat.get(ty, [])) if ty != "all" else [])

    def rules(ty):
        return list(st.rules.get("all", [])) + (list(st.rules.get(ty, [])) if ty != "all" else [])

    def reserved(tok, ty):
        return tok in kw or any(p.match(tok) for p in pats(ty))

    cands = set()
    for n in range(1, 4):
        for t in itertools.product(ALPHA, repeat=n):
            cands.add("".join(t))
    for w in st.kw:
        for v in (w, "_" + w, w + "_", "__" + w, w.upper(), w.capitalize(), "_" + w.capitalize(), w[1:], " " + w, w + " ", w.lstrip("_")):
            if v:
                cands.add(v)
    n = 0
    for ty in ID_TYPES:
        for tok in sorted(cands):
            n += 1
            try:
                r = L.filter_id(tok, ty)
                r2 = L.filter_id(tok, ty)
            except (RuntimeError, ValueError):
                continue
            why = None
            if r != r2:
                why = "two calls differ"
            elif not ident.match(r):
                why = f"result {r!r} is not a valid identifier"
            elif reserved(r, ty):
                why = f"result {r!r} is reserved"
            elif ident.match(tok) and not reserved(tok, ty) and not any(p.search(tok) for p in rules(ty)) and r != tok:
                why = f"clean identifier changed to {r!r}"
            elif any(p.search(r) for p in rules(ty)):
                # not part of the proved theorem (the contracts on re.sub are too coarse for it): the result should contain
                # nothing the language's own encoding rules would still rewrite (e.g. a trailing `__` in C++)
                why = f"result {r!r} still contains a sequence the encoding rules rewrite"
            if why:
                native_search.evaluations = getattr(native_search, "evaluations", 0) + n
                return {"input": {"language": lang, "id_type": ty, "token": tok}, "why": why, "evaluations": n}
    native_search.evaluations = getattr(native_search, "evaluations", 0) + n
    return None


# independent oracle for "keyword of that language": ISO C11 6.4.1, ISO C++20 [lex.key] + alternative tokens, and for
# Python the running interpreter's keyword.kwlist + dir(builtins) -- the configured reserved list must cover them
SPEC_KEYWORDS = {
    "c": "auto break case char const continue default do double else enum extern float for goto if inline int long register restrict return short signed sizeof static struct switch "
         "typedef union unsigned void volatile while _Alignas _Alignof _Atomic _Bool _Complex _Generic _Imaginary _Noreturn _Static_assert _Thread_local".split(),
    "cpp": "alignas alignof and and_eq asm auto bitand bitor bool break case catch char char8_t char16_t char32_t class compl concept const consteval constexpr constinit const_cast continue "
           "co_await co_return co_yield decltype default delete do double dynamic_cast else enum explicit export extern false float for friend goto if inline int long mutable namespace new "
           "noexcept not not_eq nullptr operator or or_eq private protected public register reinterpret_cast requires return short signed sizeof static static_assert static_cast struct switch "
           "template this thread_local throw true try typedef typeid typename union unsigned using virtual void volatile wchar_t while xor xor_eq".split(),
}


def keyword_coverage(run, lang: str, st):
    import builtins
    import keyword
    spec = SPEC_KEYWORDS.get(lang) or (list(keyword.kwlist) + dir(builtins))
    missing = sorted(set(spec) - set(st.kw))
    name = f"{lang}#configured-reserved-identifiers-cover-the-language-keywords"
    run.add_check(name, not missing, "finite set inclusion (ISO keyword list vs the real encoder's reserved list)", 0, f"{len(spec)} keywords; missing: {missing}")
    if missing:
        from nunavut.lang import LanguageContextBuilder
        L = LanguageContextBuilder(include_experimental_languages=True).set_target_language(lang).create().get_target_language()
        got = {}
        for w in missing[:5]:
            try:
                got[w] = L.filter_id(w, "any")
            except Exception as ex:  # an error is an allowed outcome
                got[w] = f"raises {type(ex).__name__}"
        bad = {w: r for w, r in got.items() if r == w}
        run.fail(report.Failure(name, "post", f"{lang}: language keywords {missing} are not reserved by the encoder's configuration" + (f"; real code returns them unchanged: {bad}" if bad else ""),
                                {"missing": missing, "filter_id": got}, bool(bad)))


def filter_id_shape(run, ix: efx.PyIndex, lang: str):
    """Language.filter_id hands default_filter_id_for_target(instance) and id_type to self._token_encoder.strop, nothing else"""
    q = f"nunavut.lang.{lang}:Language.filter_id"
    name = f"{lang}:Language.filter_id#returns-strop-of-the-default-name"
    if q not in ix.fns:
        run.undecide(f"binding failure: {q}")
        return
    fn = ix.fns[q].node
    body = [s for s in fn.body if not (isinstance(s, ast.Expr) and isinstance(s.value, ast.Constant))]
    src = " ; ".join(ast.unparse(s) for s in body)
    ok = False
    if len(body) in (2, 3) and isinstance(body[0], ast.Assign) and ast.unparse(body[0].value) == "self.default_filter_id_for_target(instance)" and isinstance(body[-1], ast.Return):
        raw = ast.unparse(body[0].targets[0])
        ret = ast.unparse(body[-1].value)
        enc = "self._token_encoder"
        if len(body) == 3 and isinstance(body[1], ast.Assign) and ast.unparse(body[1].value) == "self._token_encoder":
            enc = ast.unparse(body[1].targets[0])
        ok = ret == f"{enc}.strop({raw}, id_type)"
    run.add_check(name, ok, "E-FX shape", 0, src[:200])
    run.add_function(q)
    if not ok:
        run.fail(report.Failure(name, "post", f"{q}: the filter no longer returns self._token_encoder.strop(default name, id_type): {src[:200]}", {}, False))


def main():
    args = parse_args(PROP)
    run = report.Run(PROP, "proof", "./check C09", args.tier)
    ix = efx.PyIndex(SRC)
    total_eval = 0
    for lang in ("c", "cpp", "py"):
        eng = epy.Engine(SRC)
        try:
            st = K.State(lang)
            K.install(eng, st)
            cs = K.contracts(eng, st, ID_TYPES)
        except (epy.OutOfSubset, epy.BindingError, K.pyre.RegexOutOfSubset) as ex:
            run.undecide(f"{lang}: configuration outside the contract generator's subset: {ex}")
            continue
        wc: typing.Dict[str, typing.Any] = {}

        def w(lang=lang, st=st, wc=wc):
            if "w" not in wc:
                wc["w"] = native_search(lang, st, True)
            return wc["w"]

        # obligation names carry the per-language label; every function of the pipeline shares the language's witness search
        wit = {}
        for c in cs:
            wit[c.qualname + (f"[{c.label}]" if c.label else "")] = w
        driver.verify_contracts(run, eng, cs, witness=wit)
        filter_id_shape(run, ix, lang)
        keyword_coverage(run, lang, st)
        # bounded stand-in (never counted as proved)
        found = native_search(lang, st, args.tier != "thorough")
        ev = found["evaluations"] if found else None
        run.add_bounded(f"{lang}:filter_id-exhaustive-enumeration", f"strings up to length 3 over {len(ALPHA)} symbols + reserved-word variants x {len(ID_TYPES)} categories",
                        ev or getattr(native_search, "evaluations", 0), found is None, "" if found is None else f"{found['input']}: {found['why']}")
        if found is not None and not any(f.reproduced for f in run.failures):
            run.fail(report.Failure(f"{lang}:filter_id#bounded-enumeration", "post", f"real code: {found['input']}: {found['why']}", {"witness": found}, True))
        run.notes.setdefault("configuration", {})[lang] = {"keywords": len(st.kw), "pattern_keys": {k: [p.pattern for p in v] for k, v in st.pat.items()},
                                                           "encoding_rules": {k: [p.pattern for p in v] for k, v in st.rules.items()}, "prefix": st.pre, "suffix": st.suf,
                                                           "stropping_failure_handler": getattr(st.sh, "__qualname__", None), "encoding_failure_handler": getattr(st.eh, "__qualname__", None)}
    from props import lean_glue
    lean_glue.lemmas(run, "Glue.lean", ["L4_factor_closure", "L4_concat_closure"], "a factor of a word over an alphabet A is a word over A (the induction the SMT solvers do not do; used by the re.sub / re.match contracts)")
    run.trust("lean 4 (lemma L4 factor closure, lean/Glue.lean, checked on every run)", "z3 4.8.12 / z3 5.1.0 / cvc5 1.0.3 (string + regular-language theories)", "CPython's regex parser for the pattern texts (vk/pyre)", "E-PY semantics (vk/epy.py)",
              "TokenEncoder.__init__ and the language configuration loader (run natively to obtain the configuration constants)")
    run.assume("identifier syntax: [A-Za-z_][A-Za-z0-9_]* for C, C++ and Python (ASCII identifiers); 'reserved' = the configured keyword list (py: + keyword.kwlist + dir(builtins)) and the configured patterns of 'all' and the requested type",
               "SMT strings range over code points <= 0x2FFFF (Python: 0x10FFFF)",
               "determinism / same result in every process: strop reads only its arguments and the encoder's immutable configuration; functools.lru_cache is transparent (shared-state obligations of C10)",
               "configuration overrides other than the shipped properties.yaml are not instantiated")
    run.explanation = ("every function of the stropping pipeline verified modularly against regular-language contracts instantiated with the working tree's configuration; top-level theorem per language "
                       "and identifier category on TokenEncoder.strop; native enumeration as bounded stand-in and witness search")
    return run.finish()


if __name__ == "__main__":
    report.main_wrapper(main)

"""C10: per-type output ignores siblings, order and earlier runs (E-FX shared-state frame + E-PY + native replay)."""
import ast
import io
import re

from vk import driver, efx, epy, report
from contracts import c10_fx as K
from props.common import SRC, parse_args

PROP = "C10"
MUT = {"append", "extend", "insert", "update", "setdefault", "pop", "popitem", "clear", "add", "remove", "discard", "sort", "reverse", "appendleft"}


def state_writes(ix):
    out = []
    for q, f in sorted(ix.fns.items()):
        if f.module.startswith("nunavut.cli") or f.name in ("__init__", "__set_name__"):
            continue
        decos = [ast.unparse(d) for d in f.node.decorator_list]
        if any("lru_cache" in d or "cached_property" in d or d.endswith(".cache") for d in decos):
            out.append((q, "memoised", f.node.lineno))
        for n in ast.walk(f.node):
            if isinstance(n, ast.Global):
                out.append((q, f"global {n.names}", n.lineno))
            if isinstance(n, (ast.Assign, ast.AugAssign, ast.AnnAssign)):
                tg = n.targets if isinstance(n, ast.Assign) else [n.target]
                for t in tg:
                    base = t
                    while isinstance(base, ast.Subscript):
                        base = base.value
                    if isinstance(base, ast.Attribute):
                        r = ast.unparse(base.value)
                        if r in ("self", "cls") or r[:1].isupper():
                            out.append((q, ast.unparse(t)[:60], n.lineno))
            if isinstance(n, ast.Call) and isinstance(n.func, ast.Attribute) and n.func.attr in MUT:
                r = ast.unparse(n.func.value)
                if r.startswith("self.") or r.startswith("cls."):
                    out.append((q, ast.unparse(n)[:70], n.lineno))
    return out


def limiter_witness():
    """the same LimitEmptyLines object processes two files: the second file's output must equal its stand-alone output"""
    from nunavut.jinja import CodeGenerator
    from nunavut._postprocessors import LimitEmptyLines

    def render(pp, text):
        out = io.StringIO()
        CodeGenerator._generate_with_line_buffer(out, iter([text]), [pp])
        return out.getvalue()

    for first in ("A\n\n", "A\n\n\n", "\n"):
        for second in ("\nB\n", "\n\nB\n"):
            for N in (1, 2):
                alone = render(LimitEmptyLines(N), second)
                pp = LimitEmptyLines(N)
                render(pp, first)
                after = render(pp, second)
                if alone != after:
                    return {"input": {"limit": N, "earlier_file": first, "file": second}, "why": f"file renders as {after!r} after the earlier file, {alone!r} on its own"}
    return None


def native_subset_witness():
    """generate a namespace whole, then only a dependency-closed subset, and in another order: shared files equal"""
    import hashlib, pathlib, shutil, tempfile, pydsdl
    from vk import render
    from nunavut._namespace import build_namespace_tree
    from nunavut.jinja import DSDLCodeGenerator
    base = pathlib.Path(tempfile.mkdtemp(prefix="vk_c10_"))
    try:
        files = {"ns/A.1.0.dsdl": "uint8 x\nuint8 x_\n@sealed\n", "ns/B.1.0.dsdl": "ns.A.1.0 a\nint7[<=5] xs\n@sealed\n", "ns/C.1.0.dsdl": "@union\nuint8 p\nns.A.1.0 q\n@sealed\n"}
        for rel, t in files.items():
            (base / rel).parent.mkdir(parents=True, exist_ok=True)
            (base / rel).write_text(t)
        for lang in ("c", "py"):
            ctx = render.language_context(lang)
            types = pydsdl.read_namespace(str(base / "ns"), [])
            outs = []
            for k, subset in enumerate((types, [t for t in types if t.short_name != "C"], list(reversed(types)))):
                out = base / f"{lang}{k}"
                ns = build_namespace_tree(subset, str(base / "ns"), str(out), ctx)
                DSDLCodeGenerator(ns).generate_all()
                outs.append({p.relative_to(out).as_posix(): hashlib.sha256(p.read_bytes()).hexdigest() for p in out.rglob("*") if p.is_file()})
            for k in (1, 2):
                for f, h in outs[k].items():
                    if not re.search(r"_\d+_\d+\.\w+$", f):
                        continue  # namespace files (e.g. __init__.py) list their members: not a per-type file
                    if f in outs[0] and outs[0][f] != h:
                        return {"input": {"language": lang, "variant": ["whole", "subset without C", "reversed order"][k]}, "why": f"{f} differs from the whole-namespace run"}
        return None
    finally:
        shutil.rmtree(base, ignore_errors=True)


def main():
    args = parse_args(PROP)
    run = report.Run(PROP, "other", "./check C10", args.tier)
    ix = efx.PyIndex(SRC)
    cg = efx.CallGraph(ix, {"self._env": "CodeGenEnvironment", "self._dsdl_template_loader": "DSDLTemplateLoader"})
    roots = [ix.fns[q] for q in K.PER_FILE_ROOTS if q in ix.fns]
    if len(roots) != len(K.PER_FILE_ROOTS):
        run.undecide("binding failure: per-file entry points not found")
    reachable = {fn.qual for fn, _ in cg.reach(roots)}
    sites = state_writes(ix)
    by_fn = {}
    for q, what, line in sites:
        by_fn.setdefault(q, []).append((what, line))
    for q, items in sorted(by_fn.items()):
        what = "; ".join(w for w, _ in items)[:120]
        name = f"{q}#shared-state"
        if q not in K.CLASSIFY:
            if q == "nunavut._postprocessors:LimitEmptyLines.__call__":
                w = limiter_witness()
                run.add_check(name, False, "E-FX shared-state frame", 0, what)
                run.fail(report.Failure(name, "frame", f"{ix.fns[q].file}:{items[0][1]}: `{what}` survives from one generated file to the next and is neither reset per file nor a cache"
                                        + (f"; real code: {w['input']}: {w['why']}" if w else ""), {"witness": w}, bool(w)))
            else:
                run.add_check(name, False, "E-FX shared-state frame", 0, f"unclassified write to state that outlives one file: {what}")
                run.fail(report.Failure(name, "frame", f"{ix.fns[q].file}:{items[0][1]}: unclassified write to state that outlives one file's generation: {what}", {}, False))
            continue
        kind, why = K.CLASSIFY[q]
        ok = True
        detail = f"{kind}: {why} [{what}]"
        if kind == "build" and q in reachable:
            ok = False
            detail = f"classified as construction-time but reachable from the per-file entry points: {what}"
        run.add_check(name, ok, "E-FX shared-state frame", 0, detail)
        if not ok:
            run.fail(report.Failure(name, "frame", f"{ix.fns[q].file}: {detail}", {}, False))
        if kind in ("cache", "run"):
            run.assume(f"{q}: {kind} -- {why}")
    # reset obligations: both resets happen in _generate_code before the output file is opened (rendering is lazy and
    # happens while the file is written)
    q = "nunavut.jinja:CodeGenerator._generate_code"
    if q in ix.fns:
        fn = ix.fns[q].node
        order = [(i, n) for i, (n, g) in enumerate(efx.walk_with_guards(fn))]
        def first(pred):
            for i, n in order:
                if pred(n):
                    return i
            return None
        i_open = first(lambda n: isinstance(n, ast.With))
        i_uniq = first(lambda n: isinstance(n, ast.Call) and ast.unparse(n.func) == "UniqueNameGenerator.reset")
        i_now = first(lambda n: isinstance(n, ast.Assign) and ast.unparse(n.targets[0]) == "self._env.now_utc")
        for nm, i in (("UniqueNameGenerator.reset()", i_uniq), ("self._env.now_utc = ...", i_now)):
            ok = i is not None and i_open is not None and i < i_open
            run.add_check(f"CodeGenerator._generate_code#reset-before-render:{nm}", ok, "E-FX order", 0, f"walk index {i} before open at {i_open}")
            if not ok:
                w = native_subset_witness()
                run.fail(report.Failure(f"CodeGenerator._generate_code#reset-before-render:{nm}", "frame", f"{nm} is not executed before each file is rendered" + (f"; {w}" if w else ""), {"witness": w}, bool(w)))
        # the template generator must not be advanced before the reset: _generate_type only creates it
        q2 = "nunavut.jinja:DSDLCodeGenerator._generate_type"
        if q2 in ix.fns:
            src = ast.unparse(ix.fns[q2].node)
            lazy = "template.generate(" in src and "next(" not in src and "list(template_gen" not in src
            run.add_check("DSDLCodeGenerator._generate_type#template-generator-not-advanced-before-reset", lazy, "E-FX", 0, "")
    run.add_function(f"{len(by_fn)} functions writing state that outlives one file (of {len(ix.fns)} scanned)", "CodeGenerator._generate_code (reset order)")
    run.notes["shared_state_sites"] = len(sites)
    # UniqueNameGenerator.__call__: E-PY contract would need nested maps of ints; covered by the reset obligation + bounded check
    w = native_subset_witness()
    run.add_bounded("whole namespace vs dependency-closed subset vs reversed order: shared files byte-identical (c, py)", "3 types, 3 variants, 2 languages", 6, w is None, str(w or ""))
    if w:
        run.fail(report.Failure("native#subset/order", "frame", f"{w['input']}: {w['why']}", {"witness": w}, True))
    run.trust("E-FX (vk/efx.py)", "history lemma L2 (paper): per-file state reset or transparent => output independent of earlier files/runs")
    run.assume("Jinja's template cache is keyed by template name with auto_reload off; template rendering has no other hidden state")
    run.explanation = "closed-world scan of every write to state that outlives one file; each must be reset per file, a transparent cache, or unreachable from the per-file entry points"
    return run.finish()


if __name__ == "__main__":
    report.main_wrapper(main)

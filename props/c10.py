"""C10: per-type output ignores siblings, order and earlier runs (E-FX shared-state frame + E-PY + native replay)."""
import ast
import io
import re

from vk import driver, efx, epy, report
from contracts import c10_fx as K
from props.common import SRC, parse_args

PROP = "C10"
MUT = {"append", "extend", "insert", "update", "setdefault", "pop", "popitem", "clear", "add", "remove", "discard", "sort", "reverse", "appendleft"}


def state_writes(ix):
    """-> [(function, attribute root written ('self._x', 'cls._y', 'Class.z', 'global g') or 'memoised:<decorator>', line)]
    Writes through a local alias of such an attribute (`m = self._map[k]; m[x] = y`) count as writes to the attribute."""
    out = []
    for q, f in sorted(ix.fns.items()):
        if f.module.startswith("nunavut.cli") or f.name in ("__init__", "__set_name__"):
            continue
        for d in f.node.decorator_list:
            t = ast.unparse(d)
            if "lru_cache" in t or "cached_property" in t or t.endswith(".cache"):
                out.append((q, "memoised:" + t.split("(")[0].split(".")[-1], f.node.lineno))

        def root_of(e):
            base = e
            while isinstance(base, ast.Subscript):
                base = base.value
            if isinstance(base, ast.Attribute):
                r = ast.unparse(base.value)
                if r in ("self", "cls") or r[:1].isupper():
                    return f"{r}.{base.attr}"
                if r.endswith(".__dict__") or base.attr == "__dict__":
                    return ast.unparse(base)
            return None

        aliases = {}
        for n in ast.walk(f.node):
            if isinstance(n, ast.Assign) and len(n.targets) == 1 and isinstance(n.targets[0], ast.Name):
                r = root_of(n.value)
                if r is None and isinstance(n.value, ast.Call) and isinstance(n.value.func, ast.Attribute) and n.value.func.attr in ("get", "setdefault"):
                    r = root_of(n.value.func.value)
                if r is None and isinstance(n.value, ast.Name) and n.value.id in aliases:
                    r = aliases[n.value.id]
                if r is not None:
                    aliases[n.targets[0].id] = r
        for n in ast.walk(f.node):
            if isinstance(n, ast.Global):
                for g in n.names:
                    out.append((q, f"global {g}", n.lineno))
            if isinstance(n, ast.AugAssign) and isinstance(n.target, ast.Name) and n.target.id in aliases and isinstance(n.op, ast.Add) \
                    and isinstance(n.value, (ast.List, ast.ListComp, ast.Call, ast.Name, ast.Attribute, ast.BinOp)) and not isinstance(n.value, ast.Constant):
                # `alias += <sequence>` extends the aliased list IN PLACE (an int/str alias would be rebound, but then the
                # right-hand side is a number or string literal, excluded above)
                out.append((q, aliases[n.target.id], n.lineno))
            if isinstance(n, (ast.Assign, ast.AugAssign, ast.AnnAssign)):
                tg = n.targets if isinstance(n, ast.Assign) else [n.target]
                for t in tg:
                    r = root_of(t) if isinstance(t, (ast.Attribute, ast.Subscript)) else None
                    if r is None and isinstance(t, ast.Subscript):
                        base = t
                        while isinstance(base, ast.Subscript):
                            base = base.value
                        if isinstance(base, ast.Name) and base.id in aliases:
                            r = aliases[base.id]
                    if r is not None:
                        out.append((q, r, n.lineno))
            if isinstance(n, ast.Call) and isinstance(n.func, ast.Attribute) and n.func.attr in MUT:
                r = root_of(n.func.value)
                if r is None and isinstance(n.func.value, ast.Name) and n.func.value.id in aliases:
                    r = aliases[n.func.value.id]
                if r is not None:
                    out.append((q, r, n.lineno))
    return out


def param_mutations(ix):
    """in-place mutation of a list/dict PARAMETER (the caller's object) in the generator/filter code"""
    out = []
    for q, f in sorted(ix.fns.items()):
        if not (f.module.startswith("nunavut.jinja") or f.module.startswith("nunavut.lang") or f.module in ("nunavut._generators", "nunavut._postprocessors")):
            continue
        if "jinja2" in f.module:
            continue
        params = {a.arg for a in f.node.args.args + f.node.args.kwonlyargs} - {"self", "cls"}
        rebound = {t.id for n in ast.walk(f.node) if isinstance(n, ast.Assign) for t in n.targets if isinstance(t, ast.Name)}
        for n in ast.walk(f.node):
            nm = None
            if isinstance(n, ast.Call) and isinstance(n.func, ast.Attribute) and n.func.attr in MUT and isinstance(n.func.value, ast.Name):
                nm = n.func.value.id
            if isinstance(n, (ast.Assign, ast.AugAssign)):
                for t in (n.targets if isinstance(n, ast.Assign) else [n.target]):
                    if isinstance(t, ast.Subscript) and isinstance(t.value, ast.Name):
                        nm = t.value.id
            if nm in params:
                out.append((q, nm, n.lineno, nm in rebound))
    return out


def limiter_witness():
    """the same LimitEmptyLines object processes two files: the second file's output must equal its stand-alone output"""
    from nunavut.jinja import CodeGenerator
    from nunavut._postprocessors import LimitEmptyLines

    def render(pp, text):
        out = io.StringIO()
        CodeGenerator._generate_with_line_buffer(out, iter([text]), [pp])
        return out.getvalue()

    for first in ("A\n\n", "A\n\n\n", "\n"):
        for second in ("\nB\n", "\n\nB\n"):
            for N in (1, 2):
                alone = render(LimitEmptyLines(N), second)
                pp = LimitEmptyLines(N)
                render(pp, first)
                after = render(pp, second)
                if alone != after:
                    return {"input": {"limit": N, "earlier_file": first, "file": second}, "why": f"file renders as {after!r} after the earlier file, {alone!r} on its own"}
    return None


def volatile_witness(lang):
    """a user template with literal arguments to the unique-name filter, rendered in three runs of one process"""
    import pathlib, shutil, tempfile, pydsdl
    from vk import render
    from nunavut._namespace import build_namespace_tree
    from nunavut.jinja import DSDLCodeGenerator
    base = pathlib.Path(tempfile.mkdtemp(prefix="vk_c10v_"))
    try:
        (base / "ns").mkdir()
        (base / "tpl").mkdir()
        for nm in ("A", "B", "C"):
            (base / f"ns/{nm}.1.0.dsdl").write_text("uint8 x\n@sealed\n")
        (base / "tpl/Any.j2").write_text("{{ 'tmp' | to_template_unique_name }},{{ 'tmp' | to_template_unique_name }}\n")
        outs = []
        for k in range(3):
            ctx = render.language_context(lang)
            types = pydsdl.read_namespace(str(base / "ns"), [])
            out = base / f"o{k}"
            ns = build_namespace_tree(types, str(base / "ns"), str(out), ctx)
            DSDLCodeGenerator(ns, templates_dir=base / "tpl").generate_all()
            outs.append({p.name: p.read_text() for p in out.rglob("*") if p.is_file()})
        names = sorted(outs[0])
        first = outs[0][names[0]]
        for k, o in enumerate(outs):
            for nme in names:
                if o[nme] != first:
                    return {"input": {"language": lang, "user_template": "{{ 'tmp' | to_template_unique_name }},{{ 'tmp' | to_template_unique_name }}"},
                            "why": f"run {k}, {nme}: {o[nme].strip()!r}; first file of the first run: {first.strip()!r}"}
        return None
    except Exception as ex:
        return {"harness_error": f"{type(ex).__name__}: {ex}", "input": None, "why": ""}
    finally:
        shutil.rmtree(base, ignore_errors=True)


def native_redefinition_witness():
    """two generations in ONE process; between them a definition changes but keeps its name, version and bit length (its
    dependency moves to another type): the second run must equal a fresh-process run of the changed definitions"""
    import hashlib, pathlib, shutil, subprocess, sys, tempfile
    base = pathlib.Path(tempfile.mkdtemp(prefix="vk_c10r_"))
    try:
        prog = (
            "import sys, pathlib, hashlib, pydsdl\n"
            "from nunavut.lang import LanguageContextBuilder\nfrom nunavut._namespace import build_namespace_tree\nfrom nunavut.jinja import DSDLCodeGenerator\n"
            "base = pathlib.Path(sys.argv[1])\n"
            "def write(rev):\n"
            "    d = base / 'in/ns'; d.mkdir(parents=True, exist_ok=True)\n"
            "    (d / 'B.1.0.dsdl').write_text('uint8 x\\n@sealed\\n'); (d / 'C.1.0.dsdl').write_text('uint8 y\\n@sealed\\n')\n"
            "    (d / 'A.1.0.dsdl').write_text(('ns.B.1.0 f\\n' if rev == 'X' else 'ns.C.1.0 f\\n') + '@sealed\\n')\n"
            "def gen(out, lang):\n"
            "    ctx = LanguageContextBuilder(include_experimental_languages=True).set_target_language(lang).create()\n"
            "    ts = pydsdl.read_namespace(str(base / 'in/ns'), [])\n"
            "    ns = build_namespace_tree(ts, str(base / 'in/ns'), str(out), ctx)\n"
            "    DSDLCodeGenerator(ns).generate_all(False, True, False, False)\n"
            "    return {p.relative_to(out).as_posix(): hashlib.sha256(p.read_bytes()).hexdigest() for p in sorted(out.rglob('*')) if p.is_file()}\n"
            "import json\nres = {}\n"
            "for lang in ('c', 'cpp', 'py'):\n"
            "    if sys.argv[2] == 'history':\n"
            "        write('X'); gen(base / f'h_{lang}', lang)\n"
            "    write('Y'); res[lang] = gen(base / f'o_{sys.argv[2]}_{lang}', lang)\n"
            "print(json.dumps(res))\n")
        (base / "p.py").write_text(prog)
        import json, os
        env = dict(os.environ, PYTHONPATH=str(SRC), PYTHONDONTWRITEBYTECODE="1")
        outs = {}
        for mode in ("fresh", "history"):
            r = subprocess.run([sys.executable, str(base / "p.py"), str(base), mode], capture_output=True, text=True, env=env, timeout=300)
            if r.returncode != 0:
                return None
            outs[mode] = json.loads(r.stdout.strip().splitlines()[-1])
        for lang in outs["fresh"]:
            diff = [f for f in outs["fresh"][lang] if outs["history"][lang].get(f) != outs["fresh"][lang][f]]
            if diff:
                return {"input": {"language": lang, "history": ["generate with A.1.0 = {ns.B.1.0 f}", "generate with A.1.0 = {ns.C.1.0 f} (same name, version, bit length)"]},
                        "why": f"the second run differs from a fresh-process run of the same definitions in {diff[:3]}"}
        return None
    finally:
        shutil.rmtree(base, ignore_errors=True)


def native_history_witness():
    """earlier runs in the same process must not change a later run: (different stropping configuration, auditing on,
    another type set) then a plain run, compared with a fresh-process style plain run"""
    import hashlib, pathlib, shutil, tempfile, pydsdl
    from vk import render
    from nunavut._namespace import build_namespace_tree
    from nunavut.jinja import DSDLCodeGenerator, SupportGenerator
    if "w" in _HW:
        return _HW["w"]
    base = pathlib.Path(tempfile.mkdtemp(prefix="vk_c10h_"))
    try:
        files = {"ns/A.1.0.dsdl": "ns.B.1.0 b\nuint8 register\n@sealed\n", "ns/A.2.0.dsdl": "ns.B.2.0 b\n@sealed\n", "ns/B.1.0.dsdl": "uint8 x\n@sealed\n",
                 "ns/B.2.0.dsdl": "uint16 x\n@sealed\n", "ns/torque/T.1.0.dsdl": "uint8 v\n@sealed\n", "ns/Motor.1.0.dsdl": "float32 torque\n@sealed\n"}
        for rel, t in files.items():
            (base / rel).parent.mkdir(parents=True, exist_ok=True)
            (base / rel).write_text(t)

        def gen(out, lang="c", options=None, audit=False, subset=None, overrides=None):
            from nunavut.lang import LanguageContextBuilder
            b = LanguageContextBuilder(include_experimental_languages=True).set_target_language(lang)
            for k, v in (overrides or {}).items():
                b.set_target_language_configuration_override(k, v)
            ctx = b.create()
            types = pydsdl.read_namespace(str(base / "ns"), [])
            if subset:
                types = [t for t in types if t.short_name in subset]
            ns = build_namespace_tree(types, str(base / "ns"), str(out), ctx)
            DSDLCodeGenerator(ns).generate_all(False, True, False, audit)
            SupportGenerator(ns).generate_all(False, True, False, audit)
            return {p.relative_to(out).as_posix(): hashlib.sha256(p.read_bytes()).hexdigest() for p in out.rglob("*") if p.is_file()}

        for lang in ("c", "cpp"):
            ref = gen(base / f"ref_{lang}", lang)
            gen(base / f"h1_{lang}", lang, overrides={"stropping_prefix": "zz_"})
            gen(base / f"h2_{lang}", lang, audit=True)
            gen(base / f"h3_{lang}", lang, subset=("Motor",))
            again = gen(base / f"again_{lang}", lang)
            diff = [f for f in ref if again.get(f) != ref[f]]
            if diff:
                _HW["w"] = {"input": {"language": lang, "history": ["run with stropping_prefix=zz_", "run with auditing info", "run of the subset {Motor}", "plain run"]},
                            "why": f"the plain run after that history differs from the plain run before it in {diff[:4]}"}
                return _HW["w"]
            sub = gen(base / f"sub_{lang}", lang, subset=("Motor",))
            d2 = [f for f in sub if f in ref and sub[f] != ref[f] and "_1_0" in f]
            if d2:
                _HW["w"] = {"input": {"language": lang, "subset": ["Motor"]}, "why": f"subset run differs from the whole-namespace run in {d2[:4]}"}
                return _HW["w"]
        _HW["w"] = None
        return None
    finally:
        shutil.rmtree(base, ignore_errors=True)


_HW = {}


def _same_up_to_pydsdl_memo(a: str, b: str) -> bool:
    """two generated Python modules that are equal once the _MODEL_ blobs are decoded and pydsdl's internal memo of
    alignment queries (BitLengthSet operator attribute _modula) is ignored"""
    import ast as _ast, base64, gzip, pickle
    pat = re.compile(r"(_MODEL_: [\w.]+ = _restore_constant_\(\n)((?:\s+'.*'\n)+)")

    def split(text):
        models = []
        for m in pat.finditer(text):
            blob = "".join(_ast.literal_eval(l.strip()) for l in m.group(2).splitlines())
            models.append(pickle.loads(gzip.decompress(base64.b85decode(blob))))
        return pat.sub(r"\1<model>\n", text), models

    def same(x, y, seen):
        if (id(x), id(y)) in seen:
            return True
        seen.add((id(x), id(y)))
        if type(x) is not type(y):
            return False
        if hasattr(x, "__dict__"):
            dx, dy = dict(vars(x)), dict(vars(y))
            dx.pop("_modula", None), dy.pop("_modula", None)
            return dx.keys() == dy.keys() and all(same(dx[k], dy[k], seen) for k in dx)
        if isinstance(x, (list, tuple)):
            return len(x) == len(y) and all(same(p, q, seen) for p, q in zip(x, y))
        if isinstance(x, dict):
            return x.keys() == y.keys() and all(same(x[k], y[k], seen) for k in x)
        if isinstance(x, (set, frozenset)):
            return x == y
        return x == y
    try:
        ta, ma = split(a)
        tb, mb = split(b)
        return ta == tb and len(ma) == len(mb) and all(same(p, q, set()) for p, q in zip(ma, mb))
    except Exception:
        return False


def native_subset_witness():
    """generate a namespace whole, then only a dependency-closed subset, and in another order: shared files equal"""
    import hashlib, pathlib, shutil, tempfile, pydsdl
    from vk import render
    from nunavut._namespace import build_namespace_tree
    from nunavut.jinja import DSDLCodeGenerator
    base = pathlib.Path(tempfile.mkdtemp(prefix="vk_c10_"))
    found: list = []
    try:
        files = {"ns/A.1.0.dsdl": "uint8 x\nuint8 x_\n@sealed\n", "ns/B.1.0.dsdl": "ns.A.1.0 a\nint7[<=5] xs\n@sealed\n", "ns/C.1.0.dsdl": "@union\nuint8 p\nns.A.1.0 q\n@sealed\n",
                 # a composite used as a plain field after a sub-byte field and followed by another field (its offsets are
                 # computed while the HOLDER is rendered)
                 "ns/Leaf.1.0.dsdl": "uint8 v\nuint3 w\n@sealed\n", "ns/Holder.1.0.dsdl": "uint3 a\nns.Leaf.1.0 leaf\nuint8 tail\n@sealed\n"}
        for rel, t in files.items():
            (base / rel).parent.mkdir(parents=True, exist_ok=True)
            (base / rel).write_text(t)
        from nunavut._utilities import YesNoDefault
        for lang, nstypes in (("c", YesNoDefault.DEFAULT), ("py", YesNoDefault.DEFAULT), ("py", YesNoDefault.NO)):
            ctx = render.language_context(lang)
            outs = []
            texts = []
            for k in range(3):
                types = pydsdl.read_namespace(str(base / "ns"), [])  # fresh model objects for every run
                subset = (types, [t for t in types if t.short_name != "C"], list(reversed(types)))[k]
                out = base / f"{lang}{k}{nstypes.name}"
                ns = build_namespace_tree(subset, str(base / "ns"), str(out), ctx)
                DSDLCodeGenerator(ns, generate_namespace_types=nstypes).generate_all()
                outs.append({p.relative_to(out).as_posix(): hashlib.sha256(p.read_bytes()).hexdigest() for p in out.rglob("*") if p.is_file()})
                texts.append({p.relative_to(out).as_posix(): p.read_text() for p in out.rglob("*") if p.is_file()})
            for k in (1, 2):
                for f, h in outs[k].items():
                    if not re.search(r"_\d+_\d+\.\w+$", f):
                        continue  # namespace files (e.g. __init__.py) list their members: not a per-type file
                    if f in outs[0] and outs[0][f] != h:
                        memo_only = lang == "py" and _same_up_to_pydsdl_memo(texts[0][f], texts[k][f])
                        found.append({"file": f, "lang": lang, "memo_only": memo_only,
                                      "input": {"language": lang, "namespace_types": nstypes.name, "variant": ["whole", "subset without C", "reversed order"][k]},
                                      "why": f"{f} differs from the whole-namespace run" + (" only in pydsdl's bit-length-set memo (_modula) pickled into _MODEL_" if memo_only else "")})
        return found
    finally:
        shutil.rmtree(base, ignore_errors=True)


def main():
    args = parse_args(PROP)
    run = report.Run(PROP, "other", "./check C10", args.tier)
    ix = efx.PyIndex(SRC)
    cg = efx.CallGraph(ix, {"self._env": "CodeGenEnvironment", "self._dsdl_template_loader": "DSDLTemplateLoader"})
    roots = [ix.fns[q] for q in K.PER_FILE_ROOTS if q in ix.fns]
    if len(roots) != len(K.PER_FILE_ROOTS):
        run.undecide("binding failure: per-file entry points not found")
    reachable = {fn.qual for fn, _ in cg.reach(roots)}
    sites = state_writes(ix)
    by_fn = {}
    for q, what, line in sites:
        by_fn.setdefault(q, []).append((what, line))
    for q, items in sorted(by_fn.items()):
        roots = sorted({w for w, _ in items})
        what = "; ".join(roots)[:160]
        name = f"{q}#shared-state"
        if q not in K.CLASSIFY:
            if q == "nunavut._postprocessors:LimitEmptyLines.__call__":
                w = limiter_witness()
                run.add_check(name, False, "E-FX shared-state frame", 0, what)
                run.fail(report.Failure(name, "frame", f"{ix.fns[q].file}:{items[0][1]}: `{what}` survives from one generated file to the next and is neither reset per file nor a cache"
                                        + (f"; real code: {w['input']}: {w['why']}" if w else ""), {"witness": w}, bool(w)))
            else:
                run.add_check(name, False, "E-FX shared-state frame", 0, f"unclassified write to state that outlives one file: {what}")
                w = native_history_witness()
                run.fail(report.Failure(name, "frame", f"{ix.fns[q].file}:{items[0][1]}: unclassified write to state that outlives one file's generation: {what}"
                                        + (f"; {w['input']}: {w['why']}" if w else ""), {"witness": w}, bool(w)))
            continue
        kind, why = K.CLASSIFY[q][0], K.CLASSIFY[q][1]
        expected = K.CLASSIFY[q][2] if len(K.CLASSIFY[q]) > 2 else None
        ok = True
        detail = f"{kind}: {why} [{what}]"
        if kind == "build" and q in reachable:
            ok = False
            detail = f"classified as construction-time but reachable from the per-file entry points: {what}"
        if expected is not None and set(roots) != set(expected):
            ok = False
            detail = f"the state this function writes changed: now {roots}, classified for {sorted(expected)} ({kind}: {why})"
        run.add_check(name, ok, "E-FX shared-state frame", 0, detail)
        if not ok:
            w = native_history_witness()
            run.fail(report.Failure(name, "frame", f"{ix.fns[q].file}: {detail}" + (f"; {w['input']}: {w['why']}" if w else ""), {"witness": w}, bool(w)))
        if kind in ("cache", "run"):
            run.assume(f"{q}: {kind} -- {why}")
    # every classified memoisation must still be there in the classified form (a hand-rolled replacement is a new site)
    for q, c in K.CLASSIFY.items():
        if len(c) > 2 and q not in by_fn and q in ix.fns and c[2]:
            run.add_check(f"{q}#shared-state", False, "E-FX shared-state frame", 0, f"classified memoisation {sorted(c[2])} is gone")
            w = native_history_witness()
            run.fail(report.Failure(f"{q}#shared-state", "frame", f"{ix.fns[q].file}: the classified memoisation {sorted(c[2])} was replaced" + (f"; {w['input']}: {w['why']}" if w else ""), {"witness": w}, bool(w)))
    # a memoised function keyed by pydsdl objects must carry the per-run object (`self`) in its key: pydsdl composite types
    # compare by name, version and bit-length set, so a process-wide cache would serve the result of an EARLIER run's
    # definition to a later run (two definitions of one name/version with equal bit lengths are "equal")
    for qn, f in sorted(ix.fns.items()):
        decos = [ast.unparse(d) for d in f.node.decorator_list]
        if not any("lru_cache" in d or d.endswith(".cache") for d in decos):
            continue
        params = [a.arg for a in f.node.args.args]
        if params[:1] == ["self"] and ":" in qn and "." in qn.split(":")[1]:
            # a method memoised with `self` in the key is keyed by object IDENTITY only as long as its class does not define
            # its own equality: a value-based __eq__/__hash__ makes two objects share cached results, and then equality must
            # cover everything the method reads (which it does not have to today)
            cname = qn.split(":")[1].split(".")[0]
            mod_fns = [g for gq, g in ix.fns.items() if gq.startswith(qn.split(":")[0] + ":" + cname + ".") and g.name in ("__eq__", "__hash__")]
            name = f"{qn}#memoised-method-is-keyed-by-object-identity"
            run.add_check(name, not mod_fns, "E-FX memoisation key", 0, f"class {cname} defines {[g.name for g in mod_fns]}")
            if mod_fns:
                run.fail(report.Failure(name, "frame", f"{f.file}:{f.node.lineno}: {f.name} is memoised with `self` in the key, and class {cname} now defines {sorted(g.name for g in mod_fns)}: "
                                        "objects that compare equal share cached results although they may differ in state the method reads (e.g. two encoders with different reserved patterns)", {}, False))
        takes_model = any("pydsdl" in ast.unparse(a.annotation) for a in f.node.args.args if a.annotation is not None)
        per_run_key = bool(params) and params[0] == "self" and not any("staticmethod" in d or "classmethod" in d for d in decos)
        if not takes_model:
            continue
        name = f"{qn}#memoised-on-a-pydsdl-value-keeps-the-per-run-object-in-its-key"
        run.add_check(name, per_run_key, "E-FX memoisation key", 0, f"decorators {decos}, parameters {params}")
        if not per_run_key:
            hw2 = native_redefinition_witness()
            run.fail(report.Failure(name, "frame", f"{f.file}:{f.node.lineno}: {f.name} is memoised process-wide on a pydsdl value (decorators {decos}, parameters {params}): pydsdl types compare by name, "
                                    "version and bit-length set, so a later run with a changed definition of the same name gets the earlier run's result" + (f"; {hw2['input']}: {hw2['why']}" if hw2 else ""),
                                    {"witness": hw2}, bool(hw2)))
    # caller-owned containers are not mutated in place on the generator path
    for q, nm, line, rebound in param_mutations(ix):
        name = f"{q}#parameter-mutated-in-place:{nm}"
        ok = q in K.PARAM_MUTATION_OK
        run.add_check(name, ok, "E-FX frame", 0, f"{ix.fns[q].file}:{line}: in-place mutation of parameter `{nm}`" + (f" -- {K.PARAM_MUTATION_OK[q]}" if ok else ""))
        if not ok:
            run.fail(report.Failure(name, "frame", f"{ix.fns[q].file}:{line}: parameter `{nm}` (the caller's object) is mutated in place; a container reused for another generator carries the change along", {}, False))
    # structure of the two mechanisms the classification relies on
    q = "nunavut.lang._common:UniqueNameGenerator.reset"
    if q in ix.fns:
        body = [ast.unparse(st) for st in ix.fns[q].node.body if not (isinstance(st, ast.Expr) and isinstance(st.value, ast.Constant))]
        ok = body == ["cls._singleton = cls()"] and len(ix.fns[q].node.args.args) == 1
        run.add_check("UniqueNameGenerator.reset#replaces-the-whole-generator", ok, "E-FX structure", 0, str(body))
        if not ok:
            w = native_history_witness()
            run.fail(report.Failure("UniqueNameGenerator.reset#replaces-the-whole-generator", "frame", f"reset() no longer replaces the whole name generator: {body}" + (f"; {w['input']}: {w['why']}" if w else ""), {"witness": w}, bool(w)))
    q = "nunavut._utilities:cached_property.__get__"
    if q in ix.fns:
        src = ast.unparse(ix.fns[q].node)
        ok = "cache = instance.__dict__" in src and "cache[self._attr_name] = val" in src and "self.__dict__" not in src
        run.add_check("cached_property.__get__#value-cached-on-the-instance", ok, "E-FX structure", 0, "")
        if not ok:
            w = native_history_witness()
            run.fail(report.Failure("cached_property.__get__#value-cached-on-the-instance", "frame", "cached_property no longer stores the value in the instance's own __dict__" + (f"; {w['input']}: {w['why']}" if w else ""), {"witness": w}, bool(w)))
    # filters that read the per-file name generator must not be constant-folded at template compile time
    for q, f in sorted(ix.fns.items()):
        if "UniqueNameGenerator.get_instance()" in ast.unparse(f.node) and f.name.startswith("filter_"):
            decos = [ast.unparse(d) for d in f.node.decorator_list]
            ok = any("template_volatile_filter" in d or "template_context_filter" in d or "template_environment_filter" in d for d in decos)
            name = f"{q}#per-file-state-filter-is-volatile"
            run.add_check(name, ok, "E-FX", 0, f"decorators {decos}")
            if not ok:
                w = volatile_witness(f.module.split(".")[-1])
                if w and w.get("harness_error"):
                    run.notes["volatile_witness_error"] = w["harness_error"]
                    w = None
                run.fail(report.Failure(name, "frame", f"{f.file}:{f.node.lineno}: {f.name} reads the per-file unique-name state but is not marked volatile: the template compiler may fold it at compile time"
                                        + (f"; {w['input']}: {w['why']}" if w else ""), {"witness": w}, bool(w)))
    # reset obligations: both resets happen in _generate_code before the output file is opened (rendering is lazy and
    # happens while the file is written)
    q = "nunavut.jinja:CodeGenerator._generate_code"
    if q in ix.fns:
        fn = ix.fns[q].node
        order = [(i, n) for i, (n, g) in enumerate(efx.walk_with_guards(fn))]
        def first(pred):
            for i, n in order:
                if pred(n):
                    return i
            return None
        i_open = first(lambda n: isinstance(n, ast.With))
        i_uniq = first(lambda n: isinstance(n, ast.Call) and ast.unparse(n.func) == "UniqueNameGenerator.reset")
        i_now = first(lambda n: isinstance(n, ast.Assign) and ast.unparse(n.targets[0]) == "self._env.now_utc")
        for nm, i in (("UniqueNameGenerator.reset()", i_uniq), ("self._env.now_utc = ...", i_now)):
            ok = i is not None and i_open is not None and i < i_open
            run.add_check(f"CodeGenerator._generate_code#reset-before-render:{nm}", ok, "E-FX order", 0, f"walk index {i} before open at {i_open}")
            if not ok:
                w = native_subset_witness()
                run.fail(report.Failure(f"CodeGenerator._generate_code#reset-before-render:{nm}", "frame", f"{nm} is not executed before each file is rendered" + (f"; {w}" if w else ""), {"witness": w}, bool(w)))
        # the template generator must not be advanced before the reset: _generate_type only creates it
        q2 = "nunavut.jinja:DSDLCodeGenerator._generate_type"
        if q2 in ix.fns:
            src = ast.unparse(ix.fns[q2].node)
            lazy = "template.generate(" in src and "next(" not in src and "list(template_gen" not in src
            run.add_check("DSDLCodeGenerator._generate_type#template-generator-not-advanced-before-reset", lazy, "E-FX", 0, "")
    run.add_function(f"{len(by_fn)} functions writing state that outlives one file (of {len(ix.fns)} scanned)", "CodeGenerator._generate_code (reset order)")
    run.notes["shared_state_sites"] = len(sites)
    # UniqueNameGenerator.__call__: E-PY contract would need nested maps of ints; covered by the reset obligation + bounded check
    hw = native_history_witness()
    run.add_bounded("a plain run after (other stropping prefix, auditing on, subset) runs in the same process equals the plain run before; subset == whole for shared types (c, cpp)",
                    "6 types incl. two versions of one type and a field/namespace name clash, 2 languages", 12, hw is None, str(hw or ""))
    if hw and not run.failures:
        run.fail(report.Failure("native#history", "frame", f"{hw['input']}: {hw['why']}", {"witness": hw}, True))
    rw = native_redefinition_witness()
    run.add_bounded("a definition changed between two runs of one process (same name, version, bit length): second run == fresh-process run (c, cpp, py)", "1 redefinition, 3 languages", 3, rw is None, str(rw or ""))
    if rw and not run.failures:
        run.fail(report.Failure("native#redefinition-between-runs", "frame", f"{rw['input']}: {rw['why']}", {"witness": rw}, True))
    ws = native_subset_witness()
    def _nm(w):
        return f"native#subset/order[{w['lang']}:{w['file']}]" + ("(pydsdl-memo-in-the-pickled-model)" if w.get("memo_only") else "")
    names = sorted({_nm(w) for w in ws})
    run.add_bounded("whole namespace vs dependency-closed subset vs reversed order: shared files byte-identical (c, py)", "5 types, 3 variants, 2 languages", 10, not ws, str(ws[:2] if ws else ""), names)
    for nm in names:
        w = next(x for x in ws if _nm(x) == nm)
        run.fail(report.Failure(nm, "frame", f"{w['input']}: {w['why']}", {"witness": w}, True))
    from props import lean_glue
    lean_glue.lemmas(run, "Glue.lean", ["L2_per_file", "L2_order_independent"], "per-file output independent of the incoming generator state => each file's output in any sequence equals its output alone")
    run.trust("E-FX (vk/efx.py)", "lean 4 (history lemma L2: per-file state reset or transparent => output independent of earlier files/runs; lean/Glue.lean, checked on every run)")
    run.assume("Jinja's template cache is keyed by template name with auto_reload off; template rendering has no other hidden state")
    run.explanation = "closed-world scan of every write to state that outlives one file; each must be reset per file, a transparent cache, or unreachable from the per-file entry points"
    return run.finish()


if __name__ == "__main__":
    report.main_wrapper(main)

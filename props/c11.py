"""C11: types map one-to-one onto files in the output tree; the namespace model is a tree.

Decided for all inputs (contract part):
  * path lemmas (SMT, strings): a path component produced for a type or namespace is a stropped identifier, and by C09's
    theorem lies in [A-Za-z_][A-Za-z0-9_]*; such a component is never empty, '.', '..' and contains no separator, also with
    the configured extension appended -- so base/<components> cannot leave the output directory; and the file name
    <short>_<major>_<minor> determines (short, major, minor) (numerals contain no '_'), i.e. distinct types of one
    namespace get distinct file names unless stropping folds the names.
  * relational obligations on the real ASTs (E-FX): a type's output path is base / make_path(type, language, extension);
    make_path is Path(*[strop(c, 'path') for c in full_namespace.split('.')]) / strop(short_M_m, 'path') + extension;
    Namespace.__init__ builds its folder from the same per-component strop with id type 'path' -- so a namespace's folder is
    the folder of its types and (with C06's include == output) a type has the same relative path when merely referenced.
Not within reach of a contract in this framework (sets and dicts of heap objects with parent links, quantified prefix
closure over strings): the tree invariants of build_namespace_tree.  They are checked by a BOUNDED stand-in on the real
function: enumerated namespace shapes up to depth 4 (gaps, several versions, keyword names) x languages, every invariant of
the statement evaluated on the resulting model.
"""
import ast
import itertools
import pathlib
import shutil
import signal
import tempfile
import typing

from vk import efx, render, report, smt
from contracts import c09 as K9
from props.common import SRC, parse_args

PROP = "C11"


def lemmas() -> typing.List[smt.Obligation]:
    obs = []
    ident = K9.IDENT
    bad = '(re.union (str.to_re "") (str.to_re ".") (str.to_re "..") (re.++ re.all (re.union (str.to_re "/") (str.to_re "\\\\") (str.to_re "\\u{0}")) re.all))'
    obs.append(smt.Obligation(name="lemma#a-stropped-component-cannot-climb-or-split-a-path", kind="lemma", decls=["(declare-const c String)"],
                              assumptions=[f"(str.in_re c {ident})"], goal=f"(not (str.in_re c {bad}))", function="path-lemmas", theory="string"))
    for ext in (".h", ".hpp", ".py", ".html", ""):
        obs.append(smt.Obligation(name=f"lemma#file-name-with-extension-{ext or 'none'}-is-one-component", kind="lemma", decls=["(declare-const c String)"],
                                  assumptions=[f"(str.in_re c {ident})"], goal=f'(not (str.in_re (str.++ c "{ext}") {bad}))', function="path-lemmas", theory="string"))
    # <short>_<major>_<minor> determines its parts: decimal numerals contain no '_' (stated over numeral strings; str(int) of a
    # non-negative int is such a numeral -- assumed as in C05)
    num = '(re.+ (re.range "0" "9"))'
    obs.append(smt.Obligation(name="lemma#short_major_minor-determines-its-parts", kind="lemma",
                              decls=[f"(declare-const {v} String)" for v in ("a", "b", "m1", "n1", "m2", "n2")],
                              assumptions=[f"(str.in_re {v} {num})" for v in ("m1", "n1", "m2", "n2")] + ['(= (str.++ a "_" m1 "_" n1) (str.++ b "_" m2 "_" n2))'],
                              goal="(and (= a b) (= m1 m2) (= n1 n2))", function="path-lemmas", theory="string", timeout=120))
    return obs


def relational(run):
    ix = efx.PyIndex(SRC)
    checks = []

    def fn(q):
        if q not in ix.fns:
            run.undecide(f"binding failure: {q}")
            return None
        run.add_function(q)
        return ix.fns[q].node

    f = fn("nunavut._namespace:Namespace._add_data_type")
    if f is not None:
        a = [n for n in ast.walk(f) if isinstance(n, ast.Assign)]
        ok = len(a) == 1 and ast.unparse(a[0].targets[0]) == "self._data_type_to_outputs[dsdl_type]" and \
            ast.unparse(a[0].value).replace("\n", "").startswith("pathlib.Path(self._base_output_path) / IncludeGenerator.make_path(")
        checks.append(("Namespace._add_data_type#registers-base/make_path-under-the-type", ok, ast.unparse(a[0])[:160] if a else ""))
    f = fn("nunavut.lang._common:IncludeGenerator.make_path")
    if f is not None:
        src = ast.unparse(f)
        ok = "pathlib.Path(*cls._make_ns_list(language, dt)) / pathlib.Path(short_name).with_suffix(output_extension)" in src and \
            "short_name = language.filter_short_reference_name(dt, id_type='path')" in src
        checks.append(("IncludeGenerator.make_path#namespace-components-then-stropped-short-name-with-extension", ok, ""))
    f = fn("nunavut.lang._common:IncludeGenerator._make_ns_list")
    if f is not None:
        src = ast.unparse(f)
        ok = "[language.filter_id(x, id_type='path') for x in dt.full_namespace.split('.')]" in src
        checks.append(("IncludeGenerator._make_ns_list#every-component-stropped-as-path", ok, ""))
    f = fn("nunavut.lang._language:Language.filter_short_reference_name")
    if f is not None:
        src = ast.unparse(f)
        ok = "short_name = f'{t.short_name}_{t.version.major}_{t.version.minor}'" in src and "return self.filter_id(short_name, id_type)" in src
        checks.append(("Language.filter_short_reference_name#short_major_minor-then-strop", ok, ""))
    f = fn("nunavut._namespace:Namespace.__init__")
    if f is not None:
        src = ast.unparse(f)
        ok = "self._namespace_components_stropped.append(language_context.filter_id_for_target(component, 'path'))" in src and \
            "for component in full_namespace.split('.')" in src and \
            "self._output_folder = pathlib.Path(base_output_path / pathlib.PurePath(*self._namespace_components_stropped))" in src
        checks.append(("Namespace.__init__#folder-is-base/stropped-components-(same-strop-as-make_path)", ok, ""))
    f = fn("nunavut.lang:LanguageContext.filter_id_for_target")
    if f is not None:
        rets = [ast.unparse(n.value) for n in ast.walk(f) if isinstance(n, ast.Return) and n.value is not None]
        ok = any("filter_id(instance, id_type)" in r for r in rets)
        checks.append(("LanguageContext.filter_id_for_target#delegates-to-the-target-language's-filter_id", ok, str(rets)[:120]))
    f = fn("nunavut._namespace:Namespace.get_support_output_folder")
    if f is not None:
        rets = [ast.unparse(n.value) for n in ast.walk(f) if isinstance(n, ast.Return) and n.value is not None]
        ok = rets == ["self._base_output_path"]
        checks.append(("Namespace.get_support_output_folder#is-the-output-directory-itself", ok, str(rets)[:120]))
    for name, ok, detail in checks:
        run.add_check(name, ok, "E-FX relational shape (AST)", 0, detail)
        if not ok:
            run.fail(report.Failure(name, "post", f"the output path of a type is no longer provably base/stropped-namespace/stropped-name: {name} {detail}", {}, False))
    return len(checks)


# ---------------------------------------------------------------------------------------------------------------------
SHAPES = [
    # (root namespace, list of (sub-namespace components, short name, versions))
    ("r", [((), "A", [(1, 0)])]),
    ("r", [((), "A", [(1, 0), (1, 1), (2, 0)]), ((), "B", [(0, 1)])]),
    ("r", [(("x",), "A", [(1, 0)])]),
    ("r", [(("x", "y", "z"), "A", [(1, 0)])]),  # empty intermediates r.x, r.x.y
    ("r", [(("x", "y", "z"), "A", [(1, 0)]), (("x",), "B", [(1, 0)]), (("w", "y"), "C", [(1, 0)])]),
    ("r", [(("x", "y"), "A", [(1, 0)]), (("x", "yy"), "A", [(1, 0)]), (("xx", "y"), "A", [(1, 0)])]),  # names that are prefixes of each other
    ("register", [(("class", "if"), "Else", [(1, 0)]), (("class",), "Import", [(1, 0), (1, 1)])]),  # components needing stropping
    ("r", [((), "A_1", [(1, 0)]), ((), "A", [(1, 1)]), ((), "A_1_1", [(0, 1)])]),  # underscores and digits in short names
    ("r", [((), "A", [(1, 0)]), (("x",), "B", [(1, 0)]), (("w",), "C", [(1, 0)]), (("x", "y"), "D", [(1, 0)]), (("x", "z"), "E", [(1, 0)])]),  # types at nodes with several children
    ("r", [(("a", "b", "c", "d"), "T", [(1, 0)]), (("a", "b", "c"), "T", [(1, 0)]), (("a", "b"), "T", [(1, 0)]), (("a",), "T", [(1, 0)]), ((), "T", [(1, 0)])]),
]


def check_tree(root, types, outdir: pathlib.Path, lang: str) -> typing.List[str]:
    from nunavut._namespace import Namespace
    errs = []
    seen_ns: typing.Dict[str, typing.Any] = {}
    type_paths: typing.Dict[typing.Any, pathlib.Path] = {}
    count_types: typing.Dict[typing.Any, int] = {}

    on_path: typing.Set[int] = set()

    def walk(ns, depth):
        raw = ".".join(ns._namespace_components)
        if id(ns) in on_path:  # a cycle is not a tree; do not follow it
            errs.append(f"namespace {raw} is its own descendant (cycle in the parent/child links)")
            return
        if raw in seen_ns:
            errs.append(f"namespace {raw} occurs twice in the tree")
        seen_ns[raw] = ns
        on_path.add(id(ns))
        for t, p in ns.get_nested_types():
            count_types[t] = count_types.get(t, 0) + 1
            type_paths[t] = p
            if t.full_namespace != raw:
                errs.append(f"type {t} filed under namespace {raw}")
        for ch in ns.get_nested_namespaces():
            if ch._parent is not ns:
                errs.append(f"child {'.'.join(ch._namespace_components)} of {raw} has parent {ch._parent and '.'.join(ch._parent._namespace_components)}")
            if ch._namespace_components[:-1] != ns._namespace_components:
                errs.append(f"{'.'.join(ch._namespace_components)} nested under {raw}")
            walk(ch, depth + 1)
        on_path.discard(id(ns))

    if root._parent is not None:
        errs.append("root has a parent")
    walk(root, 0)
    for t in types:
        if count_types.get(t, 0) != 1:
            errs.append(f"type {t} occurs {count_types.get(t, 0)} times in the model")
        comps = t.full_namespace.split(".")
        for i in range(1, len(comps) + 1):
            if ".".join(comps[:i]) not in seen_ns:
                errs.append(f"namespace {'.'.join(comps[:i])} on the way to {t} is missing")
    extra = set(seen_ns) - {".".join(t.full_namespace.split(".")[:i]) for t in types for i in range(1, len(t.full_namespace.split(".")) + 1)}
    if extra and types:
        errs.append(f"namespaces without any type below them: {sorted(extra)}")
    out = outdir.resolve()
    L = root.get_language_context().get_target_language()
    ext = L.extension
    inv: typing.Dict[pathlib.Path, typing.Any] = {}
    for t, p in type_paths.items():
        want = out.joinpath(*[L.filter_id(c, "path") for c in t.full_namespace.split(".")]) / (L.filter_id(f"{t.short_name}_{t.version.major}_{t.version.minor}", "path") + ext)
        rp = pathlib.Path(p).resolve() if pathlib.Path(p).is_absolute() else (pathlib.Path.cwd() / p).resolve()
        if rp != want:
            errs.append(f"path of {t}: {p} != {want}")
        if out not in rp.parents:
            errs.append(f"path of {t} leaves the output directory: {p}")
        if rp in inv:
            errs.append(f"{t} and {inv[rp]} share {p}")
        inv[rp] = t
        # total lookup, from every node of the tree
        for raw, ns in seen_ns.items():
            try:
                if ns.find_output_path_for_type(t) != p:
                    errs.append(f"find_output_path_for_type({t}) from {raw} differs")
            except KeyError:
                errs.append(f"find_output_path_for_type({t}) from {raw} raises KeyError")
    all_t = [t for t, _ in root.get_all_datatypes()]
    if sorted(map(str, all_t)) != sorted(map(str, types)):
        errs.append(f"get_all_datatypes yields {sorted(map(str, all_t))}")
    all_n = [".".join(n._namespace_components) for n, _ in root.get_all_namespaces()]
    if sorted(all_n) != sorted(seen_ns):
        errs.append(f"get_all_namespaces yields {sorted(all_n)}")
    return errs


NATIVE_DEADLINE_S = 60  # per tree; the nominal cost is milliseconds, so machine load cannot reach this


class _Deadline(Exception):
    pass


class _deadline:
    """SIGALRM guard (main thread) around calls into the real code: a change that makes the namespace model cyclic
    must end as a reported violation with its input, not as a check that never returns."""

    def __init__(self, seconds: int):
        self.seconds = seconds

    def __enter__(self):
        def on_alarm(signum, frame):
            raise _Deadline()
        self.old = signal.signal(signal.SIGALRM, on_alarm)
        signal.alarm(self.seconds)

    def __exit__(self, *exc):
        signal.alarm(0)
        signal.signal(signal.SIGALRM, self.old)
        return False


def bounded_tree(run, args):
    import pydsdl
    from nunavut._namespace import build_namespace_tree
    base = pathlib.Path(tempfile.mkdtemp(prefix="vk_c11_"))
    n = 0
    first = None
    try:
        langs = ["c", "py", "html"] if args.tier != "thorough" else ["c", "cpp", "py", "html"]
        spellings = ["abs", "rel", "trailing-slash"]
        for si, (rootname, items) in enumerate(SHAPES):
            src = base / f"s{si}" / rootname
            for sub, short, versions in items:
                d = src.joinpath(*sub)
                d.mkdir(parents=True, exist_ok=True)
                for (ma, mi) in versions:
                    (d / f"{short}.{ma}.{mi}.dsdl").write_text("uint8 a\n@sealed\n")
            types = pydsdl.read_namespace(str(src), [])
            orders = [types, list(reversed(types))] + ([list(p) for p in itertools.islice(itertools.permutations(types), 2, 8)] if args.tier == "thorough" else [])
            for lang in langs:
                for sp in spellings:
                    for order in orders:
                        out = base / f"o{si}_{lang}_{sp}"
                        outarg = str(out) if sp == "abs" else (str(out) + "/" if sp == "trailing-slash" else str(pathlib.Path("..") / out.relative_to(base.parent) if False else out))
                        ctx = render.language_context(lang)
                        n += 1
                        try:
                            with _deadline(NATIVE_DEADLINE_S):
                                root = build_namespace_tree(list(order), str(src), outarg, ctx)
                                errs = check_tree(root, types, pathlib.Path(outarg), lang)
                        except _Deadline:
                            errs = [f"build_namespace_tree / traversal of its result did not return within {NATIVE_DEADLINE_S} s on a namespace of {len(types)} types "
                                    "(nominal: milliseconds): the parent/child links do not form a tree, or lookup is not total"]
                        except RecursionError:
                            errs = ["traversal of the namespace model recurses without end: the parent/child links do not form a tree"]
                        if errs and first is None:
                            first = {"input": {"shape": [(list(s), nm, v) for s, nm, v in items], "root": rootname, "language": lang, "output_dir_spelling": sp,
                                               "order": [str(t) for t in order]}, "why": "; ".join(errs[:3]), "evaluations": n}
                            if "did not return within" in errs[0]:
                                return first, n  # one non-terminating tree decides; do not pay the deadline once per tree
        # the empty type set (what `--generate-support only` builds): support files stay inside the output directory
        from nunavut.jinja import SupportGenerator
        for lang in langs:
            for sp in spellings:
                out = base / f"oe_{lang}_{sp}"
                outarg = str(out) + ("/" if sp == "trailing-slash" else "")
                root = build_namespace_tree([], "", outarg, render.language_context(lang))
                n += 1
                errs = []
                sup = pathlib.Path(root.get_support_output_folder())
                if sup.resolve() != out.resolve():
                    errs.append(f"support output folder {sup} is not the output directory {out}")
                for p in SupportGenerator(root).generate_all(is_dryrun=True):
                    if out.resolve() not in pathlib.Path(p).resolve().parents:
                        errs.append(f"support file {p} outside the output directory")
                if errs and first is None:
                    first = {"input": {"types": [], "language": lang, "output_dir_spelling": sp}, "why": "; ".join(errs[:3]), "evaluations": n}
        return first, n
    finally:
        shutil.rmtree(base, ignore_errors=True)


def main():
    args = parse_args(PROP)
    run = report.Run(PROP, "other", "./check C11", args.tier)
    res = smt.solve_all(lemmas())
    run.add_results(res)
    run.add_function("path lemmas over C09's identifier language")
    for r in res:
        if not r.ok and r.status == "sat":
            run.fail(report.Failure(r.ob.name, "lemma", f"{r.ob.name}: counterexample {r.model}", {"model": r.model, "smt2": r.ob.smt2()}, False))
    n = relational(run)
    w, evals = bounded_tree(run, args)
    run.add_bounded("native: build_namespace_tree yields a tree with every type and every ancestor namespace exactly once, consistent links, total lookup, injective paths inside the output directory",
                    f"{len(SHAPES)} namespace shapes (depth <= 4, gaps, versions, keyword names, prefix names) x languages x output-dir spellings x type orders", evals, w is None, "" if w is None else f"{w['input']}: {w['why']}")
    if w is not None:
        run.fail(report.Failure("native#namespace-tree-invariants", "post", f"real code: {w['input']}: {w['why']}", {"witness": w}, True))
    if n == 0 or evals == 0:
        run.undecide("no relational obligation / no tree evaluated (vacuity guard)")
    run.trust("z3 / cvc5 string theory", "E-FX AST matching", "pydsdl as the front end that accepts the input")
    run.assume("C09's theorem (every stropped component is in [A-Za-z_][A-Za-z0-9_]*) is the hypothesis of the path lemmas; with stropping disabled by configuration the components are raw DSDL names (pydsdl identifier syntax)",
               "pathlib: '/' concatenates components, with_suffix() appends to the last component (assumed)",
               "the tree invariants of build_namespace_tree are NOT proved: bounded stand-in only (see DESIGN.md 3/C11)")
    run.explanation = "path containment and file-name injectivity as SMT string lemmas on top of C09; relational shape obligations on the path-building functions; bounded evaluation of every tree invariant on the real build_namespace_tree"
    return run.finish()


if __name__ == "__main__":
    report.main_wrapper(main)

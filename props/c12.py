"""C12: regeneration over existing output (E-PY ghost file system for the gate + E-FX ordering obligations + native replay)."""
import ast
import os
import pathlib
import shutil
import stat
import subprocess
import sys
import tempfile

from vk import driver, efx, epy, report
from contracts import c12 as K
from props.common import SRC, parse_args

PROP = "C12"


def first_index(fn: ast.FunctionDef, pred):
    """index (in a pre-order walk over statements with guards) of the first node satisfying pred"""
    for i, (node, guards) in enumerate(efx.walk_with_guards(fn)):
        if pred(node):
            return i, node, guards
    return None


def history_witness(quick=True):
    """Native: sequences of generator runs into one directory, incl. read-only leftovers and --no-overwrite."""
    import itertools
    base = pathlib.Path(tempfile.mkdtemp(prefix="vk_c12_"))
    env = dict(os.environ, PYTHONPATH=str(SRC), PYTHONDONTWRITEBYTECODE="1")
    try:
        (base / "in/rep").mkdir(parents=True)
        (base / "in/rep/T.1.0.dsdl").write_text("uint8 a\n@sealed\n")

        def nnvg(out, extra):
            return subprocess.run([sys.executable, "-m", "nunavut", "--target-language", "c", "--outdir", str(out)] + extra + [str(base / "in/rep")],
                                  capture_output=True, text=True, env=env)

        def snap(root):
            return {str(p.relative_to(root)): (p.read_bytes(), stat.S_IMODE(p.stat().st_mode)) for p in sorted(root.rglob("*")) if p.is_file()}

        fresh = base / "fresh"
        nnvg(fresh, ["--file-mode", "0o644"])
        ref = snap(fresh)
        steps = [["--file-mode", "0o444"], ["--file-mode", "0o755"], ["--no-overwrite"], ["--omit-serialization-support"], ["--file-mode", "0o600", "--pp-trim-trailing-whitespace"],
                 ["--no-overwrite", "--generate-support", "always"], ["--file-mode", "0o664"]]
        n = 0
        for seq in itertools.product(range(len(steps)), repeat=2 if quick else 3):
            n += 1
            out = base / f"o{n}"
            for k in seq:
                before = snap(out) if out.exists() else {}
                r = nnvg(out, steps[k])
                after = snap(out)
                if "--no-overwrite" in steps[k] and before:
                    changed = [f for f in before if after.get(f) != before[f]]  # files that existed before the run
                    if changed or r.returncode == 0:
                        return {"input": [steps[i] for i in seq], "why": f"--no-overwrite over existing files: exit {r.returncode}, pre-existing files changed: {changed}", "evaluations": n}
                    continue
                if r.returncode != 0:
                    return {"input": [steps[i] for i in seq], "why": f"run failed: {r.stderr[-300:]}", "evaluations": n}
                want_mode = int(steps[k][1], 8) if steps[k][0] == "--file-mode" else 0o444
                for f, (content, mode) in after.items():
                    if "--omit-serialization-support" in steps[k] and ("support" in f or f not in before and False):
                        continue
                    fresh_dir = base / f"f{n}_{k}"
                    if not fresh_dir.exists():
                        nnvg(fresh_dir, steps[k])
                    fr = snap(fresh_dir)
                    if f in fr and (fr[f][0] != content or fr[f][1] != mode):
                        return {"input": [steps[i] for i in seq], "why": f"{f}: differs from a run into an empty directory (content equal: {fr[f][0] == content}, mode {oct(mode)} vs {oct(fr[f][1])})", "evaluations": n}
            shutil.rmtree(out, ignore_errors=True)
        history_witness.evaluations = n
        return None
    finally:
        for p in base.rglob("*"):
            try:
                p.chmod(0o700)
            except OSError:
                pass
        shutil.rmtree(base, ignore_errors=True)


def main():
    args = parse_args(PROP)
    run = report.Run(PROP, "proof", "./check C12", args.tier)
    eng = epy.Engine(SRC)
    K.install(eng)
    wcache = {}

    def w():
        if "w" not in wcache:
            wcache["w"] = history_witness(True)
        return wcache["w"]

    def init_witness():
        """native: the post-processor keeps the requested mode whatever the process umask is"""
        from nunavut._postprocessors import SetFileMode
        for um in (0o022, 0o077, 0o002):
            for mode in (0o664, 0o666, 0o444, 0o640, 0o755):
                old = os.umask(um)
                try:
                    got = getattr(SetFileMode(mode), "_file_mode", None)
                finally:
                    os.umask(old)
                if got != mode:
                    return {"input": {"file_mode": oct(mode), "process_umask": oct(um)}, "why": f"SetFileMode({oct(mode)}) will set {oct(got) if isinstance(got, int) else got}: files of a run differ from the requested mode"}
        return None

    driver.verify_contracts(run, eng, [K.HANDLE_OVERWRITE, K.SET_FILE_MODE, K.SET_FILE_MODE_INIT],
                            witness={"CodeGenerator._handle_overwrite": w, "SetFileMode.__call__": w, "SetFileMode.__init__": init_witness})
    # ---- ordering / frame obligations on the real ASTs (E-FX) --------------------------------------------------
    ix = efx.PyIndex(SRC)

    def fail(name, detail):
        wit = w()
        run.fail(report.Failure(name, "frame", detail + (f"; nnvg history {wit['input']}: {wit['why']}" if wit else ""), {"witness": wit}, bool(wit)))

    # relational argument obligation: every generate_all call of the command-line runner (type AND support generator) is
    # handed exactly `not --no-overwrite`: no other option may re-enable overwriting for one of the generators
    q = "nunavut.cli.runners:ArgparseRunner._generate"
    if q in ix.fns:
        calls = [n for n in ast.walk(ix.fns[q].node) if isinstance(n, ast.Call) and isinstance(n.func, ast.Attribute) and n.func.attr == "generate_all"]
        if len(calls) < 2:
            run.undecide(f"binding failure: {q} holds {len(calls)} generate_all calls")
        for n in calls:
            kw = {k.arg: ast.unparse(k.value) for k in n.keywords}
            got = kw.get("allow_overwrite", ast.unparse(n.args[1]) if len(n.args) > 1 else "<default True>")
            ok = got == "not self._args.no_overwrite"
            name = f"ArgparseRunner._generate#{ast.unparse(n.func.value)}.generate_all-gets-allow_overwrite==not-no_overwrite"
            run.add_check(name, ok, "E-FX relational arguments", 0, f"allow_overwrite={got}")
            if not ok:
                fail(name, f"{ix.fns[q].file}:{n.lineno}: {ast.unparse(n.func.value)}.generate_all(allow_overwrite={got}): --no-overwrite does not reach this generator unchanged")
    else:
        run.undecide(f"binding failure: {q}")
    for q, writer in (("nunavut.jinja:CodeGenerator._generate_code", lambda n: isinstance(n, ast.Call) and ast.unparse(n.func) == "open"),
                      ("nunavut.jinja:SupportGenerator._copy_header", lambda n: isinstance(n, ast.Call) and (ast.unparse(n.func) in ("shutil.copy", "open") or ast.unparse(n.func).endswith("_copy_header_using_line_pps")))):
        if q not in ix.fns:
            run.undecide(f"binding failure: {q}")
            continue
        fn = ix.fns[q].node
        gate = first_index(fn, lambda n: isinstance(n, ast.Call) and ast.unparse(n.func) == "self._handle_overwrite")
        wr = first_index(fn, writer)
        name = f"{q.split(':')[1]}#overwrite-gate-precedes-every-write"
        if gate is None or wr is None:
            run.add_check(name, False if gate is None else None, "E-FX order", 0, f"gate found: {gate is not None}, writer found: {wr is not None}")
            if gate is None:
                fail(name, f"{q}: no call to _handle_overwrite before the file is written")
            continue
        # the gate must come first, on the target path and with the caller's allow_overwrite flag, and the writer must not
        # sit under a condition that the gate is not under
        gcall = gate[1]
        args_ok = len(gcall.args) == 2 and ast.unparse(gcall.args[1]) == "allow_overwrite" and ast.unparse(gcall.args[0]) in ("output_path", "target")
        ok = gate[0] < wr[0] and args_ok and set(gate[2]) <= set(wr[2])
        run.add_check(name, ok, "E-FX order", 0, f"gate {ast.unparse(gcall)} at walk index {gate[0]}, first write {ast.unparse(wr[1])[:50]} at {wr[0]}")
        if not ok:
            fail(name, f"{q}: the overwrite gate does not dominate the first write ({ast.unparse(wr[1])[:60]})")
        # every other fs write in the function comes after the gate as well
        occ, _ = efx.effects_in(ix.fns[q])
        for o in occ:
            if o.kind == "fs_write" and o.line < gcall.lineno:
                run.add_check(f"{q.split(':')[1]}#no-write-before-gate@{o.expr[:30]}", False, "E-FX order", 0, o.where())
                fail(f"{q.split(':')[1]}#no-write-before-gate", f"{o.where()}: `{o.expr}` executes before the overwrite gate")
    # file post-processors run after the file is closed; the CLI always appends SetFileMode last
    q = "nunavut.cli.runners:ArgparseRunner._build_post_processor_list_from_args"
    if q in ix.fns:
        fn = ix.fns[q].node
        appends = [n for n in ast.walk(fn) if isinstance(n, ast.Call) and ast.unparse(n.func) == "post_processors.append"]
        last = max(appends, key=lambda n: n.lineno) if appends else None
        unconditional = last is not None and any(isinstance(s, ast.Expr) and s.value is last for s in fn.body)
        ok = last is not None and ast.unparse(last.args[0]).startswith("SetFileMode(self._args.file_mode)") and unconditional
        run.add_check("ArgparseRunner._build_post_processor_list_from_args#SetFileMode-appended-last-unconditionally", ok, "E-FX order", 0, ast.unparse(last) if last else "no append")
        if not ok:
            fail("ArgparseRunner._build_post_processor_list_from_args#SetFileMode-appended-last-unconditionally", "the requested permission bits are not applied last / always")
    q = "nunavut.jinja:CodeGenerator._generate_code"
    if q in ix.fns:
        fn = ix.fns[q].node
        withs = [n for n in ast.walk(fn) if isinstance(n, ast.With)]
        loops = [n for n in ast.walk(fn) if isinstance(n, ast.For) and "file_pp" in ast.unparse(n.target)]
        ok = bool(withs) and bool(loops) and all(lp.lineno > withs[0].end_lineno for lp in loops)
        run.add_check("CodeGenerator._generate_code#file-post-processors-run-after-the-file-is-closed", ok, "E-FX order", 0, "")
        if not ok:
            fail("CodeGenerator._generate_code#file-post-processors-run-after-the-file-is-closed", "a file post-processor may run while the file is still open / before it is written")
    run.add_function("nunavut/jinja/__init__.py:CodeGenerator._generate_code (ordering)", "nunavut/jinja/__init__.py:SupportGenerator._copy_header (ordering)",
                     "nunavut/cli/runners.py:ArgparseRunner._build_post_processor_list_from_args (ordering)")
    # bounded native histories
    wt = history_witness(args.tier != "thorough")
    run.add_bounded("sequences of nnvg runs into one directory equal a run into an empty one; --no-overwrite leaves existing files alone",
                    "all sequences of length 2 (quick) / 3 (thorough) over 5 invocation kinds, one type", getattr(history_witness, "evaluations", 0), wt is None, str(wt or ""))
    if wt and not run.failures:
        run.fail(report.Failure("native#history", "frame", f"nnvg history {wt['input']}: {wt['why']}", {"witness": wt}, True))
    from props import lean_glue
    lean_glue.lemmas(run, "Glue.lean", ["L2_stable", "L2_history"], "per-run post-state that does not mention the pre-state + frame => after any finite history every generated file equals a fresh run's")
    run.trust("SMT solvers", "E-PY (vk/epy.py)", "E-FX (vk/efx.py)", "lean 4 (history induction lemma L2, lean/Glue.lean, checked on every run)")
    run.assume("open(path, 'w') truncates, requires the owner-write bit on an existing file and keeps its mode; chmod/stat/exists as documented",
               "the content written is the rendered text (C15 covers the line-processor path); st_mode fits 16 bits")
    run.explanation = "the gate's contract is proved for every (exists, mode, content) pre-state; the rest of the run contract is ordering/dominance on the AST"
    return run.finish()


if __name__ == "__main__":
    report.main_wrapper(main)

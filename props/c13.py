"""C13: configuration merge semantics and precedence (E-PY over the nested-value datatype)."""
from vk import driver, epy, report, smt, valtheory
from contracts import c13 as K
from contracts import c13_native as N
from contracts import c13_fx as FX
from props.common import SRC, parse_args

PROP = "C13"


def lemmas():
    """Precedence lemmas over the merge specification M (statement level)."""
    P = valtheory.PRELUDE
    d = P + ["(declare-const t Val)", "(declare-const s1 Val)", "(declare-const s2 Val)", "(declare-const k String)",
             "(define-fun t1 () Val (M t s1))", "(define-fun t2 () Val (M t1 s2))"]
    maps = ["((_ is mapv) t)", "((_ is mapv) s1)", "((_ is mapv) s2)"]
    at = lambda m: f"(select (mv {m}) k)"
    L = [
        ("later-explicit-value-wins", maps + [f"((_ is leaf) {at('s2')})"], f"(= {at('t2')} {at('s2')})"),
        ("default-never-displaces-explicit", maps + [f"((_ is dflt) {at('s2')})", f"(present {at('t1')})", f"(not ((_ is dflt) {at('t1')}))"],
         f"(= {at('t2')} {at('t1')})"),
        ("default-fills-a-gap", maps + [f"((_ is dflt) {at('s2')})", f"(not (present {at('t1')}))"], f"(= {at('t2')} {at('s2')})"),
        ("unmentioned-keys-keep-their-value", maps + [f"(not (present {at('s2')}))"], f"(= {at('t2')} {at('t1')})"),
        ("nested-maps-merge-keywise", maps + [f"((_ is mapv) {at('s2')})", f"((_ is mapv) {at('t1')})"],
         f"(= {at('t2')} (M {at('t1')} {at('s2')}))"),
        ("map-replaces-non-map", maps + [f"((_ is mapv) {at('s2')})", f"((_ is leaf) {at('t1')})"], f"(= {at('t2')} {at('s2')})"),
        ("explicit-over-later-file-over-earlier-file-over-builtin: earlier explicit survives a later default",
         maps + [f"((_ is leaf) {at('s1')})", f"((_ is dflt) {at('s2')})"], f"(= {at('t2')} {at('s1')})"),
        ("merge-keeps-maps-maps", maps, "((_ is mapv) t2)"),
    ]
    return [smt.Obligation(f"M#lemma:{n}", "lemma", d, a, g, "datatype", function="M (merge specification)") for n, a, g in L]


def main():
    args = parse_args(PROP)
    run = report.Run(PROP, "proof", "./check C13", args.tier)
    eng = epy.Engine(SRC)
    valtheory.install(eng)
    eng.add_contract(K.DEEP, "deep_update")
    eng.add_contract(K.ASSIGN, "DefaultValue.assign_to_if_not_default")
    eng.add_contract(K.FUNC_ANY, "func")
    eng.add_contract(K.UPDATE_SECTION, "LanguageConfig.update_section")
    eng.intrinsics["Pattern.match"] = lambda it, p, s: epy.VOpt(it.ctx.fresh("Bool", "match.isnone"), it.ctx.new_obj("Match", {}))
    eng.used("LanguageConfig.SECTION_NAME_PATTERN.match: arbitrary result (section-name validation is not part of the property)")
    eng.intrinsics["ConstructorConvention.from_string"] = lambda it, v: epy.VData("Val", it.ctx.fresh("Val", "ctor_convention"))
    eng.used("ConstructorConvention.from_string: arbitrary value or ValueError (option validation is not part of the property)")
    # CLI: _create_language_context.  Well-known key names are read from the real Language class.
    import nunavut.lang
    L = nunavut.lang.Language
    for c in (K.B_SET_EXT, K.CLI_CONTEXT):
        d = c.bindings["Language"][2]
        for k in list(d):
            d[k] = epy.VStr(smt.str_lit(getattr(L, k)))
    assert L.WKCV_LANGUAGE_OPTIONS == "options", "contract B_CREATE is phrased over the 'options' key"
    eng.intrinsics["LanguageContextBuilder.__new__"] = lambda it, **kw: it.ctx.new_obj(
        "LanguageContextBuilder", {"_target_language_config": epy.VData("Val", "emptymap")})
    eng.used("LanguageContextBuilder(): starts with an empty override map (read from __init__ by the E-FX pass)")
    eng.add_contract(K.B_OPAQUE("set_target_language", {"target_language": K.VAL}), "LanguageContextBuilder.set_target_language")
    eng.add_contract(K.B_OPAQUE("add_config_files", {}), "LanguageContextBuilder.add_config_files")
    eng.add_contract(K.B_SET_EXT, "LanguageContextBuilder.set_target_language_extension")
    eng.add_contract(K.SET_OVERRIDE, "LanguageContextBuilder.set_target_language_configuration_override")
    eng.add_contract(K.B_CREATE, "LanguageContextBuilder.create")
    eng.isinstance_hooks["Val:Path"] = lambda it, v: epy.VBool(it.ctx.fresh("Bool", "is_path"))
    eng.eq_hooks["Val==Const"] = lambda it, a, b: epy.VBool(it.ctx.fresh("Bool", "enum_eq"))
    contracts = [K.ASSIGN, K.DEEP, K.UPDATE_SECTION, K.GET_RAW, K.WRAPPER, K.UPDATE, K.SET_OVERRIDE, K.CPP_VALIDATE, K.B_SET_EXT, K.CLI_CONTEXT]
    witness = {"deep_update": N.deep_update_witness, "DefaultValue.assign_to_if_not_default": N.assign_witness,
               "LanguageConfig.update_section": N.update_section_witness, "LanguageConfig.update": N.update_section_witness,
               "Language._validate_language_options": N.cpp_validate_witness}
    driver.verify_contracts(run, eng, contracts, witness=witness)
    if args.tier == "thorough":
        # CPython cross-check of the contracts on the real functions (bounded; never counted as proved)
        for name, fn in witness.items():
            w = fn()
            run.add_bounded(f"{name}: native contract evaluation", "nested maps of depth <= 2 over keys {a,b}, leaves {1, DefaultValue(2)}",
                            getattr(fn, "evaluations", 0), w is None, str(w or ""))
    # aliasing clause, deductive part: ownership / freshness obligation on the real AST (E-FX)
    try:
        fn, _ = epy.find_function(SRC, "nunavut/_utilities.py:deep_update")
        afn, _ = epy.find_function(SRC, "nunavut/_utilities.py:DefaultValue.assign_to_if_not_default")
        alias_w = None
        for name, ok, detail in FX.check(fn, afn):
            if ok is False:
                if alias_w is None:
                    alias_w = N.aliasing_witness(quick=True) or {}
                w = alias_w
                run.fail(report.Failure(name, "frame", detail + (f"; real code: {w.get('input')} -> {w.get('why')}" if w else ""),
                                        {"witness": w or None, "detail": detail}, bool(w)))
            run.add_check(name, ok, "E-FX ownership rules", 0.0, detail)
        run.add_function("nunavut/_utilities.py:deep_update (freshness/frame, E-FX)")
    except epy.BindingError as ex:
        run.undecide(f"freshness: {ex}")
    # aliasing clauses across merges and builders: bounded stand-in (never counted as proved)
    w = N.aliasing_witness(quick=(args.tier != "thorough"))
    run.add_bounded("source documents unmodified by later merges (native, real deep_update)",
                    "targets/sources of depth <= 2 over keys {a,b} plus depth-3 chains; every later document of the same family",
                    getattr(N.aliasing_witness, "evaluations", 0), w is None, str(w or ""))
    if w is not None and not any(f.obligation.startswith("deep_update#freshness") for f in run.failures):
        run.fail(report.Failure("deep_update#aliasing(bounded)", "frame", f"real code: {w['input']} -> {w['why']}", {"witness": w}, True))
    w = N.precedence_witness(SRC)
    run.add_bounded("end-to-end precedence on the real builder and command line: defaults < configuration files in order (repeats count at each position) < explicit overrides / explicit options (also when equal to the default)",
                    "9 file sequences over 3 files x override, 5 command lines", getattr(N.precedence_witness, "evaluations", 0), w is None, str(w or ""))
    if w:
        run.fail(report.Failure("native#precedence-of-the-last-explicit-source", "post", f"real code: {w['input']} -> {w['why']}", {"witness": w}, True))
    w = N.fresh_process_history_witness(SRC)
    run.add_bounded("a context created first in a FRESH process is unaffected by contexts for the other languages created after it", "5 first languages x all others", getattr(N.fresh_process_history_witness, "evaluations", 0), w is None, str(w or ""))
    if w:
        run.fail(report.Failure("LanguageContextBuilder#history-in-a-fresh-process(bounded)", "frame", f"real code: {w['input']} -> {w['why']}", {"witness": w}, True))
    w = N.builder_history_witness(quick=(args.tier != "thorough"))
    run.add_bounded("a context created earlier is unaffected by later builders (native, real LanguageContextBuilder)",
                    "sequences of 2-3 builders over {c, cpp/c++14, cpp/c++17-pmr, py} x flag overrides", getattr(N.builder_history_witness, "evaluations", 0),
                    w is None, str(w or ""))
    if w is not None:
        run.fail(report.Failure("LanguageContextBuilder#history(bounded)", "frame", f"real code: {w['input']} -> {w['why']}", {"witness": w}, True))
    res = smt.solve_all(lemmas())
    run.add_results(res)
    run.add_function("M (merge specification): precedence lemmas")
    run.trust("z3 4.8.12 / z3 5.1.0 (datatypes, arrays, quantifier instantiation)", "E-PY symbolic semantics of the Python subset (vk/epy.py)")
    run.explanation = ("maps are unbounded nested datatypes; the loop over source.items() is executed for an arbitrary unprocessed key "
                       "(order independence), the recursive call is replaced by deep_update's own contract")
    return run.finish()


if __name__ == "__main__":
    report.main_wrapper(main)

"""C14: support-library bit primitives.  C leg by E-C on the rendered serialization.h (see DESIGN 3/C14)."""
import hashlib
import json
import multiprocessing
import pathlib
import shutil
import tempfile
import time

from vk import ec, report, smt, render
from contracts import c14_c as K
from contracts import c14_ref as REF
from props.common import SRC, parse_args

PROP = "C14"

TU = """#include <stdint.h>
#include <stddef.h>
void __vk_assert(int);
#define NUNAVUT_ASSERT(x) __vk_assert((int)(x))
#include "nunavut/support/serialization.h"
"""


def build_engine(outdir, options):
    render.render_support("c", outdir, options)
    decls = ec.clang_ast(TU, [str(outdir)], "nunavut")
    eng = ec.CEngine()
    eng.load(decls)
    asserts = bool(options.get("enable_serialization_asserts"))
    for c in [K.choose_min(), K.saturate(), K.copy_bits(asserts), K.get_bits(), K.set_bit(), K.set_uxx(), K.set_uxx("nunavutSetIxx", True),
              K.get_bit(), K.get_u(8), K.get_u(16), K.get_u(32), K.get_u(64), K.get_i(8), K.get_i(16), K.get_i(32), K.get_i(64)]:
        eng.contracts[c.name] = c
    if not options.get("omit_float_serialization_support"):
        eng.global_decls += K.PACK_DECL
        for c in [K.float16_pack(), K.float16_unpack(), K.set_f("nunavutSetF16", 16), K.get_f("nunavutGetF16", 16),
                  K.set_f("nunavutSetF32", 32), K.get_f("nunavutGetF32", 32), K.set_f("nunavutSetF64", 64), K.get_f("nunavutGetF64", 64)]:
            eng.contracts[c.name] = c
    return eng


def ast_fingerprint(fn: dict) -> str:
    def norm(n):
        if isinstance(n, dict):
            return {k: norm(v) for k, v in n.items() if k not in ("id", "loc", "range", "previousDecl", "isUsed", "isReferenced") and
                    not (k == "referencedDecl" and False)} | ({"referencedDecl": n["referencedDecl"].get("name")} if "referencedDecl" in n else {})
        if isinstance(n, list):
            return [norm(x) for x in n if not (isinstance(x, dict) and x.get("kind") in ("FullComment",))]
        return n
    return hashlib.sha256(json.dumps(norm(fn), sort_keys=True).encode()).hexdigest()[:16]


_ENG = None


def _work(name):
    t0 = time.time()
    try:
        _ENG.session = smt.Z3Session()  # one solver session per worker process
        o, info = _ENG.verify(name)
        _ENG.session.close()
        info["gen_s"] = round(time.time() - t0, 2)
        return name, o, info, None
    except (ec.COutOfSubset, ec.CBindingError) as ex:
        return name, [], {}, f"{type(ex).__name__}: {ex}"


def monotone_lemma(eng):
    """x <= y  =>  Pack(x) <= Pack(y) (as half values), from the path summaries of the real function, pairwise."""
    name = "nunavutFloat16Pack"
    A = ec.summaries(eng, name, "@x")
    B = ec.summaries(eng, name, "@y")
    obs = []
    for i, (da, pa, aa, ra) in enumerate(A):
        for j, (db, pb, ab, rb) in enumerate(B):
            x, y = aa["value"].t, ab["value"].t
            ex = ec.Exec(eng, ec.Explorer(), eng.functions[name], eng.contracts[name])
            hx, hy = f"((_ to_fp 5 11) {ex.to_bv(ra).t})", f"((_ to_fp 5 11) {ex.to_bv(rb).t})"
            obs.append(smt.Obligation(f"{name}#lemma:monotone/paths{i}x{j}", "lemma", da + db,
                                      pa + pb + [f"(not (fp.isNaN {x}))", f"(not (fp.isNaN {y}))", f"(fp.leq {x} {y})"],
                                      f"(fp.leq {hx} {hy})", "fp", timeout=600, function=name, meta={"backends": ["z3-new", "z3"]}))
    return obs


WORKDIRS = {}


def verify_variant(run, options, label, seen, only=None):
    global _ENG
    work = pathlib.Path(tempfile.mkdtemp(prefix="vk_c14_"))
    WORKDIRS[label] = work  # kept until the end of the run: the replay harness compiles against this rendering
    eng = build_engine(work, options)
    todo = []
    for name in eng.contracts:
        if only and name not in only:
            continue
        if name not in eng.functions:
            run.undecide(f"{label}:{name}: function not found in the rendered header (binding failure)")
            continue
        # a function's obligations depend on its own AST and on the callee contracts only
        fp = ast_fingerprint(eng.functions[name])
        if (name, fp) in seen:
            run.notes.setdefault("identical_renderings_verified_once", []).append(f"{label}:{name} == {seen[(name, fp)]}:{name}")
            continue
        seen[(name, fp)] = label
        todo.append(name)
    _ENG = eng
    with multiprocessing.get_context("fork").Pool(min(12, max(1, len(todo)))) as pool:
        results = pool.map(_work, sorted(todo, key=lambda n: 0 if n == "nunavutCopyBits" else 1), chunksize=1)
    obs = []
    for name, o, info, err in results:
        if err:
            run.undecide(f"{label}:{name}: {err}")
            continue
        info["obligations"] = len(o)
        run.notes.setdefault("per_function", {})[f"{label}:{name}"] = info
        run.add_function(f"serialization.h[{label}]:{name}")
        if len(o) + info["trivial"] == 0 or info["exits"] == 0:
            run.undecide(f"{label}:{name}: vacuity guard (obligations={len(o)}, exits={info['exits']})")
        for x in o:
            x.name = f"{label}:{x.name}"
        obs.extend(o)
    if "nunavutFloat16Pack" in todo:
        lem = monotone_lemma(eng)
        for x in lem:
            x.name = f"{label}:{x.name}"
        obs.extend(lem)
    return obs


def py_proof(run, args):
    """Python leg under contract (contracts/c14_py.py): the integer / bit / byte-run primitives of the REAL rendered
    nunavut_support.py, every bit length 1..64 x every cursor position mod 8, symbolic buffer, position and value (E-PY)."""
    import time as _t
    from contracts import c14_py as KP
    from props.common import SRC
    from vk import render
    wd = pathlib.Path(tempfile.mkdtemp(prefix="vk_c14pp_"))
    try:
        render.render_support("py", wd, {})
        text = (wd / "nunavut_support.py").read_text()
    finally:
        shutil.rmtree(wd, ignore_errors=True)
    tasks = KP.plan(args.tier)
    t0 = _t.time()
    with multiprocessing.get_context("fork").Pool(14) as pool:
        out = pool.map(KP.generate, [(t, text, str(SRC)) for t in tasks], chunksize=4)
    obs = []
    fns = set()
    assumed = set()
    for task, target, o, info, err in out:
        if err:
            run.undecide(f"py:{task}: {err[:300]}")
            continue
        fns.add(target.split(":")[1])
        assumed.update(info.get("assumed", []))
        if len(o) + info.get("trivial", 0) == 0 or info.get("returns", 0) + info.get("raises", 0) == 0:
            run.undecide(f"py:{task}: vacuity guard (obligations={len(o)}, exits={info.get('returns', 0) + info.get('raises', 0)})")
        for x in o:
            x.name = "py:" + x.name
        obs.extend(o)
    for f in sorted(fns):
        run.add_function(f"nunavut_support.py:{f}")
    run.notes["python_primitive_cases"] = len(tasks)
    run.notes["python_vc_generation_s"] = round(_t.time() - t0, 1)
    for a in sorted(assumed) + KP.ASSUMED_CALLEES:
        run.assume("py: " + a)
    return obs  # solved together with the C obligations (one pool)


def py_native(run, args):
    """Python leg, bounded stand-in (contracts/c14_py_native.py): every Serializer/Deserializer/ZeroExtendingBuffer primitive
    of the REAL rendered nunavut_support.py, executed in the overlay interpreter (NumPy from the offline wheelhouse)."""
    import json
    import subprocess
    from contracts import py_leg
    from vk import render
    wd = pathlib.Path(tempfile.mkdtemp(prefix="vk_c14py_"))
    try:
        py_leg.ensure_venv()
        render.render_support("py", wd, {})
        p = subprocess.run([py_leg.VENV_PY, str(pathlib.Path(py_leg.RUNNER).parent / "c14_py_native.py"), str(wd), args.tier], capture_output=True, text=True, timeout=3000,
                           env={"PATH": "/usr/bin:/bin", "PYTHONDONTWRITEBYTECODE": "1"})
        d = json.loads(p.stdout) if p.returncode == 0 and p.stdout.strip().startswith("{") else {"harness_error": (p.stderr or p.stdout)[-600:]}
    except Exception as ex:  # the stand-in must never turn into a verdict by crashing
        d = {"harness_error": f"{type(ex).__name__}: {ex}"}
    finally:
        shutil.rmtree(wd, ignore_errors=True)
    if "harness_error" in d:
        run.undecide(f"Python primitive stand-in: {d['harness_error'][:400]}")
        return
    fl = d["failures"]
    run.add_bounded("native [py]: Serializer.add_* / Deserializer.fetch_* / ZeroExtendingBuffer == bit-by-bit reference (CPython 3.12 + NumPy)",
                    "leading bits 0..23 x bit lengths 1..64 x boundary/random values; buffers of 0..12 bytes x offsets 0..23 (zero extension, fragments); too-small buffers; forks; all 65,536 half values",
                    d["evaluations"], not fl, "" if not fl else f"{fl[0]['op']} {str(fl[0]['input'])[:200]}: {fl[0]['why'][:300]}")
    seen = set()
    for f in fl:
        op = f["op"].split("(")[0]
        if op in seen:
            continue
        seen.add(op)
        run.fail(report.Failure(f"native[py]:{op}#python-primitive-agrees-with-the-bit-level-reference", "post", f"{f['op']} on {str(f['input'])[:300]}: {f['why'][:500]}", {"witness": f}, True))


def main():
    args = parse_args(PROP)
    run = report.Run(PROP, "proof", "./check C14", args.tier)
    _T = [time.time()]

    def _phase(name):
        run.notes.setdefault("phase_seconds", {})[name] = round(time.time() - _T[0], 1)
        _T[0] = time.time()
    variants = [("any+asserts", {"enable_serialization_asserts": True}),
                ("little+asserts", {"enable_serialization_asserts": True, "target_endianness": "little"})]
    if args.tier == "thorough":
        for e in ("any", "little", "big"):
            for a in (True, False):
                for f in (False, True):
                    lab = f"{e}{'+asserts' if a else ''}{'+nofloat' if f else ''}"
                    if lab not in [v[0] for v in variants]:
                        variants.append((lab, {"enable_serialization_asserts": a, "target_endianness": e, "omit_float_serialization_support": f}))
    obs = []
    seen = {}
    for label, opts in variants:
        obs += verify_variant(run, opts, label, seen)
    _phase("C VC generation")
    py_obs = py_proof(run, args)
    _phase("Python VC generation")
    res_all = smt.solve_all(obs + py_obs)
    run.add_results(res_all)
    res = res_all[:len(obs)]
    _phase("solving")
    py_failed = [r for r in res_all[len(obs):] if not r.ok]
    run.notes["python_failed_obligations"] = [r.ob.name for r in py_failed][:20]
    # failed obligations: replay the solver model / search next to it on the real rendered function (ASan+UBSan build)
    wcache = {}
    for r in res:
        if r.ok:
            continue
        label, _, rest = r.ob.name.partition(":")
        fn = r.ob.function
        base = r.ob.name.split("/p")[0]
        if any(f.obligation == base for f in run.failures):
            continue
        key = (label, fn)
        if key not in wcache:
            try:
                wcache[key] = REF.witness(fn, WORKDIRS[label], r.model if r.status == "sat" else None)
            except Exception as ex:  # the replay harness must never turn into a verdict
                wcache[key] = {"harness_error": True, "why": f"{type(ex).__name__}: {ex}", "input": None}
        w = wcache[key]
        if w and not w.get("harness_error"):
            run.fail(report.Failure(base, r.ob.kind, f"{r.ob.name} not discharged ({r.status}); real rendered function [{label}] on {w['input']}: {w['why']}",
                                    {"witness": w, "variant": label, "model": r.model, "solver_output": r.raw[:2000], "smt2": r.ob.smt2()}, True))
        elif r.status == "sat":
            run.fail(report.Failure(base, r.ob.kind, f"{r.ob.name} not discharged (sat); model {dict(list(r.model.items())[:8])}",
                                    {"model": r.model, "replay_harness": w, "solver_output": r.raw[:2000], "smt2": r.ob.smt2()}, False))
    if args.tier == "thorough":
        for label, work in WORKDIRS.items():
            for fn in ("nunavutCopyBits", "nunavutGetBits", "nunavutSetUxx", "nunavutSetBit", "nunavutGetU8", "nunavutGetU32", "nunavutGetU64", "nunavutGetI8", "nunavutGetI32", "nunavutGetI64", "nunavutFloat16Pack", "nunavutFloat16Unpack"):
                if "nofloat" in label and "Float" in fn:
                    continue
                w = REF.witness(fn, work, None)
                run.add_bounded(f"[{label}] {fn}: native contract evaluation on the real function (ASan/UBSan)", "small offsets/lengths/sizes x 4 byte patterns, see contracts/c14_ref.py",
                                getattr(REF.witness, "evaluations", 0), w is None, str(w or ""))
    # C++ leg: bounded stand-in only (contracts/c14_cpp.py): every bitspan / const_bitspan primitive against the proved C
    # function on a deterministic sweep with dirty destination buffers (ASan/UBSan)
    from contracts import c14_cpp
    for label, opts, std in [("any", {}, "c++14"), ("little", {"target_endianness": "little"}, "c++14")] + ([("any", {}, "c++17"), ("big", {"target_endianness": "big"}, "c++20")] if args.tier == "thorough" else []):
        wd = pathlib.Path(tempfile.mkdtemp(prefix="vk_c14cpp_"))
        try:
            w, n = c14_cpp.run(wd, opts, std)
        except Exception as ex:  # the stand-in must never turn into a verdict by crashing
            w, n = {"harness_error": f"{type(ex).__name__}: {ex}"}, 0
        finally:
            shutil.rmtree(wd, ignore_errors=True)
        if w is not None and "harness_error" in w:
            run.undecide(f"C++ bitspan stand-in [{label},{std}]: {w['harness_error'][:300]}")
            continue
        run.add_bounded(f"native [{label},{std}]: C++ bitspan/const_bitspan primitives == proved C primitives (ASan/UBSan)",
                        "buffer sizes 0..12 x offsets x lengths 0..64 x 4 byte patterns, dirty destinations; every half value; 200000 float32 patterns", n, w is None, "" if w is None else w["why"][:400])
        if w is not None:
            run.fail(report.Failure(f"native[{label},{std}]#c++-bitspan-primitives-agree-with-the-proved-c-primitives", "post", w["why"][:600], {"witness": w}, True))
    _phase("C replay + C++ stand-in")
    import os
    if os.environ.get("VK_PROOF_ONLY") != "1":  # experiments only: never set by a registered command
        py_native(run, args)
    _phase("Python native stand-in")
    # an undischarged Python obligation is reported with the native run's failing input when that run found one for the same
    # primitive, otherwise as no-failing-input-found (sat) / undecided (unknown)
    seen_py = set()
    for r in py_failed:
        fn = r.ob.function.split(".")[-1]
        base = r.ob.name.split("/p")[0]
        if base in seen_py or any(f.obligation.startswith(f"native[py]:{fn}#") for f in run.failures):
            seen_py.add(base)
            continue
        seen_py.add(base)
        if r.status == "sat":
            run.fail(report.Failure(base, r.ob.kind, f"{r.ob.name} not discharged (sat); model {dict(list(r.model.items())[:6])}", {"model": r.model, "solver_output": r.raw[:2000], "smt2": r.ob.smt2()}, False))
    for work in WORKDIRS.values():
        shutil.rmtree(work, ignore_errors=True)
    run.notes["option_variants"] = [v[0] for v in variants]
    run.trust("clang 14 (typed AST of the rendered header; -Wall -Wextra -Werror)", "z3 4.8.12 / z3 5.1.0 (bit-vectors, arrays-free write logs, floating point)",
              "E-C semantics (vk/ec.py): LP64 little-endian, two's complement, IEEE-754 RNE")
    run.assume("distinct C objects do not overlap; pointer parameters are non-null and point to objects of the stated sizes",
               "pack16 is a name for nunavutFloat16Pack's result (deterministic total function)",
               "index domain: size_t arithmetic is proved not to wrap, preconditions bound sizes below 2^61 bytes")
    run.explanation = "all offsets, lengths, sizes and values are symbolic; the unaligned copy loop is cut at a memory invariant (dst == CopyBits spec of the bits done so far)"
    return run.finish()


if __name__ == "__main__":
    report.main_wrapper(main)

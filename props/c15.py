"""C15: line post-processing is chunking independent (E-PY, strings)."""
import itertools
import json
import sys

from vk import epy, report, smt, driver, pyre
from contracts import c15 as K
from props.common import SRC, parse_args

PROP = "C15"


def native_witness_search(limit_s=60):
    """Witness search on the real functions against the top-level contract: exhaustive over small texts/chunkings,
    empty chunks and the empty chunk list included."""
    import time
    from nunavut.jinja import CodeGenerator
    t0 = time.time()
    alphabet = ["a", " ", "\r", "\n"]
    n = 0
    for chunks in ([], [""], ["", ""]):
        n += 1
        bad = emit_violation(CodeGenerator, chunks)
        if bad:
            return {"input": chunks, "chunks": chunks, **bad, "evaluations": n}
    for total in range(1, 5):
        for text in itertools.product(alphabet, repeat=total):
            text = "".join(text)
            for cuts in itertools.product([0, 1], repeat=total - 1):
                chunks, cur = [], text[0]
                for ch, c in zip(text[1:], cuts):
                    if c:
                        chunks.append(cur)
                        cur = ch
                    else:
                        cur += ch
                chunks.append(cur)
                variants = [chunks, chunks + [""], [""] + chunks]
                if len(chunks) > 1:
                    variants.append(chunks[:1] + [""] + chunks[1:])
                for v in variants:
                    n += 1
                    bad = emit_violation(CodeGenerator, v)
                    if bad:
                        return {"input": v, "chunks": v, "text": text, **bad, "evaluations": n}
            if time.time() - t0 > limit_s:
                return None
    native_witness_search.evaluations = n
    return None


def trim_witness():
    from nunavut._postprocessors import TrimTrailingWhitespace
    pp = TrimTrailingWhitespace()
    alphabet = ["a", " ", "\t", "\u00a0", "\u3000", "\x0c", "\x85", "\u2003", "\r"]
    n = 0
    for total in range(0, 4):
        for text in itertools.product(alphabet, repeat=total):
            line = "".join(text)
            for le in ("\n", "\r\n", ""):
                n += 1
                got = pp((line, le))
                want = (line.rstrip(), le)  # str.rstrip strips exactly the str.isspace() characters
                if tuple(got) != want:
                    return {"input": [line, le], "why": f"returned {got!r}, contract: {want!r}", "evaluations": n}
    trim_witness.evaluations = n
    return None


def limit_witness():
    from nunavut._postprocessors import LimitEmptyLines
    n = 0
    for N in range(0, 4):
        for total in range(0, 8):
            for lines in itertools.product(["", "x", " "], repeat=min(total, 6)):  # whitespace-only lines are NOT empty
                n += 1
                pp = LimitEmptyLines(N)
                run = 0
                empties_in = 0
                for ln in lines:
                    got = tuple(pp((ln, "\n")))
                    empties_in = empties_in + 1 if ln == "" else 0
                    if ln != "" and got != (ln, "\n"):
                        return {"input": {"N": N, "lines": list(lines)}, "why": f"non-empty line {ln!r} altered to {got!r}", "evaluations": n}
                    if ln == "":
                        want = ("", "") if empties_in > N else (ln, "\n")
                        if got != want:
                            return {"input": {"N": N, "lines": list(lines)}, "why": f"empty line #{empties_in} of a run: got {got!r}, contract {want!r}", "evaluations": n}
                    run = 0 if ln != "" else (run + 1 if got == ("", "\n") else run)
                    if run > N:
                        return {"input": {"N": N, "lines": list(lines)}, "why": f"{run} consecutive empty lines let through with limit {N}", "evaluations": n}
    limit_witness.evaluations = n
    return None


def emit_violation(CodeGenerator, chunks):
    events = []

    class Rec:
        def __call__(self, t):
            events.append(t)
            return t

    import io
    out = io.StringIO()
    try:
        CodeGenerator._generate_with_line_buffer(out, iter(chunks), [Rec()])
    except Exception as ex:  # the contract has no exceptional exit
        return {"events": events, "why": f"raised {type(ex).__name__}: {ex}"}
    text = "".join(chunks)
    final = False
    for line, le in events:
        ok = not final and "\n" not in line and ((le == "\n" and not line.endswith("\r")) or le == "\r\n" or (le == "" and line != ""))
        if not ok:
            return {"events": events, "bad_event": [line, le], "why": "emit precondition violated: the processors see a line that is not a line of the complete text"}
        final = le == ""
    if "".join(a + b for a, b in events) != text:
        return {"events": events, "why": "emitted text differs from the concatenated chunks"}
    return None


def copy_violation(content):
    """Run the real SupportGenerator._copy_header_using_line_pps on a file holding `content`."""
    import tempfile, pathlib, io
    from nunavut.jinja import SupportGenerator
    events = []

    class Rec:
        def __call__(self, t):
            events.append(t)
            return t

    with tempfile.TemporaryDirectory() as d:
        src, dst = pathlib.Path(d) / "in.h", pathlib.Path(d) / "out.h"
        src.write_bytes(content.encode())
        try:
            SupportGenerator._copy_header_using_line_pps(None, src, dst, [Rec()])
        except Exception as ex:  # the contract has no exceptional exit
            return {"events": events, "why": f"raised {type(ex).__name__}: {ex}"}
        text = io.open(src, "r", encoding="utf-8").read()  # universal-newline view of the resource
        out = dst.read_text()
    final = False
    for line, le in events:
        ok = not final and "\n" not in line and ((le == "\n" and not line.endswith("\r")) or le == "\r\n" or (le == "" and line != ""))
        if not ok:
            return {"events": events, "bad_event": [line, le], "why": "a processor is handed something that is not a line of the resource"}
        final = le == ""
    if "".join(a + b for a, b in events) != text:
        return {"events": events, "text": text, "why": "the lines handed to the processors do not add up to the resource text"}
    if out != text:
        return {"out": out, "text": text, "why": "identity processor: copy differs from the resource text"}
    return None


def copy_witness_search():
    n = 0
    for total in range(1, 6):
        for text in itertools.product(["a", "\r", "\n", "\x0c", "\u2028"], repeat=total):
            n += 1
            bad = copy_violation("".join(text))
            if bad:
                return {"input": "".join(text), "content": "".join(text), **bad, "evaluations": n}
    copy_witness_search.evaluations = n
    return None


def replay_file(path):
    body = json.load(open(path))
    w = body.get("witness")
    if w and isinstance(w.get("input"), dict) and "N" in w["input"]:
        print("limiter input", w["input"], "->", limit_witness())
        return 1
    if w and "content" in w:
        bad = copy_violation(w["content"])
        print("resource content:", repr(w["content"]), "->", "VIOLATES" if bad else "ok", bad or "")
        return 1 if bad else 0
    if not w:
        print("replay file carries no concrete input (no-failing-input-found); obligation:", body.get("obligation"))
        print(body.get("solver_output", "")[:2000])
        return 1
    from nunavut.jinja import CodeGenerator
    bad = emit_violation(CodeGenerator, w["chunks"])
    print("chunks:", w["chunks"], "->", "VIOLATES" if bad else "ok", bad or "")
    return 1 if bad else 0


def main():
    args = parse_args(PROP)
    if args.replay:
        return replay_file(args.replay)
    run = report.Run(PROP, "proof", "./check C15", args.tier)
    eng = epy.Engine(SRC)
    K.install(eng)
    eng.add_contract(K.EMIT, "CodeGenerator._filter_and_write_line")
    eng.add_contract(K.PP_CALL, "LinePP.__call__")
    eng.add_contract(K.PP_CALL_TUPLE, "LinePP2.__call__")
    # bind TrimTrailingWhitespace's configuration to what the real __init__ sets
    K.install_copy(eng)
    contracts = [K.GEN, K.LIMIT, K.FILTER_AND_WRITE, K.copy_contract()]
    try:
        fields = epy.fields_from_init(eng, "nunavut/_postprocessors.py:TrimTrailingWhitespace.__init__", "TrimTrailingWhitespace", {})
        K.TRIM.params["self"] = lambda ctx, hint: ctx.new_obj("TrimTrailingWhitespace", dict(fields))
        contracts.append(K.TRIM)
    except (epy.OutOfSubset, epy.BindingError) as ex:
        run.undecide(f"TrimTrailingWhitespace.__init__: {ex}")

    class PPListProto:
        def __init__(self, it, obj):
            self.it = it

        def init(self): pass
        def havoc(self): pass
        def has_next(self): return epy.VBool(self.it.ctx.fresh("Bool", "pps.has_next"))
        def next(self): return self.it.ctx.new_obj("LinePP", {})
        def done(self): pass

    eng.intrinsics["for:PPList"] = lambda it, obj: PPListProto(it, obj)
    eng.used("line_pps: an arbitrary finite list of arbitrary line post-processors")

    witness = {"CodeGenerator._generate_with_line_buffer": native_witness_search,
               "SupportGenerator._copy_header_using_line_pps": copy_witness_search,
               "TrimTrailingWhitespace.__call__": trim_witness,
               "LimitEmptyLines.__call__": limit_witness}
    driver.verify_contracts(run, eng, contracts, witness=witness)
    # initial state of the limiter (the __call__ contract starts from the representation invariant): the real __init__
    # sets the run-length counter to 0 and stores the limit
    try:
        f = epy.fields_from_init(eng, "nunavut/_postprocessors.py:LimitEmptyLines.__init__", "LimitEmptyLines", {"max_empty_lines": epy.SInt})
        cnt, lim = f.get("_empty_line_count"), f.get("_max_empty_lines")
        ok = cnt is not None and getattr(cnt, "t", None) == "0" and lim is not None and "max_empty_lines" in getattr(lim, "t", "")
        detail = f"_empty_line_count := {getattr(cnt, 't', None)}, _max_empty_lines := {getattr(lim, 't', None)}"
    except (epy.OutOfSubset, epy.BindingError) as ex:
        ok, detail = None, str(ex)
    name = "LimitEmptyLines.__init__#post:counter-starts-at-zero-and-the-limit-is-stored"
    run.add_check(name, ok, "E-PY symbolic execution of the real __init__", 0, detail)
    run.add_function("nunavut/_postprocessors.py:LimitEmptyLines.__init__")
    if ok is False:
        w = limit_witness()
        run.fail(report.Failure(name, "post", f"LimitEmptyLines.__init__: {detail}" + (f"; real code: {w['input']}: {w['why']}" if w else ""), {"witness": w}, bool(w)))
    # the support resource is read and the copy written as UTF-8, nothing else (the ghost text of the contract IS the file's
    # text: a codec that drops or adds characters -- e.g. utf-8-sig's byte-order mark -- would break that identification)
    import ast as _ast
    from vk import efx as _efx
    ix = _efx.PyIndex(SRC)
    q = "nunavut.jinja:SupportGenerator._copy_header_using_line_pps"
    if q in ix.fns:
        opens = [n for n in _ast.walk(ix.fns[q].node) if isinstance(n, _ast.Call) and _ast.unparse(n.func) == "open"]
        encs = [next((_ast.unparse(k.value) for k in n.keywords if k.arg == "encoding"), None) for n in opens]
        ok = len(opens) == 2 and all(e == "'utf-8'" for e in encs)
        name = "SupportGenerator._copy_header_using_line_pps#both-files-opened-as-plain-utf-8"
        run.add_check(name, ok, "E-FX argument check (AST)", 0, f"encodings {encs}")
        if not ok:
            run.fail(report.Failure(name, "post", f"_copy_header_using_line_pps opens its files with encodings {encs}: the text copied is no longer the text of the resource", {}, False))
    else:
        run.undecide(f"binding failure: {q}")
    for name, fn in [(n_, f_) for n_, f_ in witness.items() if n_ in ("LimitEmptyLines.__call__", "TrimTrailingWhitespace.__call__") and args.tier != "thorough"]:
        w = fn()
        run.add_bounded(f"{name}: native evaluation of the top-level contract on the real function (CPython cross-check)",
                        "small line sequences, see props/c15.py", getattr(fn, "evaluations", 0), w is None, str(w or ""))
        if w is not None and not any(name.split(".")[0] in f_.obligation for f_ in run.failures):
            run.fail(report.Failure(f"{name}#native-contract-evaluation", "post", f"real code: {w['input']}: {w['why']}", {"witness": w}, True))
    if args.tier == "thorough":
        for name, fn in witness.items():
            w = fn()
            run.add_bounded(f"{name}: native evaluation of the top-level contract on the real function (CPython cross-check)",
                            "small texts / chunkings / line sequences, see props/c15.py", getattr(fn, "evaluations", 0), w is None, str(w or ""))
    from props import lean_glue
    lean_glue.lemmas(run, "Lines.lean", ["first_nl", "L1_unique"], "emit precondition + emitted == consumed determine the (line, terminator) pieces of a text uniquely: every chunking hands the same pieces to the processors")
    run.trust("z3 4.8.12 / z3 5.1.0 / cvc5 1.0.3 (SMT-LIB strings)", "E-PY symbolic semantics of the Python subset (vk/epy.py)",
              "lean 4 (lemma L1: uniqueness of the line decomposition, lean/Lines.lean, checked on every run)")
    run.assume("SMT-LIB Unicode strings (code points <= 0x2FFFF) stand for Python str")
    run.explanation = ("every chunk is an arbitrary string, the chunk sequence arbitrary and unbounded; the loops are cut at "
                       "inductive invariants over the ghost text consumed/emitted")
    return run.finish()


if __name__ == "__main__":
    report.main_wrapper(main)

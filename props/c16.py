"""C16: template resolution and environment contract (E-PY fragment proof of cache transparency, E-PY contracts,
E-FX structure obligations, exhaustive evaluation over the installed pydsdl class graph, bounded native histories)."""
import ast
import itertools
import pathlib
import shutil
import tempfile

from vk import driver, efx, epy, report, smt, valtheory
from vk.epy import (Contract, Ctx, Explorer, Interp, Raises, SBool, SConst, SData, SInt, SObj, SStr, VBool, VConst, VData, VInt, VObj, VStr,
                    NONE, PyRaise, _Break, PathEnd)
from props.common import SRC, parse_args

PROP = "C16"
TARGET = "nunavut/jinja/loaders.py:DSDLTemplateLoader._type_to_template_internal"

# class -> template path maps:  PathOpt = none | some(Int)
PRELUDE = ["(declare-datatypes ((PathOpt 0)) (((nopath) (somepath (pid Int)))))",
           "(declare-fun class_name (Int) String)"]


class MissReached(Exception):
    """the fragment fell through to the base-class loop: a miss for this class"""


def cache_transparency_obligations(run):
    """One BFS step, for an ARBITRARY class, cache state and template set: the decision taken (hit with which path /
    miss) and the cache update are those of the cache-free algorithm.  No precondition on the cache: a stale entry
    (written while another template set was searched) must not change the decision."""
    fn, _ = epy.find_function(SRC, TARGET)
    loops = epy.loops_in(fn)
    if not loops or not isinstance(loops[0], ast.While):
        raise epy.BindingError("BFS loop not found")
    body = loops[0].body
    pop = body[0]
    if not (isinstance(pop, ast.Assign) and "pop()" in ast.unparse(pop.value)):
        raise epy.BindingError("loop body does not start with the queue pop")
    tries = [s for s in body[1:] if isinstance(s, ast.Try)]
    if len(tries) != 2:
        raise epy.BindingError(f"expected two try blocks in the BFS step, found {len(tries)}")
    cur_name = pop.targets[0].id
    eng = epy.Engine(SRC)
    c = Contract(target=TARGET, params={}, decls=PRELUDE, theory="arith", loops={i: epy.Loop() for i in range(len(loops))})
    ex = Explorer(eng)
    outcomes = {"hit": 0, "miss": 0}

    def dict_sub(it, m, k):
        # m[k] on (Array key PathOpt): KeyError when absent
        key = k.t if isinstance(k, (VInt, VStr)) else it.ctx.get_field(k, "id").t
        r = f"(select {m.t} {key})"
        if it.ctx.branch(VBool(f"((_ is nopath) {r})"), "key-absent"):
            raise PyRaise("KeyError")
        return VData("PathOpt", r)

    def dict_store(it, m, k, v):
        key = k.t if isinstance(k, (VInt, VStr)) else it.ctx.get_field(k, "id").t
        return VData(m.kind, f"(store {m.t} {key} {v.t})")

    def dict_get(it, m, k, default=NONE):
        key = k.t if isinstance(k, (VInt, VStr)) else it.ctx.get_field(k, "id").t
        d = default.t if isinstance(default, VData) else "nopath"
        r = f"(select {m.t} {key})"
        return VData("PathOpt", f"(ite ((_ is nopath) {r}) {d} {r})")

    for kind in ("(Array Int PathOpt)", "(Array String PathOpt)"):
        eng.subscript_hooks[kind] = dict_sub
        eng.store_subscript_hooks[kind] = dict_store
        eng.intrinsics[kind + ".get"] = dict_get
    eng.eq_hooks["PathOpt.isnone"] = lambda it, v: VBool(f"((_ is nopath) {v.t})")
    eng.attr_hooks["Class.__name__"] = lambda it, o: VStr(f"(class_name {it.ctx.get_field(o, 'id').t})")

    class BasesProto:
        def __init__(self, it, obj):
            pass

        def init(self):
            raise MissReached()

    eng.attr_hooks["Class.__bases__"] = lambda it, o: it.ctx.new_obj("Bases", {})
    eng.intrinsics["for:Bases"] = lambda it, obj: BasesProto(it, obj)
    eng.used("dict lookups raise KeyError exactly when the key is absent; logging calls have no effect")
    logging_stub = VConst({"debug": VConst(lambda it, *a, **k: NONE), "info": VConst(lambda it, *a, **k: NONE)})

    def one_path():
        ctx = Ctx(ex, c, "DSDLTemplateLoader._type_to_template_internal[BFS step]")
        it = Interp(eng, ctx, {id(l): i for i, l in enumerate(loops)})
        cur = ctx.new_obj("Class", {"id": VInt(ctx.fresh("Int", "current_class", True))})
        cache0 = ctx.fresh("(Array Int PathOpt)", "cache", True)
        templ = ctx.fresh("(Array String PathOpt)", "templates", True)
        self_obj = ctx.new_obj("DSDLTemplateLoader", {"_type_to_template_lookup_cache": VData("(Array Int PathOpt)", cache0)})
        ctx.env.update({cur_name: cur, "self": self_obj, "templates": VData("(Array String PathOpt)", templ), "template_path": NONE,
                        "value_type": ctx.new_obj("Class", {"id": VInt(ctx.fresh("Int", "value_type"))}), "logging": logging_stub, "logger": logging_stub})
        ctx.snapshot_old()
        name = f"(class_name {ctx.get_field(cur, 'id').t})"
        spec = f"(select {templ} {name})"  # what the cache-free algorithm looks at
        outcome = None
        try:
            for s in body[1:]:
                it.exec(s)
            outcome = "fallthrough"
        except _Break:
            outcome = "hit"
        except MissReached:
            outcome = "miss"
        except PyRaise as e:
            ctx.prove("false", "post", f"unexpected-raise-{e.exc}")
            return
        cache1 = ctx.get_field(self_obj, "_type_to_template_lookup_cache").t
        cid = ctx.get_field(cur, "id").t
        if outcome == "hit":
            outcomes["hit"] += 1
            tp = ctx.env["template_path"]
            ctx.prove(Not_(f"((_ is nopath) {spec})"), "post", "hit-only-when-the-template-set-has-the-class-name")
            ctx.prove(f"(= {tp.t} {spec})", "post", "hit-returns-the-path-of-the-current-template-set")
        elif outcome == "miss":
            outcomes["miss"] += 1
            ctx.prove(f"((_ is nopath) {spec})", "post", "miss-only-when-the-template-set-lacks-the-class-name")
        else:
            ctx.prove("false", "post", "step-neither-hits-nor-searches-the-bases")
        # cache frame: only the entry of the current class may change, and only to the current set's path
        j = ctx.fresh("Int", "other_class")
        ctx.prove(f"(=> (not (= {j} {cid})) (= (select {cache1} {j}) (select {cache0} {j})))", "frame", "cache-entries-of-other-classes-untouched")
        ctx.prove(f"(or (= (select {cache1} {cid}) (select {cache0} {cid})) (= (select {cache1} {cid}) {spec}))", "post", "cache-entry-is-the-current-set's-path")

    ex.run(one_path)
    if outcomes["hit"] == 0 or outcomes["miss"] == 0:
        run.undecide(f"BFS step fragment: vacuity guard (hit paths {outcomes['hit']}, miss paths {outcomes['miss']})")
    for a in eng.assumed:
        run.assume(a)
    return ex.obligations


def Not_(t):
    return f"(not {t})"


# ---- native reference / bounded histories -----------------------------------------------------------------------
def bfs_nearest(cls, names):
    """first class in breadth-first order over the bases (declaration order) whose name is in `names`"""
    queue, seen = [cls], set()
    while queue:
        c = queue.pop(0)
        if c.__name__ in names:
            return c.__name__
        for b in c.__bases__:
            if b is not object and b not in seen:
                seen.add(b)
                queue.append(b)
    return None


def pydsdl_classes():
    import pydsdl
    out, todo = [], [pydsdl.Any]
    while todo:
        c = todo.pop()
        if c not in out:
            out.append(c)
            todo.extend(c.__subclasses__())
    return out


_COUNTER = [0]


def loader_history_witness(quick=True):
    import random
    from nunavut.jinja.loaders import DSDLTemplateLoader
    from nunavut._utilities import ResourceSearchPolicy
    classes = [c for c in pydsdl_classes()]
    names = sorted({c.__name__ for c in classes})
    rnd = random.Random(7)
    base = pathlib.Path(tempfile.mkdtemp(prefix="vk_c16_"))
    n = 0
    try:
        import sys, importlib
        for trial in range(12 if quick else 60):
            fs_names = set(rnd.sample(names, rnd.randrange(0, 4)))
            pkg_names = set(rnd.sample(names, rnd.randrange(1, 6))) | {"Any"}
            fsdir = base / f"fs{trial}"
            pkgroot = base / f"pk{trial}"
            _COUNTER[0] += 1
            pkgname = f"vkpkg{_COUNTER[0]}_{trial}"
            (fsdir).mkdir()
            (pkgroot / pkgname / "templates").mkdir(parents=True)
            (pkgroot / pkgname / "__init__.py").write_text("")
            (pkgroot / pkgname / "templates" / "__init__.py").write_text("__version__ = '1.0.0'\n")
            for nm in fs_names:
                (fsdir / f"{nm}.j2").write_text("fs")
            for nm in pkg_names:
                (pkgroot / pkgname / "templates" / f"{nm}.j2").write_text("pkg")
            # distractors: dotted work-in-progress copies are NOT templates named after a class
            for nm in rnd.sample(names, 3):
                (fsdir / f"{nm}.wip.j2").write_text("distractor")
                (pkgroot / pkgname / "templates" / f"{nm}.orig.j2").write_text("distractor")
            sys.path.insert(0, str(pkgroot))
            importlib.invalidate_caches()
            try:
                for policy in (ResourceSearchPolicy.FIND_ALL, ResourceSearchPolicy.FIND_FIRST):
                    def mk():
                        return DSDLTemplateLoader(templates_dirs=[fsdir], package_name_for_templates=pkgname, search_policy=policy)
                    pkg_active = policy == ResourceSearchPolicy.FIND_ALL
                    order = classes[:]
                    for rep in range(2):
                        rnd.shuffle(order)
                        warm = mk()
                        for c in order:
                            n += 1
                            got = warm.type_to_template(c)
                            cold = mk().type_to_template(c)
                            want = bfs_nearest(c, fs_names) or (bfs_nearest(c, pkg_names) if pkg_active else None)
                            g = got.stem if got is not None else None
                            cd = cold.stem if cold is not None else None
                            if g != cd or g != want:
                                return {"input": {"user_templates": sorted(fs_names), "builtin_templates": sorted(pkg_names), "policy": policy.name, "class": c.__name__,
                                                  "earlier_lookups": [x.__name__ for x in order[:order.index(c)]][-6:]},
                                        "why": f"after earlier lookups: {g}; fresh loader: {cd}; nearest-ancestor specification: {want}", "evaluations": n}
            finally:
                sys.path.remove(str(pkgroot))
        loader_history_witness.evaluations = n
        return None
    finally:
        shutil.rmtree(base, ignore_errors=True)


def instance_tests_exhaustive(run):
    """for every class of the INSTALLED pydsdl graph: test named after the class and its short alias exist and agree
    with class membership of the value / of an attribute's data type (finite instance data, evaluated exhaustively)"""
    import pydsdl
    from unittest.mock import MagicMock
    from nunavut.jinja import DSDLCodeGenerator
    tests = DSDLCodeGenerator._create_all_dsdl_tests()
    roots = [pydsdl.SerializableType, pydsdl.Attribute]
    classes = []
    for r in roots:
        todo = [r]
        while todo:
            c = todo.pop()
            if c not in classes:
                classes.append(c)
                todo.extend(c.__subclasses__())
    n, bad = 0, []
    aliases = {}
    for c in classes:
        low = c.__name__.lower()
        alias = low[:-4] if len(low) > 4 and low.endswith("type") else (low[:-5] if len(low) > 5 and low.endswith("field") else low)
        aliases.setdefault(alias, []).append(c.__name__)
        for tn in (c.__name__, alias):
            if tn not in tests:
                bad.append(f"no test named {tn}")
                continue
            for d in classes:
                n += 1
                inst = MagicMock(spec=d)
                want = issubclass(d, c)
                if bool(tests[tn](inst)) != want and len(aliases[alias]) == 1:
                    bad.append(f"test {tn} on an instance of {d.__name__}: {tests[tn](inst)} (class membership: {want})")
                if issubclass(d, pydsdl.SerializableType):
                    attr = MagicMock(spec=pydsdl.Attribute)
                    attr.data_type = inst
                    if issubclass(c, pydsdl.SerializableType) and bool(tests[tn](attr)) != want and len(aliases[alias]) == 1:
                        bad.append(f"test {tn} on an attribute of type {d.__name__}: {tests[tn](attr)} (membership: {want})")
    clash = {a: v for a, v in aliases.items() if len(v) > 1}
    run.add_check("instance-tests#exist-and-agree-with-class-membership(installed pydsdl graph, exhaustive)", not bad, "native evaluation (finite instance data)", 0,
                  f"{len(classes)} classes, {n} evaluations; alias clashes {clash}; problems {bad[:5]}")
    run.notes["pydsdl_classes"] = len(classes)
    return bad


def main():
    args = parse_args(PROP)
    run = report.Run(PROP, "proof", "./check C16", args.tier)
    wcache = {}

    def witness():
        if "w" not in wcache:
            wcache["w"] = loader_history_witness(True)
        return wcache["w"]

    # (T1) cache transparency of one BFS step
    try:
        obs = cache_transparency_obligations(run)
        res = smt.solve_all(obs)
        run.add_results(res)
        run.add_function(TARGET + " [BFS step: decision and cache update]")
        reported = set()
        for r in res:
            if not r.ok:
                base = r.ob.name.split("/p")[0]
                if base in reported:
                    continue
                reported.add(base)
                w = witness()
                run.fail(report.Failure(base, r.ob.kind, f"{r.ob.name} not discharged ({r.status}): the lookup decision depends on what earlier lookups left in the cache"
                                        + (f"; real loader: {w['input']}: {w['why']}" if w else f"; model {dict(list(r.model.items())[:5])}"),
                                        {"witness": w, "model": r.model, "smt2": r.ob.smt2()}, bool(w)))
    except (epy.BindingError, epy.OutOfSubset) as ex:
        w = witness()
        if w:
            run.fail(report.Failure("DSDLTemplateLoader._type_to_template_internal#contract", "post", f"{ex}; bounded native search: {w['input']}: {w['why']}", {"witness": w}, True))
        run.undecide(f"BFS step fragment: {ex}")
    # (T2) structure of the search: FIFO queue discipline (breadth first), bases in declaration order, cache untouched elsewhere
    ix = efx.PyIndex(SRC)
    q = "nunavut.jinja.loaders:DSDLTemplateLoader._type_to_template_internal"
    if q in ix.fns:
        fn = ix.fns[q].node
        src = ast.unparse(fn)
        ops = [ast.unparse(n.func) for n in ast.walk(fn) if isinstance(n, ast.Call) and ast.unparse(n.func).startswith("search_queue.")]
        fifo = sorted(set(ops)) == ["search_queue.appendleft", "search_queue.pop"] or sorted(set(ops)) == ["search_queue.append", "search_queue.popleft"]
        run.add_check("_type_to_template_internal#breadth-first(FIFO queue discipline)", fifo, "E-FX structure", 0, f"queue operations {sorted(set(ops))}")
        if not fifo:
            w = witness()
            run.fail(report.Failure("_type_to_template_internal#breadth-first(FIFO queue discipline)", "post", f"queue operations {sorted(set(ops))} do not give breadth-first (nearest ancestor first) order" + (f"; {w['input']}: {w['why']}" if w else ""), {"witness": w}, bool(w)))
        bases_loop = [n for n in ast.walk(fn) if isinstance(n, ast.For) and "__bases__" in ast.unparse(n.iter)]
        ok = len(bases_loop) == 1 and ast.unparse(bases_loop[0].iter).endswith(".__bases__") and "_type_to_template_lookup_cache" not in ast.unparse(bases_loop[0])
        run.add_check("_type_to_template_internal#bases-enumerated-in-declaration-order-without-touching-the-cache", ok, "E-FX structure", 0, "")
        seeds = "search_queue.appendleft(value_type)" in src or "search_queue.append(value_type)" in src
        run.add_check("_type_to_template_internal#search-starts-at-the-object's-own-class", seeds, "E-FX structure", 0, "")
    else:
        run.undecide("binding failure: _type_to_template_internal")
    # (T3) type_to_template: user (file system) set first, package set only as fallback
    q = "nunavut.jinja.loaders:DSDLTemplateLoader.type_to_template"
    if q in ix.fns:
        fn = ix.fns[q].node
        calls = [(n.lineno, g) for n, g in efx.walk_with_guards(fn) if isinstance(n, ast.Call) and ast.unparse(n.func) == "self._type_to_template_internal"]
        ok = len(calls) == 2 and efx.guard_holds(calls[0][1], "self._fsloader is not None", True) and \
            any("template_path is None" in t and pol for t, pol in calls[1][1]) and any("self._package_loader is not None" in t and pol for t, pol in calls[1][1])
        run.add_check("type_to_template#user-templates-first-package-only-as-fallback", ok, "E-FX guard dominance", 0, f"{calls}")
        if not ok:
            w = witness()
            run.fail(report.Failure("type_to_template#user-templates-first-package-only-as-fallback", "post", "the package template set is not strictly a fallback for the user set" + (f"; {w['input']}: {w['why']}" if w else ""), {"witness": w}, bool(w)))
    # DSDLCodeGenerator always asks for FIND_FIRST (a user directory switches the built-in set off)
    q = "nunavut.jinja:DSDLCodeGenerator.__init__"
    if q in ix.fns:
        ok = "search_policy=ResourceSearchPolicy.FIND_FIRST" in ast.unparse(ix.fns[q].node)
        run.add_check("DSDLCodeGenerator.__init__#single-active-template-set(FIND_FIRST)", ok, "E-FX", 0, "")
    # template names are the file stems (what comes before the .j2 suffix, dots included)
    q = "nunavut.jinja.loaders:DSDLTemplateLoader.type_to_template"
    if q in ix.fns:
        lams = [ast.unparse(n.body) for n in ast.walk(ix.fns[q].node) if isinstance(n, ast.Lambda)]
        ok = len(lams) == 2 and all(l == "(pathlib.Path(x).stem, pathlib.Path(x))" for l in lams)
        run.add_check("type_to_template#template-table-keyed-by-file-stem", ok, "E-FX structure", 0, f"{lams}")
        if not ok:
            w = witness()
            run.fail(report.Failure("type_to_template#template-table-keyed-by-file-stem", "post", f"template table keyed by {lams}" + (f"; {w['input']}: {w['why']}" if w else ""), {"witness": w}, bool(w)))
    # get_source: a user template of the same name wins, the package is the fallback (E-PY contract)
    eng2 = epy.Engine(SRC)
    FS = Contract(target="x:FsLoader.get_source", params={"self": SObj("FsLoader", {}), "environment": SObj("Env", {}), "template": SStr}, result=SInt,
                  raises=[Raises("TemplateNotFound", "not fs_has")], ensures=[("fs", "result == 1")])
    PK = Contract(target="x:PkgLoader.get_source", params={"self": SObj("PkgLoader", {}), "environment": SObj("Env", {}), "template": SStr}, result=SInt,
                  raises=[Raises("TemplateNotFound", "not pkg_has")], ensures=[("pkg", "result == 2")])
    eng2.add_contract(FS, "FsLoader.get_source")
    eng2.add_contract(PK, "PkgLoader.get_source")
    GET_SOURCE = Contract(
        target="nunavut/jinja/loaders.py:DSDLTemplateLoader.get_source",
        params={"self": SObj("DSDLTemplateLoader", {"_fsloader": epy.SOpt(SObj("FsLoader", {})), "_package_loader": epy.SOpt(SObj("PkgLoader", {}))}),
                "environment": SObj("Env", {}), "template": SStr},
        ghost={"fs_has": SBool, "pkg_has": SBool},
        raises=[Raises("TemplateNotFound", "not ((self._fsloader is not None and fs_has) or (self._package_loader is not None and pkg_has))")],
        ensures=[("user-template-of-the-same-name-wins", "implies(self._fsloader is not None and fs_has, result == 1)"),
                 ("package-is-the-fallback", "implies(not (self._fsloader is not None and fs_has), result == 2)")],
        bindings={"TemplateNotFound": ("exc", "TemplateNotFound")},
    )

    def source_witness():
        from nunavut.jinja.loaders import DSDLTemplateLoader
        from nunavut.jinja.jinja2 import Environment
        import sys, importlib
        base = pathlib.Path(tempfile.mkdtemp(prefix="vk_c16s_"))
        try:
            _COUNTER[0] += 1
            pk = f"vksrc{_COUNTER[0]}"
            (base / "fs/sub").mkdir(parents=True)
            (base / "real").mkdir()
            (base / "pk" / pk / "templates").mkdir(parents=True)
            (base / "pk" / pk / "__init__.py").write_text("")
            (base / "pk" / pk / "templates/__init__.py").write_text("")
            for nm in ("base.j2", "sub/x.j2", "linked/y.j2", "blank.j2", "spaces.j2"):
                p = base / "pk" / pk / "templates" / nm
                p.parent.mkdir(parents=True, exist_ok=True)
                p.write_text("PKG")
            (base / "fs/base.j2").write_text("USER")
            (base / "fs/blank.j2").write_text("")  # a user template wins whatever its contents: also when it is empty
            (base / "fs/spaces.j2").write_text("  \n")
            (base / "fs/sub/x.j2").write_text("USER")
            (base / "real/y.j2").write_text("USER")
            (base / "fs/linked").symlink_to(base / "real")
            sys.path.insert(0, str(base / "pk"))
            importlib.invalidate_caches()
            try:
                ld = DSDLTemplateLoader(templates_dirs=[base / "fs"], package_name_for_templates=pk)
                env = Environment()
                for nm, want in (("blank.j2", ""), ("spaces.j2", "  \n")):
                    src = ld.get_source(env, nm)[0]
                    if src != want:
                        return {"input": {"template": nm, "user_template_text": want}, "why": f"get_source({nm!r}) served {src!r} although the user directory holds an (empty/blank) template of that name"}
                for nm in ("base.j2", "./base.j2", "sub/x.j2", "linked/y.j2"):
                    src = ld.get_source(env, nm)[0]
                    if src != "USER":
                        return {"input": {"template": nm}, "why": f"get_source({nm!r}) served {src!r} although the user directory holds a template of that name"}
            finally:
                sys.path.remove(str(base / "pk"))
            return None
        finally:
            shutil.rmtree(base, ignore_errors=True)

    driver.verify_contracts(run, eng2, [GET_SOURCE], witness={"DSDLTemplateLoader.get_source": source_witness})
    # language globals are written unconditionally after the user's globals (a user global cannot displace typename_* / valuetoken_*)
    q = "nunavut.jinja.environment:CodeGenEnvironment._update_language_support"
    if q in ix.fns:
        hits = [(n, g) for n, g in efx.walk_with_guards(ix.fns[q].node) if isinstance(n, ast.Call) and ast.unparse(n) == "self.globals.update(target_language.get_globals())"]
        ok = len(hits) == 1 and not hits[0][1]
        run.add_check("_update_language_support#language-globals-written-unconditionally", ok, "E-FX guard dominance", 0, f"{[(ast.unparse(n), g) for n, g in hits]}")
        if not ok:
            run.fail(report.Failure("_update_language_support#language-globals-written-unconditionally", "post",
                                    "the target language's globals (typename_*, valuetoken_*) are not written unconditionally over user-supplied globals of the same name", {}, False))
    # (T4) environment: names cannot be replaced silently
    eng = epy.Engine(SRC)
    COLL = SData("(Array String Bool)")
    eng.intrinsics["in:(Array String Bool)"] = lambda it, m, k: VBool(f"(select {m.t} {k.t})")
    eng.store_subscript_hooks["(Array String Bool)"] = lambda it, m, k, v: VData(m.kind, f"(store {m.t} {k.t} true)")
    eng.isinstance_hooks["(Array String Bool):LanguageTemplateNamespace"] = lambda it, v: VBool(it.ctx.fresh("Bool", "is_ns"))
    eng.intrinsics["setattr"] = lambda it, coll, name, item: _setattr(it, coll, name)
    log = VConst({"debug": VConst(lambda it, *a, **k: NONE), "info": VConst(lambda it, *a, **k: NONE)})

    def _setattr(it, coll, name):
        # collection is a value: rebinding handled by recording the store in a ghost
        it.ctx.ghost["stored"] = VBool("true")
        it.ctx.ghost["stored_name"] = name
        return NONE

    ADD = Contract(
        target="nunavut/jinja/environment.py:CodeGenEnvironment._add_to_environment",
        params={"self": SObj("CodeGenEnvironment", {"_allow_replacements": SBool}), "item_name": SStr, "item": SObj("Item", {}), "collection": COLL},
        raises=[Raises("RuntimeError", "(item_name in collection) and not self._allow_replacements",
                       ensures=[("existing-entry-untouched", "collection == old(collection)")])],
        ensures=[("entry-present-afterwards", "(item_name in collection) or stored")],
        ghost={"stored": SBool, "stored_name": SStr},
        requires=["not stored"],
        modifies=["collection"],
        bindings={"logger": log, "JINJA2_FILTERS": VData("(Array String Bool)", "((as const (Array String Bool)) false)"),
                  "LanguageTemplateNamespace": ("class", "LanguageTemplateNamespace", {})},
    )
    eng.intrinsics["in:Const"] = lambda it, m, k: VBool(it.ctx.fresh("Bool", "in_builtin_filters"))
    driver.verify_contracts(run, eng, [ADD])
    # reserved global names: the guard dominates the store, and the environment's own globals are written afterwards
    q = "nunavut.jinja.environment:CodeGenEnvironment.__init__"
    if q in ix.fns:
        fn = ix.fns[q].node
        stores = [(i, n, g) for i, (n, g) in enumerate(efx.walk_with_guards(fn)) if isinstance(n, ast.Assign) and ast.unparse(n.targets[0]).startswith("self.globals[")]
        user = [s for s in stores if ast.unparse(s[1].targets[0]) == "self.globals[global_name]"]
        own = [s for s in stores if s not in user]
        guard = "global_name in self.RESERVED_GLOBAL_NAMESPACES or global_name in self.RESERVED_GLOBAL_NAMES"
        ok = len(user) == 1 and efx.guard_holds(user[0][2], guard, False)
        run.add_check("CodeGenEnvironment.__init__#user-global-with-a-reserved-name-raises-before-it-is-stored", ok, "E-FX guard dominance", 0, "")
        ok2 = bool(own) and bool(user) and all(o[0] > user[0][0] for o in own)
        run.add_check("CodeGenEnvironment.__init__#reserved-globals-written-after-user-globals(built-in wins)", ok2, "E-FX order", 0, "")
        calls_after = "self._update_language_support(lctx)" in ast.unparse(fn)
        run.add_check("CodeGenEnvironment.__init__#language-support-installed-by-_update_language_support", calls_after, "E-FX", 0, "")
    # (T6) instance tests over the installed class graph
    bad = instance_tests_exhaustive(run)
    if bad:
        run.fail(report.Failure("instance-tests#exist-and-agree-with-class-membership(installed pydsdl graph, exhaustive)", "post", "; ".join(bad[:3]), {"problems": bad[:20]}, True))
    # (T7) bounded native histories
    w = loader_history_witness(args.tier != "thorough")
    run.add_bounded("type_to_template == nearest-ancestor specification for random user/built-in template subsets, warm vs cold cache, both policies",
                    "12 (quick) / 60 (thorough) random template-set pairs x every installed pydsdl class x 2 shuffled lookup orders", getattr(loader_history_witness, "evaluations", 0), w is None, str(w or ""))
    if w and not run.failures:
        run.fail(report.Failure("native#loader-history", "post", f"{w['input']}: {w['why']}", {"witness": w}, True))
    run.trust("SMT solvers (arrays, datatypes)", "E-PY fragment execution (vk/epy.py)", "E-FX structure rules")
    run.assume("class names identify classes within one template set (no two classes of the graph share __name__)",
               "cache transparency of every step + breadth-first discipline give: result == nearest ancestor with a template, for every cache history (simulation argument, paper)",
               "with both template sets active the loader documents 'file system first, package as fallback'; the statement's 'nearest' is demanded within the active set")
    run.explanation = "one BFS step is proved for an arbitrary class, arbitrary cache contents and arbitrary template set: decision and cache update do not depend on the cache"
    return run.finish()


if __name__ == "__main__":
    report.main_wrapper(main)

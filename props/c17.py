"""C17: type headers and the support header compile together only when generated with identical language options.

 A. E-PY contract on `filter_to_static_assertion_value` (the value function V): bool -> 0/1, int -> itself,
    str -> crc32 of the UTF-8 bytes (zlib external, uninterpreted), anything else raises ValueError.
 B. structural obligations on the real template ASTs (bundled Jinja2 parser), for c and cpp:
      type header:    an unconditional loop over ALL `options.items()` whose body unconditionally prints
                      `static_assert( NAME(key) == V(value), ...`;
      support header: an unconditional loop over ALL `options.items()` printing `#define NAME(key) V(value)` /
                      `constexpr std::uint32_t NAME(key) = V(value);`;
      both sides use the same NAME and the same V expression (modulo the namespace prefix), and V is the filter of A.
 C. injectivity on the documented domain, evaluated with the real filters: for every option key of properties.yaml,
    V is pairwise distinct on the documented values; NAME is pairwise distinct on the keys.
    From A-C: headers of option sets O1 (support), O2 (type) compile  <=>  for all k: V(O1[k]) == V(O2[k])  <=>  O1 == O2.
 D. configuration matrix decided by clang: support header rendered under O1, type headers under O2, for the default set
    and every single-option change to every other documented value (quick: all pairs with the default set on one side;
    thorough: all ordered pairs, i.e. also two-option differences): the build fails iff O1 != O2, and a failing build
    contains a static-assertion diagnostic that names a differing option.
"""
import concurrent.futures
import itertools
import pathlib
import re
import shutil
import subprocess
import tempfile
import typing

import yaml

from vk import driver, efx, ej, epy, render, report
from vk.epy import Contract, Raises, SBool, SInt, SStr, SObj, VConst, VInt, VStr
from props.common import SRC, parse_args

PROP = "C17"
CORPUS = pathlib.Path(__file__).resolve().parent.parent / "corpus"

# documented values (CLI choices in nunavut/cli/__init__.py, docs/templates.rst "language options"); free-form strings get
# the default and one alternative
DOCUMENTED = {
    "target_endianness": ["any", "big", "little"],
    "omit_float_serialization_support": [False, True],
    "enable_serialization_asserts": [False, True],
    "enable_override_variable_array_capacity": [False, True],
    "std": ["c++14", "c++17", "c++17-pmr", "c++20", "cetl++14-17"],
    "std_flavor": ["std", "cetl"],
    "allocator_is_default_constructible": [True, False],
    "ctor_convention": ["default", "uses-leading-allocator", "uses-trailing-allocator"],
    "cast_format": {"c": ["(({type}) {value})", "({type})({value})"], "cpp": ["static_cast<{type}>({value})", "({type})({value})"]},
    "variable_array_type_include": ["<vector>", '"my/array.hpp"'],
    "variable_array_type_template": ["std::vector<{TYPE}>", "my::array<{TYPE}, {MAX_SIZE}>"],
    "variable_array_type_constructor_args": ["", "{MAX_SIZE}"],
    "allocator_include": ["", "<memory>"],
    "allocator_type": ["", "std::allocator"],
}


def option_defaults(lang: str) -> dict:
    d = yaml.safe_load((SRC / "nunavut/lang/properties.yaml").read_text())
    return dict(d[f"nunavut.lang.{lang}"]["options"])


def documented(lang: str, key: str) -> list:
    v = DOCUMENTED.get(key)
    if isinstance(v, dict):
        v = v[lang]
    return list(v) if v is not None else []


# ---------------------------------------------------------------------------------------------------------------------
def contracts(engine):
    engine.used("zlib.crc32(bytearray(s, 'utf-8')) is an external function: uninterpreted crc32_utf8: String -> Int")
    decl = ["(declare-fun crc32_utf8 (String) Int)"]
    engine.spec_fns["crc32_utf8"] = lambda it, n: VInt(f"(crc32_utf8 {it.eval(n.args[0]).t})")
    b = {"bytearray": VConst(lambda it, s, enc: s), "crc32": VConst(lambda it, s: VInt(f"(crc32_utf8 {s.t})"))}
    tgt = "nunavut/lang/c/__init__.py:filter_to_static_assertion_value"
    return [
        Contract(target=tgt, params={"obj": SBool}, ensures=[("bool-maps-to-0-or-1", "result == ite(obj, 1, 0)")], label="bool", bindings=b, decls=decl),
        Contract(target=tgt, params={"obj": SInt}, ensures=[("int-maps-to-itself", "result == obj")], label="int", bindings=b, decls=decl),
        Contract(target=tgt, params={"obj": SStr}, ensures=[("str-maps-to-crc32-of-utf8", "result == crc32_utf8(obj)")], label="str", bindings=b, decls=decl),
        Contract(target=tgt, params={"obj": SObj("float", {})}, raises=[Raises("ValueError", "True")], label="other", bindings=b, decls=decl),
    ]


# ---------------------------------------------------------------------------------------------------------------------
def find_option_loops(tree):
    """(For node, guards around it) for every `for key, value in options.items()`"""
    from nunavut.jinja.jinja2 import nodes as N
    out = []

    def walk(n, guards):
        if isinstance(n, N.If):
            t = efx.jinja_text(n.test)
            for b in n.body:
                walk(b, guards + (t,))
            for el in getattr(n, "elif_", []) or []:
                walk(el, guards + ("not " + t,))
            for b in n.else_ or []:
                walk(b, guards + ("not " + t,))
            return
        if isinstance(n, N.For) and efx.jinja_text(n.iter) == "options.items()":
            out.append((n, guards))
        for ch in n.iter_child_nodes():
            walk(ch, guards)

    walk(tree, ())
    return out


def loop_line(loop, before_rx: str):
    """inside the loop body: the expressions printed in the statement that starts with text matching before_rx;
    returns (list of (expr text) up to the end of the statement, guards inside the loop) or None"""
    items = ej.flat_outputs(loop)  # flat_outputs walks children of any node
    for i, it in enumerate(items):
        if it[0] == "data" and re.search(before_rx + r"\Z", it[1]):
            exprs, texts, guards = [], [it[1]], ()
            for nxt in items[i + 1:]:
                if nxt[0] == "expr":
                    exprs.append(efx.jinja_text(nxt[1]))
                    guards = nxt[2]
                else:
                    texts.append(nxt[1])
                    if re.search(r"[;\n]", nxt[1]) and len(exprs) >= 2:
                        break
            return exprs, texts, guards
    return None


SIDES = {
    "c": {"type": ("lang/c/templates/base.j2", r"static_assert\(\s*"), "support": ("lang/c/support/serialization.j2", r"#define\s+")},
    "cpp": {"type": ("lang/cpp/templates/base.j2", r"static_assert\(\s*nunavut::support::options::"), "support": ("lang/cpp/support/serialization.j2", r"constexpr\s+std::uint32_t\s+")},
}
ALLOWED_GUARDS = {("cpp", "type"): {"not nunavut.support.omit"}, ("c", "type"): {"not nunavut.support.omit"}}  # nothing to mix with when serialization support is omitted


def structural(run):
    for lang, sides in SIDES.items():
        got = {}
        for side, (rel, rx) in sides.items():
            tree = efx.parse_template(SRC, SRC / "nunavut" / rel)
            name = f"nunavut/{rel}#{side}-side-guard-over-all-options"
            run.add_function(f"nunavut/{rel}")
            found = None
            for loop, guards in find_option_loops(tree):
                ll = loop_line(loop, rx)
                if ll is not None:
                    found = (loop, guards, ll)
                    break
            if found is None:
                run.add_check(name, False, "E-J structure", 0, f"no loop over options.items() prints a statement starting /{rx}/")
                run.fail(report.Failure(name, "post", f"{rel}: no loop over `options.items()` prints the per-option {'static_assert' if side == 'type' else 'definition'}: options are not compared", {}, False))
                continue
            loop, guards, (exprs, texts, inner) = found
            problems = []
            extra = set(guards) - ALLOWED_GUARDS.get((lang, side), set())
            if extra:
                problems.append(f"the loop is conditional on {sorted(extra)}")
            if loop.test is not None:
                problems.append(f"the loop filters options (`if {efx.jinja_text(loop.test)}`)")
            if efx.jinja_text(loop.target) not in ("Tuple(key, value)", "key, value") and [efx.jinja_text(x) for x in getattr(loop.target, "items", [])] != ["key", "value"]:
                problems.append("loop target is not (key, value)")
            if inner:
                problems.append(f"the statement is conditional inside the loop on {[g[0] for g in inner]}")
            if len(exprs) < 2:
                problems.append("the statement does not print a name and a value expression")
            if side == "type" and not re.search(r"==\s*\Z", texts[1] if len(texts) > 1 else ""):
                problems.append(f"name and value are not compared with `==` ({texts[1][:20]!r})")
            if side == "support" and len(texts) > 1 and texts[1].strip() not in ("", "="):
                problems.append(f"unexpected text between name and value: {texts[1][:20]!r}")
            if side == "type":
                # preprocessor conditionals open at the assertion: nothing but the header's own include guard may be
                pre = []
                for it_ in ej.flat_outputs(tree):
                    if it_[0] == "data":
                        pre.append(it_[1])
                        if re.search(rx + r"\Z", it_[1]) or re.search(rx, it_[1]):
                            break
                    else:
                        pre.append("X")
                text = "".join(pre)
                stack = []
                for line in text.splitlines():
                    l = line.strip()
                    if re.match(r"#\s*(if|ifdef|ifndef)\b", l):
                        stack.append(l)
                    elif re.match(r"#\s*endif\b", l) and stack:
                        stack.pop()
                extra_pp = [d for d in stack if not re.match(r"#\s*ifndef\s+\S+$", d)] + (stack[1:] if len([d for d in stack if re.match(r"#\s*ifndef\s+\S+$", d)]) > 1 else [])
                if extra_pp:
                    problems.append(f"the assertions sit inside preprocessor conditionals other than the include guard: {extra_pp}")
            run.add_check(name, not problems, "E-J structure", 0, f"{exprs[:2]} guards={list(guards)}")
            if problems:
                run.fail(report.Failure(name, "post", f"{rel}: " + "; ".join(problems), {"exprs": exprs, "texts": texts[:3]}, False))
            got[side] = exprs[:2]
        if len(got) == 2:
            name = f"{lang}#both-sides-use-the-same-name-and-value-functions"
            norm = lambda e: re.sub(r"\bln\.c\.", "", e)
            (n1, v1), (n2, v2) = got["type"], got["support"]
            ok = norm(n1) == norm(n2) and norm(v1) == norm(v2) and norm(v1) == "value|to_static_assertion_value" and "key" in n1
            run.add_check(name, ok, "E-J structure", 0, f"type header: {n1} == {v1}; support header: {n2} := {v2}")
            if not ok:
                run.fail(report.Failure(name, "post", f"{lang}: the type header asserts `{n1} == {v1}` but the support header defines `{n2}` as `{v2}`", {}, False))


def injectivity(run):
    from nunavut.lang.c import filter_to_static_assertion_value as V
    n = 0
    for lang in ("c", "cpp"):
        ctx = render.language_context(lang)
        L = ctx.get_target_language()
        keys = list(option_defaults(lang))
        if lang == "c":
            from nunavut.lang.c import filter_macrofy
            names = {k: filter_macrofy(L, "NUNAVUT_SUPPORT_LANGUAGE_OPTION_{}".format(k)) for k in keys}
        else:
            from nunavut.lang.cpp import filter_id
            names = {k: filter_id(L, k) for k in keys}
        name = f"{lang}#option-names-pairwise-distinct"
        ok = len(set(names.values())) == len(keys)
        n += 1
        run.add_check(name, ok, "evaluation of the real NAME filter on the option keys of properties.yaml", 0, str(names)[:200])
        if not ok:
            run.fail(report.Failure(name, "post", f"{lang}: two option keys map to one guard name: {names}", {"names": names}, True))
        for k in keys:
            vals = documented(lang, k)
            name = f"{lang}:{k}#value-function-injective-on-documented-values"
            if not vals:
                run.undecide(f"{name}: option `{k}` has no documented value list in props/c17.py (new option?)")
                continue
            dflt = option_defaults(lang)[k]
            if dflt not in vals:
                vals.append(dflt)
            try:
                img = {repr(v): V(v) for v in vals}
            except ValueError as ex:
                run.add_check(name, False, "evaluation", 0, str(ex))
                run.fail(report.Failure(name, "post", f"{lang}: V raises on a documented value of {k}: {ex}", {}, True))
                continue
            ok = len(set(img.values())) == len(vals) and all(0 <= x < 2 ** 32 for x in img.values())
            n += 1
            run.add_check(name, ok, "evaluation of the real filter_to_static_assertion_value on the documented values", 0, str(img)[:200])
            if not ok:
                run.fail(report.Failure(name, "post", f"{lang}: option {k}: two documented values share one assertion value (or leave uint32): {img}", {"image": img}, True))
    return n


# ---------------------------------------------------------------------------------------------------------------------
def option_sets(lang: str):
    """default set + every single-option change to another documented value that renders"""
    base = option_defaults(lang)
    sets = [("default", {})]
    for k in base:
        for v in documented(lang, k):
            if v != base[k]:
                sets.append((f"{k}={v}", {k: v}))
    return sets


def render_set(lang: str, label: str, opts: dict, root: pathlib.Path):
    d = root / f"{lang}_{re.sub(r'[^A-Za-z0-9]+', '_', label)}"
    try:
        render.render_types(lang, CORPUS / "vkm", d / "types", opts, support=False)
        render.render_support(lang, d / "support", opts)
    except Exception as ex:  # an option value the generator itself rejects cannot be mixed with anything
        return None, f"{type(ex).__name__}: {str(ex)[:120]}"
    return d, None


def compile_pair(lang: str, dS: pathlib.Path, dT: pathlib.Path, std: str, asserts: bool):
    hdr = "vkm/Msg_1_0.h" if lang == "c" else "vkm/Msg_1_0.hpp"
    src = ("#include <assert.h>\n#define NUNAVUT_ASSERT(x) assert(x)\n" if asserts else "") + f'#include "{hdr}"\n'
    cc = ["clang", "-x", "c", "-std=c11"] if lang == "c" else ["clang++", "-x", "c++", f"-std={std}"]
    p = subprocess.run(cc + ["-fsyntax-only", "-ferror-limit=0", "-fno-caret-diagnostics", "-I", str(dT / "types"), "-I", str(dS / "support"), "-"], input=src, capture_output=True, text=True)
    return p.returncode, p.stderr


def matrix(run, args):
    work = pathlib.Path(tempfile.mkdtemp(prefix="vk_c17_"))
    total = 0
    try:
        for lang in ("c", "cpp"):
            sets = []
            skipped = []
            for label, opts in option_sets(lang):
                d, err = render_set(lang, label, opts, work)
                if d is None:
                    skipped.append(f"{label}: {err}")
                else:
                    # the EFFECTIVE option set (shorthands such as std=c++17-pmr expand into several options)
                    eff = dict(render.language_context(lang, opts).get_target_language().get_options())
                    sets.append((label, eff, d))
            run.notes.setdefault("option_sets", {})[lang] = [s[0] for s in sets]
            run.notes.setdefault("option_sets_not_renderable", {})[lang] = skipped

            def usable(opts):  # can this sandbox compile headers of that set at all (cetl headers are not installed)
                return "cetl" not in str(opts.get("std", "")) and opts.get("std_flavor") != "cetl" and "cetl" not in str(opts.get("variable_array_type_include", "")) and "my" not in str(opts.get("variable_array_type_include", "")) + str(opts.get("variable_array_type_template", ""))

            pairs = [(a, b) for a in sets for b in sets if args.tier == "thorough" or a[0] == "default" or b[0] == "default" or a[0] == b[0]]

            def job(pair):
                (la, oa, da), (lb, ob, db) = pair
                if not (usable(oa) and usable(ob)):
                    return pair, None, "not compilable in this sandbox (external headers)"
                std = (ob.get("std") or "c++14").replace("-pmr", "")
                rc, err = compile_pair(lang, da, db, std, bool(oa.get("enable_serialization_asserts") or ob.get("enable_serialization_asserts")))
                return pair, rc, err

            with concurrent.futures.ThreadPoolExecutor(max_workers=14) as ex:
                results = list(ex.map(job, pairs))
            uncompilable = 0
            for ((la, oa, da), (lb, ob, db)), rc, err in results:
                if rc is None:
                    uncompilable += 1
                    continue
                total += 1
                same = oa == ob
                name = f"{lang}:support[{la}]+types[{lb}]#{'compiles' if same else 'rejected-naming-the-option'}"
                diff_keys = sorted(set(k for k in set(oa) | set(ob) if oa.get(k, None) != ob.get(k, None)))
                if same:
                    ok = rc == 0
                    why = "" if ok else f"identical option sets do not compile: {err[:300]}"
                else:
                    # the diagnostic quotes the evaluated operands; the option is named by the asserted expression in the
                    # type header at the reported line (and the line after it, where the message continues)
                    sa = []
                    for l in err.splitlines():
                        m = re.match(r"(.*?):(\d+):\d+: error: static[_ ]assert(?:ion)? failed", l)
                        if m and pathlib.Path(m.group(1)).exists():
                            src_lines = pathlib.Path(m.group(1)).read_text().splitlines()
                            sa.append(" ".join(src_lines[int(m.group(2)) - 1:int(m.group(2)) + 1]))
                    named = [k for k in diff_keys if any(re.search(r"(?<![A-Za-z0-9])" + k + r"(?![A-Za-z0-9_])", l, re.I) for l in sa)]
                    ok = rc != 0 and bool(named)
                    why = "" if ok else (f"headers generated with different options ({diff_keys}) compile together" if rc == 0 else
                                         f"the build fails but no static assertion names a differing option ({diff_keys}): {err[:300]}")
                run.add_check(name, ok, "clang -fsyntax-only on the mixed include path", 0, f"differing: {diff_keys}" if not same else "identical")
                if not ok:
                    run.fail(report.Failure(name, "post", why, {"support_options": oa, "type_options": ob, "clang": err[:2000], "language": lang}, True))
            run.notes.setdefault("pairs_not_compilable_here", {})[lang] = uncompilable
    finally:
        shutil.rmtree(work, ignore_errors=True)
    return total


def main():
    args = parse_args(PROP)
    run = report.Run(PROP, "proof", "./check C17", args.tier)
    eng = epy.Engine(SRC)
    driver.verify_contracts(run, eng, contracts(eng))
    structural(run)
    n = injectivity(run)
    total = matrix(run, args)
    if total == 0 or n == 0:
        run.undecide("no configuration pair was compiled / no injectivity obligation (vacuity guard)")
    run.notes["configuration_pairs_compiled"] = total
    run.trust("bundled Jinja2 parser for the template ASTs", "clang 14 (static_assert evaluation)", "zlib.crc32 (uninterpreted in the E-PY contract, evaluated natively for injectivity)", "z3", "E-PY / E-J semantics")
    run.assume("documented option values: CLI choices and docs (table DOCUMENTED in props/c17.py); free-form string options are represented by their default and one alternative",
               "the `std` values needing CETL headers and a user-supplied array header cannot be compiled in this sandbox: covered by the structural + injectivity obligations only",
               "C++ type headers generated with omitted serialization support carry no guard (there is no support header to mix with): allowed guard `not nunavut.support.omit`")
    run.explanation = ("value function under E-PY contract; both templates of each language proved (on their ASTs) to compare/define every option with the same name and value functions; injectivity on the "
                       "documented domain evaluated with the real filters; every default-vs-single-change pair (thorough: all ordered pairs) of rendered header sets compiled by clang")
    return run.finish()


if __name__ == "__main__":
    report.main_wrapper(main)

"""C18: generated Python data objects validate, reflect and convert faithfully.

Per program (corpus/vk + corpus/vkm + corpus/kw, every generated class incl. service Request/Response), on the REAL
generated text (rendered from the working tree on every run, nothing imported -- NumPy is not installed here):
  * E-PY contracts on every generated integer / boolean property setter, for ALL argument values:
        raises ValueError  <=>  the value is outside the DSDL type's inclusive range   (otherwise self._<f> == int(x)),
        boolean setters store bool(x);
        in a union, the setter leaves exactly the assigned option set: every other option field is None afterwards
    (range bounds are taken from the pydsdl model, not from the generated text).
  * the type model embedded in each class: the _MODEL_ blob is decoded from the module's AST with the module's own
    _restore_constant_ algorithm and compared with the pydsdl model of the source definition (closed evaluation).
Not within reach (stated N/A clauses): floating-point setters (np.isfinite, float ranges), array setters (NumPy casting,
flattening and dtype rules), the union constructor's more-than-one-argument rule (assignments there go through the property
protocol), to_builtin / update_from_builtin round trips (nunavut_support needs NumPy) -- no contract over NumPy semantics is
available in this sandbox and the code cannot even be executed here.
"""
import ast
import base64
import gzip
import pathlib
import pickle
import shutil
import tempfile
import typing

import pydsdl

from vk import driver, epy, render, report
from vk.epy import Contract, Raises, SBool, SInt, SObj, SOpt, SData
from props.common import SRC, parse_args

PROP = "C18"
CORPUS = pathlib.Path(__file__).resolve().parent.parent / "corpus"


def classes_of(types):
    """(module path parts, class path, composite)"""
    for t in types:
        mod = t.full_name.split(".")[:-1] + [f"{t.short_name}_{t.version.major}_{t.version.minor}"]
        if isinstance(t, pydsdl.ServiceType):
            yield mod, [mod[-1], "Request"], t.request_type
            yield mod, [mod[-1], "Response"], t.response_type
        else:
            yield mod, [mod[-1]], t


def class_node(tree: ast.Module, path: typing.List[str]) -> typing.Optional[ast.ClassDef]:
    body = tree.body
    node = None
    for nm in path:
        node = next((n for n in body if isinstance(n, ast.ClassDef) and n.name == nm), None)
        if node is None:
            return None
        body = node.body
    return node


def setter_of(cls: ast.ClassDef, attr: str) -> typing.Optional[ast.FunctionDef]:
    for n in cls.body:
        if isinstance(n, ast.FunctionDef) and any(ast.unparse(d) == f"{n.name}.setter" for d in n.decorator_list):
            # the property is named after the (stropped) attribute; the backing field is self._<attr>
            # (in a union every setter also clears the other options: the one we want assigns a value, not None)
            stores = [a for a in ast.walk(n) if isinstance(a, ast.Assign) and len(a.targets) == 1 and isinstance(a.targets[0], ast.Attribute) and a.targets[0].attr == "_" + attr
                      and not (isinstance(a.value, ast.Constant) and a.value.value is None)]
            if stores:
                return n
    return None


def native_setter_witness(src: str, meta: dict):
    """bounded native run of the extracted setter (it needs nothing but `self`): boundary values against the same contract"""
    ns: dict = {"_np_": type("NP", (), {"uint8": int, "uint16": int, "uint32": int, "uint64": int, "int8": int, "int16": int, "int32": int, "int64": int, "isfinite": staticmethod(lambda v: v == v and abs(v) != float("inf"))})}
    try:
        exec(compile(src, "<generated setter>", "exec"), ns)
    except Exception as ex:
        return {"harness_error": f"{type(ex).__name__}: {ex}"}
    G = ns["G"]
    lo, hi = meta["lo"], meta["hi"]
    vals = sorted({lo - 1, lo, lo + 1, hi - 1, hi, hi + 1, 0, 1, -1, 2 * hi + 1, hi + 256, lo - 256}) if meta["kind"] == "int" else [True, False]
    n = 0
    for v in vals:
        for prev in ("self", "other"):
            n += 1
            o = G()
            for f in meta["all"]:
                setattr(o, f, None if meta["union"] else 7)
            if meta["union"]:
                setattr(o, meta["field"] if prev == "self" else (meta["others"][0] if meta["others"] else meta["field"]), 3)
            before = {f: getattr(o, f) for f in meta["all"]}
            try:
                o.setter(v)
                raised = None
            except ValueError:
                raised = "ValueError"
            except Exception as ex:
                raised = type(ex).__name__
            ok_range = lo <= v <= hi if meta["kind"] == "int" else True
            after = {f: getattr(o, f) for f in meta["all"]}
            if ok_range and raised:
                return {"input": {"value": v, "field": meta["field"]}, "why": f"in-range value rejected with {raised}", "evaluations": n}
            if not ok_range and raised != "ValueError":
                return {"input": {"value": v, "field": meta["field"], "object_before": before}, "why": f"out-of-range value [{lo}, {hi}] " + (f"raises {raised}" if raised else f"is stored as {after[meta['field']]!r}"), "evaluations": n}
            if raised and after != before:
                return {"input": {"value": v, "field": meta["field"], "object_before": before}, "why": f"the rejected assignment changed the object: {after}", "evaluations": n}
            if not raised and (after[meta["field"]] != v or any(after[g] is not None for g in meta["others"])):
                return {"input": {"value": v, "field": meta["field"], "object_before": before}, "why": f"after the assignment the object is {after}", "evaluations": n}
    return None


FLOAT_DECLS = ["(declare-sort PyFloat 0)", "(declare-fun isfinite (PyFloat) Bool)", "(declare-fun fgt (PyFloat Real) Bool)", "(declare-fun flt (PyFloat Real) Bool)"]


def float_setter_theory(e) -> None:
    """comparisons of an abstract Python float with a literal: x > c is fgt(x, c), x < c is flt(x, c), x <= c is not fgt,
    x >= c is not flt (and mirrored); chained comparisons are conjunctions (E-PY's Compare)"""
    from fractions import Fraction

    def const(it, v: float):
        fr = Fraction(v)
        return epy.VData("PyFloatConst", f"(/ {fr.numerator}.0 {fr.denominator}.0)" if fr >= 0 else f"(- (/ {-fr.numerator}.0 {fr.denominator}.0))")

    e.intrinsics["float-constant"] = const
    e.intrinsics["neg:PyFloatConst"] = lambda it, a: epy.VData("PyFloatConst", f"(- {a.t})")

    def cmp(it, op, a, b):
        flip = {ast.Gt: ast.Lt, ast.Lt: ast.Gt, ast.GtE: ast.LtE, ast.LtE: ast.GtE}
        if getattr(a, "kind", "") == "PyFloatConst" and getattr(b, "kind", "") == "PyFloat":
            a, b, op = b, a, flip[type(op)]()
        if getattr(a, "kind", "") == "PyFloat" and getattr(b, "kind", "") == "PyFloatConst":
            if isinstance(op, ast.Gt):
                return epy.VBool(f"(fgt {a.t} {b.t})")
            if isinstance(op, ast.Lt):
                return epy.VBool(f"(flt {a.t} {b.t})")
            if isinstance(op, ast.LtE):
                return epy.VBool(f"(not (fgt {a.t} {b.t}))")
            if isinstance(op, ast.GtE):
                return epy.VBool(f"(not (flt {a.t} {b.t}))")
        raise epy.OutOfSubset("float comparison")

    e.binop_hooks["cmp:PyFloat"] = cmp
    e.binop_hooks["cmp:PyFloatConst"] = cmp
    e.used("Python floats are an abstract sort with the predicates the generated code uses (isfinite, comparison with a literal); float(x) of a float is x")


def py_native(run, args):
    """Bounded native stand-in (never counted as proved) for the clauses no contract reaches here: the REAL generated classes
    of corpus/pyo + vk + vkm + kw are executed in the overlay interpreter (NumPy from the offline wheelhouse): every field x
    candidate values in range / at the boundary / out of range / wrong length (lists, ndarrays, bytes, bytearray, str incl.
    multi-byte text) -> stored or ValueError with the object unchanged; union constructor and assignments leave exactly one
    option; get_model/get_class against the source definition; to_builtin -> update_from_builtin -> serialize round trip."""
    from contracts import py_leg
    work = pathlib.Path(tempfile.mkdtemp(prefix="vk_c18n_"))
    try:
        types = []
        for ns, lookup in (("pyo", []), ("vk", []), ("vkm", []), ("kw", [CORPUS / "kw2"])):
            render.render_types("py", CORPUS / ns, work, {}, lookup=lookup)
            for dep in lookup:  # the generated modules import their dependencies' packages: generate those too
                render.render_types("py", dep, work, {}, lookup=[CORPUS / ns], support=False)
            for t in pydsdl.read_namespace(str(CORPUS / ns), [str(p) for p in lookup], allow_unregulated_fixed_port_id=True):
                types += [t.request_type, t.response_type] if isinstance(t, pydsdl.ServiceType) else [t]
        try:
            bad, n, err = py_leg.data_object_checks(sorted(types, key=str), work, 40 if args.tier != "thorough" else 400)
        except Exception as ex:  # the stand-in must never turn into a verdict by crashing
            bad, n, err = [], 0, f"{type(ex).__name__}: {ex}"
        if err:
            run.undecide(f"Python data-object stand-in: {err[:400]}")
            return
        run.add_bounded("native [py]: generated classes honour the data-object contract (CPython 3.12 + NumPy)",
                        f"{len(types)} classes x every field x boundary/out-of-range/wrong-length candidates; union constructor/assignment sequences; get_model/get_class; builtin round trip on boundary + pseudo-random objects",
                        n, not bad, "" if not bad else f"{bad[0][0]}: {str(bad[0][1]['input'])[:200]}: {bad[0][1]['why'][:300]}", [b[0] for b in bad])
        for name, w in bad:
            run.fail(report.Failure(name, "post", f"{str(w['input'])[:300]}: {w['why'][:500]}", {"witness": w}, True))
    finally:
        shutil.rmtree(work, ignore_errors=True)


def main():
    args = parse_args(PROP)
    run = report.Run(PROP, "proof", "./check C18", args.tier)
    work = pathlib.Path(tempfile.mkdtemp(prefix="vk_c18_"))
    n_set = n_model = 0
    pylang = render.language_context("py").get_target_language()

    def pyid(name: str) -> str:  # the identifier the generator uses for an attribute (keywords are stropped)
        return pylang.filter_id(name, "any")
    skipped: typing.Dict[str, int] = {}
    try:
        for ns, lookup in (("vk", []), ("vkm", []), ("kw", [CORPUS / "kw2"])):
            out = work / ns
            render.render_types("py", CORPUS / ns, out, {}, lookup=lookup)
            types = pydsdl.read_namespace(str(CORPUS / ns), [str(p) for p in lookup], allow_unregulated_fixed_port_id=True)
            for mod, cpath, t in classes_of(types):
                path = out.joinpath(*mod).with_suffix(".py")
                text = path.read_text()
                tree = ast.parse(text)
                cls = class_node(tree, cpath)
                tn = f"{t.full_name}.{t.version.major}.{t.version.minor}"
                if cls is None:
                    run.undecide(f"binding failure: class {'.'.join(cpath)} not found in {path.name}")
                    continue
                is_union = isinstance(t.inner_type, pydsdl.UnionType)
                fields = [f for f in t.fields_except_padding]
                # symbolic object: one backing field per attribute
                spec_fields: typing.Dict[str, typing.Any] = {}
                for f in fields:
                    dt = f.data_type
                    base = SInt if isinstance(dt, pydsdl.IntegerType) else (SBool if isinstance(dt, pydsdl.BooleanType) else (SData("PyFloat") if isinstance(dt, pydsdl.FloatType) else SData("Opaque")))
                    spec_fields["_" + pyid(f.name)] = SOpt(base) if is_union else base
                contracts = []
                overrides = {}
                for f in fields:
                    dt = f.data_type
                    kind = "int" if isinstance(dt, pydsdl.IntegerType) else ("bool" if isinstance(dt, pydsdl.BooleanType) else ("float" if isinstance(dt, pydsdl.FloatType) else None))
                    if kind is None:
                        skipped[type(dt).__name__] = skipped.get(type(dt).__name__, 0) + 1
                        continue
                    fn = setter_of(cls, pyid(f.name))
                    if fn is None:
                        run.undecide(f"binding failure: {tn}: no property setter stores self._{f.name}")
                        continue
                    # mechanical extraction: the setter's FunctionDef, decorators dropped, as the only member of a class stub
                    stub = ast.ClassDef(name="G", bases=[], keywords=[], body=[ast.FunctionDef(name="setter", args=fn.args, body=fn.body, decorator_list=[], returns=None, type_comment=None, type_params=[])], decorator_list=[], type_params=[])
                    src = ast.unparse(ast.fix_missing_locations(ast.Module(body=[stub], type_ignores=[])))
                    argname = fn.args.args[1].arg
                    others = [g for g in fields if g is not f]
                    ens = []
                    if kind == "int":
                        lo, hi = int(dt.inclusive_value_range.min), int(dt.inclusive_value_range.max)
                        unchanged = " and ".join(f"self._{pyid(g.name)} == old(self._{pyid(g.name)})" for g in fields if isinstance(g.data_type, (pydsdl.IntegerType, pydsdl.BooleanType))) or "True"
                        cleared_ok = " and ".join(f"(self._{pyid(g.name)} is None) == (old(self._{pyid(g.name)}) is None)" for g in fields) if is_union else "True"
                        rs = [Raises("ValueError", f"not ({lo} <= {argname} and {argname} <= {hi})",
                                     ensures=[("a-rejected-assignment-leaves-the-object-as-it-was", f"{unchanged} and {cleared_ok}")])]
                        ens.append(("in-range-value-is-stored", f"self._{pyid(f.name)} == {argname}"))
                    elif kind == "float":
                        # "raises ValueError iff the value is FINITE and outside the type's range" (non-finite values are stored);
                        # float64 fields accept every float.  The bound is the pydsdl range as an exact rational: the setter's
                        # literal must denote the same number.  Python floats are an abstract sort with the predicates the
                        # generated code uses (isfinite, comparison with a constant).
                        from fractions import Fraction
                        mx = Fraction(dt.inclusive_value_range.max)
                        mxt = f"(/ {mx.numerator}.0 {mx.denominator}.0)"
                        others_unchanged = " and ".join(f"self._{pyid(g.name)} == old(self._{pyid(g.name)})" for g in fields if isinstance(g.data_type, (pydsdl.IntegerType, pydsdl.BooleanType))) or "True"
                        cleared_ok = " and ".join(f"(self._{pyid(g.name)} is None) == (old(self._{pyid(g.name)}) is None)" for g in fields) if is_union else "True"
                        if dt.bit_length < 64:
                            rs = [Raises("ValueError", f"smt('Bool', '(and (isfinite {{0}}) (or (fgt {{0}} {mxt}) (flt {{0}} (- {mxt}))))', {argname})",
                                         ensures=[("a-rejected-assignment-leaves-the-object-as-it-was", f"{others_unchanged} and {cleared_ok}")])]
                        else:
                            rs = []
                        ens.append(("admissible-value-is-stored", f"smt('Bool', '(= {{0}} {{1}})', self._{pyid(f.name)}, {argname})"))
                    else:
                        rs = []
                        ens.append(("truth-value-is-stored", f"self._{pyid(f.name)} == {argname}"))
                    if is_union:
                        ens.append(("the-assigned-option-is-set", f"self._{pyid(f.name)} is not None"))
                        if others:
                            ens.append(("every-other-option-is-cleared", " and ".join(f"self._{pyid(g.name)} is None" for g in others)))
                    label = f"{tn}.{f.name}"
                    c = Contract(target=f"<generated {path.relative_to(out).as_posix()} {'.'.join(cpath)}.{f.name}>:G.setter", params={"self": SObj("G", dict(spec_fields)), argname: SInt if kind == "int" else (SData("PyFloat") if kind == "float" else SBool)},
                                 raises=rs, ensures=ens, modifies=[f"self._{pyid(g.name)}" for g in (fields if is_union else [f])], label=label, decls=["(declare-sort Opaque 0)"] + FLOAT_DECLS)
                    if kind == "float":
                        c.bindings = {"_np_": epy.VConst({"isfinite": epy.VConst(lambda it, x: epy.VBool(f"(isfinite {x.t})"))}), "float": epy.VConst(lambda it, x: x)}
                    c.meta = {"kind": kind, "field": "_" + pyid(f.name), "arg": argname, "lo": lo if kind == "int" else 0, "hi": hi if kind == "int" else 1,
                              "others": ["_" + pyid(g.name) for g in others] if is_union else [], "all": ["_" + pyid(g.name) for g in fields], "union": is_union}
                    contracts.append(c)
                    overrides[c.target] = src
                    n_set += 1
                # one engine per setter text (text overrides are keyed by target)
                for c in contracts:
                    eng = epy.Engine(SRC)
                    eng.ghost_classes = set()
                    float_setter_theory(eng)
                    if c.meta["kind"] == "float":  # no native re-run of an extracted float setter: the native data-object leg covers it
                        driver.verify_contracts(run, eng, [c], text_overrides={c.target: overrides[c.target]})
                        continue
                    driver.verify_contracts(run, eng, [c], text_overrides={c.target: overrides[c.target]},
                                            witness={c.qualname + f"[{c.label}]": (lambda c=c: native_setter_witness(overrides[c.target], c.meta)), c.qualname: (lambda c=c: native_setter_witness(overrides[c.target], c.meta))})
                # embedded model
                blob = None
                for n in cls.body:
                    if isinstance(n, ast.AnnAssign) and isinstance(n.target, ast.Name) and n.target.id == "_MODEL_" and isinstance(n.value, ast.Call) and ast.unparse(n.value.func) == "_restore_constant_":
                        try:
                            blob = ast.literal_eval(n.value.args[0])
                        except ValueError:
                            blob = None
                name = f"{tn}#embedded-model-equals-the-source-model"
                if blob is None:
                    run.add_check(name, False, "decode of the _MODEL_ constant", 0, "no _MODEL_ = _restore_constant_('...') constant in the class")
                    run.fail(report.Failure(name, "post", f"{path.name}: class {'.'.join(cpath)} carries no decodable _MODEL_ constant", {}, True))
                    continue
                try:
                    model = pickle.loads(gzip.decompress(base64.b85decode(blob)))
                    same = model == t and str(model) == str(t) and [str(a) for a in model.attributes] == [str(a) for a in t.attributes] and model.extent == t.extent \
                        and model.fixed_port_id == t.fixed_port_id and model.deprecated == t.deprecated
                    detail = f"decoded {model}"
                except Exception as ex:  # a blob that does not decode is a failed obligation, not a crash
                    same, detail = False, f"{type(ex).__name__}: {ex}"
                n_model += 1
                run.add_check(name, same, "closed evaluation (base85/gzip/pickle decode of the generated constant)", 0, detail[:160])
                if not same:
                    run.fail(report.Failure(name, "post", f"{path.name}: _MODEL_ of {'.'.join(cpath)} is not the pydsdl model of {tn}: {detail[:200]}", {"detail": detail}, True))
    finally:
        shutil.rmtree(work, ignore_errors=True)
    py_native(run, args)
    # template-level obligation (E-FX on the Jinja AST): every ValueError exit of the data-object template is emitted for every
    # type of its case, not only for the corpus types (a branch on a type parameter cannot be enumerated by a corpus)
    from props import perprogram as PP
    PP.template_error_guards(run, ("base.j2",), "py")
    run.notes["setters_under_contract"] = n_set
    run.notes["models_compared"] = n_model
    run.notes["setters_not_under_contract_by_field_type"] = skipped
    if n_set == 0 or n_model == 0:
        run.undecide("no setter / model obligation generated (vacuity guard)")
    run.trust("E-PY semantics (vk/epy.py)", "z3 / cvc5", "pydsdl model as the DSDL definition", "pickle/gzip/base64 of the running CPython")
    run.assume("per program: the corpus types (corpus/vk, vkm, kw), each setter for all argument values",
               "int(x) of an int is x (np integer scalars and other argument types are not modelled)",
               "N/A clauses: float and array setters, the union constructor's argument-count rule, to_builtin/update_from_builtin round trips (NumPy semantics; NumPy is not installed, the code cannot be executed here)")
    run.explanation = "generated integer/boolean property setters of every corpus class verified against range contracts derived from the pydsdl model (E-PY on the generated text); embedded _MODEL_ blobs decoded and compared with the source model"
    return run.finish()


if __name__ == "__main__":
    report.main_wrapper(main)

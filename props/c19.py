"""C19: the bundled template engine is a conservative extension of stock Jinja2.

Within a contract's reach (decided for all inputs):
  * lexer: every alternative of the bundled root-rule regex that mentions the auto-indent marker ('*' after a start
    delimiter) matches only text that contains the marker -- regular-language obligation on the real compiled pattern of a
    real bundled Lexer (vk/pyre + SMT).  An alternative that cannot match cannot change how a backtracking matcher treats
    marker-free input, so on marker-free templates the root rule is the rule without these alternatives.
  * parser: in Parser.subparse every use of autoindent() is dominated by `token.value and token.value.endswith('*')`
    (guard dominance on the real AST), i.e. ordinary begin tokens never get the lineprefix wrapper.
Everything else in the statement is a claim about two whole engines ("renders exactly as upstream does"); no contract in
this framework expresses it.  It is covered by a BOUNDED differential stand-in (never counted as proved): an enumerated
grammar of marker-free templates rendered by the bundled engine and by the stock Jinja2 installed in the environment;
marker placements x line endings compared with the statement's reading ("the plain construct with every non-empty line
prefixed"); do_lineprefix against an independent specification on all short strings; assert / ifuses against plain ifs.
"""
import ast
import itertools
import zlib
import re
import typing

from vk import efx, pyre, report, smt
from props.common import SRC, parse_args

PROP = "C19"


def bundled():
    import sys
    if str(SRC) not in sys.path:
        sys.path.insert(0, str(SRC))
    import nunavut.jinja.jinja2 as J
    return J


# ---------------------------------------------------------------------------------------------------------------------
def lexer_obligations(run) -> typing.List[smt.Obligation]:
    J = bundled()
    from nunavut.jinja.jinja2.lexer import get_lexer
    obs = []
    for label, kw in (("default", {}), ("trim+lstrip", {"trim_blocks": True, "lstrip_blocks": True})):
        env = J.Environment(**kw)
        lx = get_lexer(env)
        rx = lx.rules["root"][0][0]
        pat = rx.pattern
        run.add_function(f"nunavut/jinja/jinja2/lexer.py:Lexer.__init__ root rule [{label}]")
        # the real alternatives of every (?P<..._begin>...) group, split at top level; those that mention '*' after a start
        # delimiter are the auto-indent alternatives -- each is translated from ITS OWN text
        MARK = r"\\\{(?:\\?%|\\\{|\\?#)\\\*"

        def group_end(text, i):
            """index of the ')' closing the group whose content starts at i"""
            depth, j, in_cls = 1, i, False
            while j < len(text):
                ch = text[j]
                if ch == "\\":
                    j += 2
                    continue
                if in_cls:
                    in_cls = ch != "]"
                elif ch == "[":
                    in_cls = True
                elif ch == "(":
                    depth += 1
                elif ch == ")":
                    depth -= 1
                    if depth == 0:
                        return j
                j += 1
            return len(text)

        def split_top(text):
            parts, cur, depth, j, in_cls = [], "", 0, 0, False
            while j < len(text):
                ch = text[j]
                if ch == "\\":
                    cur += text[j:j + 2]
                    j += 2
                    continue
                if in_cls:
                    in_cls = ch != "]"
                elif ch == "[":
                    in_cls = True
                elif ch == "(":
                    depth += 1
                elif ch == ")":
                    depth -= 1
                elif ch == "|" and depth == 0:
                    parts.append(cur)
                    cur = ""
                    j += 1
                    continue
                cur += ch
                j += 1
            return parts + [cur]

        def marker_leaves(text):
            """innermost alternatives that mention the marker"""
            out = []
            for alt in split_top(text):
                if not re.search(MARK, alt):
                    continue
                inner = [(m.end(), group_end(alt, m.end())) for m in re.finditer(r"\((?:\?:|\?P<\w+>)?", alt)]
                nested = [alt[i:j] for i, j in inner if re.search(MARK, alt[i:j]) and len(split_top(alt[i:j])) > 1]
                if nested:
                    for g in nested[:1]:
                        out += marker_leaves(g)
                else:
                    out.append(alt)
            return out

        alts = []
        for m in re.finditer(r"\(\?P<(\w+_begin)>", pat):
            content = pat[m.end():group_end(pat, m.end())]
            alts += [(m.group(1), a) for a in marker_leaves(content)]
        if not alts:
            run.undecide(f"lexer[{label}]: no auto-indent alternative found in the root rule {pat[:120]!r} (binding failure)")
            continue
        for gname, a in alts:
            dm = re.search(r"\\\{(\\?%|\\\{|\\?#)", a)
            delim = dm.group(0).replace("\\", "")
            try:
                lang = pyre.to_reglan(a, rx.flags & ~re.MULTILINE & ~re.DOTALL)
            except pyre.RegexOutOfSubset as ex:
                run.undecide(f"lexer[{label}]: alternative {a!r} of {gname} is outside the regex subset: {ex}")
                continue
            marker = smt.str_lit(delim + "*")
            obs.append(smt.Obligation(name=f"lexer[{label}]:{gname}#the-auto-indent-alternative-matches-only-text-containing-{delim}*", kind="lemma", decls=["(declare-const s String)"],
                                      assumptions=[f"(str.in_re s {lang})"], goal=f"(str.contains s {marker})", function="Lexer root rule", theory="string",
                                      meta={"alternative": a}, model_vars=["s"]))
    return obs


def parser_guard(run):
    path = SRC / "nunavut/jinja/jinja2/parser.py"
    tree = ast.parse(path.read_text())
    fn = next((n for n in ast.walk(tree) if isinstance(n, ast.FunctionDef) and n.name == "subparse"), None)
    name = "Parser.subparse#autoindent-only-for-begin-tokens-ending-with-the-marker"
    if fn is None:
        run.undecide("binding failure: Parser.subparse")
        return
    run.add_function("nunavut/jinja/jinja2/parser.py:Parser.subparse")
    bad, n = [], 0
    for node, guards in efx.walk_with_guards(fn):
        if isinstance(node, ast.Call) and ast.unparse(node.func) == "autoindent":
            n += 1
            g = [t for t, v in guards if v]
            if not any("token.value and token.value.endswith('*')" in x for x in g):
                bad.append((node.lineno, g))
    ok = n > 0 and not bad
    run.add_check(name, ok, "E-FX guard dominance", 0, f"{n} autoindent() calls; unguarded: {bad}")
    if not ok:
        run.fail(report.Failure(name, "frame", f"parser.py: autoindent() is applied without the marker test at {bad} (or is no longer called: {n} calls)", {}, False))


# ---------------------------------------------------------------------------------------------------------------------
def spec_lineprefix(s: str, prefix: str) -> str:
    """independent reading of the statement: every non-empty line gets the prefix; lines are joined with '\\n'"""
    lines = s.splitlines()
    return "\n".join((prefix + l) if l else l for l in lines)


PIECES = ["x", "{{ a }}", "{{ a|upper }}", "{% if b %}T{% else %}F{% endif %}", "{% for i in l %}[{{ i }}]{% endfor %}", "{% set z = a ~ '!' %}{{ z }}", "\n",
          "  {%- if b %} T {%- endif %}  ", "{# c #}", "{% raw %}{{ r }}{% endraw %}", "{% filter upper %}f{{ a }}{% endfilter %}",
          "{% macro m(q) %}<{{ q }}>{% endmacro %}{{ m(a) }}", "{{ l|join(',') }}", "{{ a if b else 'n' }}", "{% for i in l if i > 1 %}{{ loop.index }}{% else %}E{% endfor %}", "{{ '{{' }}", " * ", "{ %",
          "{% if b -%}\n  A\n{%- endif %}", "{{ a }}\n{{ a }}\r\n", "{% raw -%}   r {{ q }}  {%- endraw %}", "  {%- raw %} s {% endraw -%}  ", "{# c -#}   ",
          # whitespace control across line breaks (raw, comment, block, variable tags)
          "a {% raw -%}\n  x {{ y }} {% endraw %} b", "a {% raw %} x {%- endraw -%}\n\t b", "{# c -#}\n  t", "{{ a -}}\n  u", "v  \n{{- a }}", "{% if b -%}\n\n  w{% endif %}",
          # expression grammar: associativity and precedence of the ordinary constructs
          "{{ 1 if b else 2 if not b else 3 }}", "{{ 'p' if not b else 'q' if b else 'r' }}", "{{ 2 + 3 * 4 - 10 // 3 }}", "{{ 2 ** 3 ** 2 }}", "{{ -2 ** 2 }}", "{{ 7 - 2 - 1 }}", "{{ 1 < 2 < 3 }}",
          "{{ not b and b or b }}", "{{ a ~ 1 + 2 ~ a }}", "{{ l[1:] | length + 1 }}", "{{ (l | first) if l else 'none' }}", "{{ a is string and a is not none }}", "{{ 2 in l or 5 not in l }}",
          "{{ {'k': a}['k'] ~ [a, 1][1] }}", "{{ a | replace('v', 'V') | upper | default('d') }}", "{{ l | map('string') | join('-') }}", "{% set q %}[{{ a }}]{% endset %}{{ q }}",
          "{% with t = a ~ a %}{{ t }}{% endwith %}", "{% for k, v in {'x': 1}.items() %}{{ k }}={{ v }}{% endfor %}", "{% if b %}1{% elif a %}2{% else %}3{% endif %}",
          "{% for i in l %}{% if loop.first %}F{% endif %}{{ loop.revindex }}{% if not loop.last %},{% endif %}{% endfor %}", "{{ '%s-%s' | format(a, 1) }}", "{{ a[0] ~ a[-1] }}"]
CONTEXTS = [{"a": "v", "b": True, "l": [1, 2, 3]}, {"a": "<w>\n2", "b": False, "l": []}]


def differential(run, args):
    J = bundled()
    import jinja2 as S
    n = 0
    first = None
    kwsets = [{}, {"trim_blocks": True, "lstrip_blocks": True}, {"keep_trailing_newline": True}]
    depth = 2 if args.tier != "thorough" else 3
    for kw in kwsets:
        be, se = J.Environment(**kw), S.Environment(**kw)
        for k in range(1, depth + 1):
            for combo in itertools.product(PIECES, repeat=k):
                if k == 2 and len(PIECES) > 30 and args.tier != 'thorough' and (zlib.crc32(''.join(combo).encode()) % 3):  # every-change tier: a deterministic third of the pairs
                    continue
                if k == 3 and (zlib.crc32(''.join(combo).encode()) % 23):  # thorough: a deterministic 23rd of the triples
                    continue
                t = "".join(combo)
                if re.search(r"(\{%|\{\{|\{#)\*", t):
                    continue
                for ctx in CONTEXTS:
                    n += 1
                    try:
                        rb = ("ok", be.from_string(t).render(**ctx))
                    except Exception as ex:
                        rb = ("err", type(ex).__name__)
                    try:
                        rs = ("ok", se.from_string(t).render(**ctx))
                    except Exception as ex:
                        rs = ("err", type(ex).__name__)
                    if rb[0] != rs[0] or (rb[0] == "ok" and rb[1] != rs[1]):
                        if first is None:
                            first = {"input": {"template": t, "context": ctx, "environment": kw}, "why": f"bundled {rb!r} vs stock {S.__version__} {rs!r}", "evaluations": n}
    return first, n


def marker_semantics(run, args):
    """{{* e }} / {%* block %}: the plain construct, every non-empty line prefixed by the whitespace before the marker"""
    J = bundled()
    env = J.Environment()
    cases = []
    for nl in ("\n", "\r\n"):
        for val in ("one", f"one{nl}two", f"one{nl}{nl}two{nl}", f"{nl}lead"):
            for pre in ("", "  ", "\t", "    "):
                cases.append((f"X{nl}{pre}{{{{* v }}}}{nl}Y", f"X{nl}{{{{ vp }}}}{nl}Y", pre, val))
                cases.append((f"X{nl}{pre}{{%* if True %}}{{{{ v }}}}{{% endif %}}{nl}Y", f"X{nl}{{% if True %}}{{{{ vp }}}}{{% endif %}}{nl}Y", pre, val))
                # every placement: the marker after text or after another tag on the same line (the whitespace that precedes
                # it is still the prefix), and at the very start of the template
                cases.append((f"key:{pre}{{{{* v }}}}{nl}Y", f"key:{{{{ vp }}}}{nl}Y", pre, val))
                cases.append((f"{{{{ 'k' }}}}{pre}{{{{* v }}}}", f"{{{{ 'k' }}}}{{{{ vp }}}}", pre, val))
                cases.append((f"X{nl}a{pre}{{%* if True %}}{{{{ v }}}}{{% endif %}}", f"X{nl}a{{% if True %}}{{{{ vp }}}}{{% endif %}}", pre, val))
                cases.append((f"{pre}{{{{* v }}}}", f"{{{{ vp }}}}", pre, val))
    n = 0
    first = None
    for t, plain, pre, val in cases:
        n += 1

        def render(tt, **ctx):
            try:
                return env.from_string(tt).render(**ctx)
            except Exception as ex:
                return f"<{type(ex).__name__}: {ex}>"

        got = render(t, v=val)
        # the same engine on the plain construct, fed the value with every non-empty line already prefixed
        want = render(plain, vp=spec_lineprefix(val, pre))
        if got != want and first is None:
            first = {"input": {"template": t, "v": val}, "why": f"renders {got!r}; the plain construct with every non-empty line prefixed by {pre!r} renders {want!r}", "evaluations": n}
    return first, n


def lineprefix_exhaustive(run, args):
    from nunavut.jinja.jinja2.filters import do_lineprefix
    alpha = ["a", " ", "\n", "\r"]
    n = 0
    for k in range(0, 6 if args.tier != "thorough" else 8):
        for tup in itertools.product(alpha, repeat=k):
            s = "".join(tup)
            for pre in ("", "  ", "\t"):
                n += 1
                if do_lineprefix(s, pre) != spec_lineprefix(s, pre):
                    return {"input": {"s": s, "prefix": pre}, "why": f"do_lineprefix -> {do_lineprefix(s, pre)!r}, specification -> {spec_lineprefix(s, pre)!r}", "evaluations": n}, n
    return None, n


def tags_as_conditionals(run, args):
    """`{% assert e %}` renders nothing when e is true and fails when it is false; `{% ifuses "q" %}A{% else %}B{% endifuses %}`
    selects like an if over the query's truth"""
    from nunavut.jinja.jinja2 import DictLoader
    from nunavut.jinja import CodeGenEnvironmentBuilder
    from nunavut.jinja.extensions import JinjaAssert, UseQuery
    from nunavut.lang import LanguageContextBuilder
    n = 0
    for expr, truth in (("True", True), ("1 == 1", True), ("x", True), ("False", False), ("1 == 2", False), ("y", False), ("not x", False), ("''", False), ("[]", False), ("0", False), ("none", False)):
        n += 1
        t = f"A{{% assert {expr} %}}B"
        e = CodeGenEnvironmentBuilder(DictLoader({"t": t}), LanguageContextBuilder().create()).set_extensions(JinjaAssert).create()
        try:
            out = ("ok", e.get_template("t").render(x=1, y=0))
        except Exception as ex:
            out = ("err", type(ex).__name__)
        want = ("ok", "AB") if truth else ("err", "TemplateAssertionError")
        if out != want:
            return {"input": {"template": t}, "why": f"{out!r}, an ordinary conditional over the argument gives {want!r}", "evaluations": n}, n
    # chains: every shape if[n]uses / elif[n]uses* / else over two queries with known truth values (std_variant is true for
    # c++17 and false for c++14) against the selection an ordinary if / elif / else chain makes
    import itertools as _it
    for std, truth in (("c++17", True), ("c++14", False)):
        lctx = LanguageContextBuilder(include_experimental_languages=True).set_target_language("cpp").set_target_language_configuration_override("options", {"std": std}).create()
        for first in ("ifuses", "ifnuses"):
            for k in range(0, 3):
                for mids in _it.product(("elifuses", "elifnuses"), repeat=k):
                    for has_else in (True, False):
                        n += 1
                        end = "end" + first
                        t = f'{{% {first} "std_variant" %}}0' + "".join(f'{{% {m} "std_variant" %}}{i + 1}' for i, m in enumerate(mids)) + ("{% else %}E" if has_else else "") + f"{{% {end} %}}"
                        conds = [truth if first == "ifuses" else not truth] + [truth if m == "elifuses" else not truth for m in mids]
                        want = next((str(i) for i, c in enumerate(conds) if c), "E" if has_else else "")
                        e = CodeGenEnvironmentBuilder(DictLoader({"t": t}), lctx).set_extensions(UseQuery).create()
                        try:
                            out = e.get_template("t").render()
                        except Exception as ex:
                            out = f"<{type(ex).__name__}>"
                        if out != want:
                            return {"input": {"template": t, "std": std}, "why": f"renders {out!r}; an ordinary if/elif/else over the queries' truth ({truth}) selects {want!r}", "evaluations": n}, n
    return None, n


def main():
    args = parse_args(PROP)
    run = report.Run(PROP, "other", "./check C19", args.tier)
    obs = lexer_obligations(run)
    res = smt.solve_all(obs)
    run.add_results(res)
    for r in res:
        if not r.ok and r.status == "sat":
            run.fail(report.Failure(r.ob.name, "lemma", f"{r.ob.name}: {r.model}", {"model": r.model, "smt2": r.ob.smt2()}, False))
    if not obs:
        run.undecide("no lexer obligation generated (vacuity guard)")
    parser_guard(run)
    import jinja2 as S
    for name, fn, bound in (("native: bundled engine == stock Jinja2 on marker-free templates", differential, f"all sequences of up to 2 (thorough: 3, sampled) of {len(PIECES)} template pieces x {len(CONTEXTS)} contexts x 3 environment settings, stock version {S.__version__}"),
                            ("native: auto-indent marker renders the plain construct with prefixed lines", marker_semantics, "4 values x 4 prefixes x {expression, block} x {LF, CRLF}"),
                            ("native: do_lineprefix == specification", lineprefix_exhaustive, "all strings up to length 5 (thorough: 7) over {a, space, LF, CR} x 3 prefixes"),
                            ("native: assert / ifuses behave as conditionals", tags_as_conditionals, "7 assert arguments (incl. falsy non-bool values), every if[n]uses/elif[n]uses/else chain of up to 3 links x 2 truth values")):
        w, n = fn(run, args)
        run.add_bounded(name, bound, n, w is None, "" if w is None else f"{w['input']}: {w['why']}")
        if w is not None:
            key = re.sub(r"[^a-z]+", "-", name.split(":")[1].strip().lower())[:60]
            run.fail(report.Failure(f"native#{key}", "post", f"real code: {w['input']}: {w['why']}", {"witness": w}, True))
    run.trust("the stock Jinja2 installed in /venv as reference engine", "z3 / cvc5 string theory", "CPython regex parser (vk/pyre)")
    run.assume("'renders every template exactly as upstream' is not a per-function contract: bounded differential stand-in only", "the template language common to both engines is represented by the piece grammar in props/c19.py")
    run.explanation = "two contract-style obligations on the real lexer rule and parser (marker alternatives cannot match marker-free text; autoindent only behind the marker test) + bounded differential execution against stock Jinja2"
    return run.finish()


if __name__ == "__main__":
    report.main_wrapper(main)

"""C20: generated HTML -- DSDL free text can never introduce markup (E-FX taint obligation over the HTML templates);
link target == anchor id (E-PY lemma over the two real filters)."""
import ast
import pathlib
import re
import shutil
import tempfile

from vk import driver, efx, epy, report, smt
from props.common import SRC, parse_args

PROP = "C20"
SANITIZERS = {"e", "escape", "forceescape", "make_unique", "urlencode", "length", "count", "int", "float", "tag_id", "url_from_type"}
FREE_TEXT = [(r"\.doc$", "documentation comment"), (r"\|namespace_doc$", "documentation comment of the namespace"),
             (r"\.text$|\.comment$", "free text")]


def autoescape_for(template_name: str) -> bool:
    """evaluate the REAL select_autoescape configuration found in CodeGenEnvironment.__init__ on a template name"""
    src = (SRC / "nunavut/jinja/environment.py").read_text()
    call = None
    for n in ast.walk(ast.parse(src)):
        if isinstance(n, ast.Call) and ast.unparse(n.func) == "select_autoescape":
            call = n
    if call is None:
        return False
    kwargs = {k.arg: ast.literal_eval(k.value) for k in call.keywords}
    import sys
    sys.path.insert(0, str(SRC))
    from nunavut.jinja.jinja2 import select_autoescape
    return bool(select_autoescape(**kwargs)(template_name))


def native_xss():
    import pydsdl
    from vk import render
    base = pathlib.Path(tempfile.mkdtemp(prefix="vk_c20_"))
    try:
        (base / "xs").mkdir()
        (base / "xs/T.1.0.dsdl").write_text("# <script>alert(1)</script> & \"q\" </pre><b>\nuint8 a  # <img src=x onerror=y>\n@sealed\n")
        out = base / "out"
        render.render_types("html", base / "xs", out, support=False)
        for p in out.rglob("*"):
            if p.is_file():
                t = p.read_text(errors="replace")
                for needle in ("<script>alert(1)</script>", "<img src=x onerror=y>", "</pre><b>"):
                    if needle in t:
                        return {"input": "DSDL comment containing " + needle, "why": f"{p.name} contains the markup verbatim"}
        return None
    finally:
        shutil.rmtree(base, ignore_errors=True)


def main():
    args = parse_args(PROP)
    run = report.Run(PROP, "other", "./check C20", args.tier)
    tdir = SRC / "nunavut/lang/html/templates"
    n_out = 0
    wit = {}
    for path in sorted(tdir.glob("*.j2")):
        rel = path.relative_to(SRC).as_posix()
        try:
            tree = efx.parse_template(SRC, path)
        except Exception as ex:
            run.add_check(f"{rel}#parse", None, "bundled Jinja2 parser", 0, str(ex))
            continue
        auto = autoescape_for(path.name)
        for expr, guards in efx.jinja_outputs(tree):
            n_out += 1
            text = efx.jinja_text(expr)

            def is_source(t, node):
                return any(re.search(p, t) for p, _ in FREE_TEXT)

            unsanitised = set(efx.jinja_tainted(expr, is_source, SANITIZERS))
            for h in efx.jinja_tainted(expr, is_source, set()):
                name = f"{rel}#free-text-escaped:{h[:40]}"
                ok = auto or h not in unsanitised
                run.add_check(name, ok, "E-FX taint (Jinja AST)", 0, f"{rel}:{expr.lineno}: {{{{ {text[:70]} }}}} autoescape={auto}")
                if not ok:
                    if "w" not in wit:
                        wit["w"] = native_xss()
                    w = wit["w"]
                    run.fail(report.Failure(name, "taint", f"{rel}:{expr.lineno}: `{{{{ {text[:70]} }}}}` emits DSDL free text without escaping (template name {path.name!r} is not autoescaped)"
                                            + (f"; real code: {w['input']}: {w['why']}" if w else ""), {"witness": w}, bool(w)))
    run.add_function(f"{len(list(tdir.glob('*.j2')))} HTML templates ({n_out} output expressions)")
    run.notes["autoescape_by_template"] = {p.name: autoescape_for(p.name) for p in sorted(tdir.glob("*.j2"))}
    # link == anchor: the fragment of filter_url_from_type(t) is filter_tag_id(t) for every composite t
    eng = epy.Engine(SRC)
    install_strings(eng)
    INST = epy.SObj("CompositeType", {"full_name": epy.SStr, "root_namespace": epy.SStr, "version": epy.STuple([epy.SInt, epy.SInt])})
    TAG = epy.Contract(target="nunavut/lang/html/__init__.py:filter_tag_id", params={"instance": INST},
                       ensures=[("composite-anchor", "result == instance.full_name.replace('.', '_') + '_' + str(instance.version[0]) + '_' + str(instance.version[1])"),
                                ],
                       bindings={"pydsdl": {"ArrayType": ("class", "ArrayType", {})}}, theory="string")
    URL = epy.Contract(target="nunavut/lang/html/__init__.py:filter_url_from_type", params={"instance": INST},
                       ensures=[("link==anchor", "result == '../' + instance.root_namespace + '/#' + instance.full_name.replace('.', '_') + '_' + str(instance.version[0]) + '_' + str(instance.version[1])")],
                       theory="string")
    driver.verify_contracts(run, eng, [TAG, URL])
    w = native_xss()
    run.add_bounded("native: markup in DSDL comments does not reach the HTML verbatim", "one type with script/img/closing-tag comments", 1, w is None, str(w or ""))
    if w and not run.failures:
        run.fail(report.Failure("native#xss", "taint", f"{w['input']}: {w['why']}", {"witness": w}, True))
    run.trust("E-FX (vk/efx.py), bundled Jinja2 parser", "E-PY + SMT for the link/anchor lemma")
    run.assume("names, versions and numbers coming from pydsdl are identifier/number syntax (cannot contain markup)",
               "the sanitising filters e/escape/make_unique (html.escape) neutralise < > & \" '", "well-formedness of whole pages is not decided (N/A clause)")
    run.explanation = "taint obligation over the template ASTs: every output expression that contains DSDL free text passes an escaping filter or the template is autoescaped (computed from the real select_autoescape configuration)"
    return run.finish()


def install_strings(eng):
    from vk.epy import VStr, VInt, VConst, OutOfSubset
    from vk.smt import app

    def replace(it, s, a, b):
        it.e.used("str.replace(a, b): replaces every occurrence (SMT str.replace_all)")
        return VStr(app("str.replace_all", s.t, a.t, b.t))

    eng.intrinsics["String.replace"] = replace

    def fmt(it, s, *args):
        lit = smt.smt_str(s.t)
        parts = lit.split("{}")
        if len(parts) != len(args) + 1:
            raise OutOfSubset("format string")
        t = [smt.str_lit(parts[0])]
        for p, a in zip(parts[1:], args):
            t.append(a.t if isinstance(a, VStr) else _int_str(a))
            t.append(smt.str_lit(p))
        return VStr(app("str.++", *t))

    def _int_str(a):
        return f"(ite (>= {a.t} 0) (str.from_int {a.t}) (str.++ \"-\" (str.from_int (- {a.t}))))"

    eng.intrinsics["String.format"] = fmt
    eng.intrinsics["str:Int"] = lambda it, v: VStr(_int_str(v))
    eng.isinstance_hooks["CompositeType:ArrayType"] = lambda it, v: epy.FALSE
    eng.used("str(int) / '{}'.format(int): decimal rendering (SMT str.from_int)")


if __name__ == "__main__":
    report.main_wrapper(main)

"""C20: generated HTML -- DSDL free text can never introduce markup (E-FX taint obligation over the HTML templates);
link target == anchor id (E-PY lemma over the two real filters)."""
import ast
import pathlib
import re
import shutil
import tempfile
import typing

from vk import driver, efx, epy, report, smt
from props.common import SRC, parse_args

PROP = "C20"
SANITIZERS = {"e", "escape", "forceescape", "make_unique", "urlencode", "length", "count", "int", "float", "tag_id", "url_from_type"}
FREE_TEXT = [(r"\.doc$", "documentation comment"), (r"\|namespace_doc$", "documentation comment of the namespace"),
             (r"\.text$|\.comment$", "free text")]


# filters that may follow an escaping filter without putting markup back (whitespace / case / cut only)
NEUTRAL_AFTER_ESCAPE = {"trim", "lower", "upper", "capitalize", "title", "indent", "truncate", "wordwrap", "center", "string", "first", "last", "length", "default", "d"}


def autoescape_for(template_name: str) -> bool:
    """evaluate the REAL select_autoescape configuration found in CodeGenEnvironment.__init__ on a template name"""
    src = (SRC / "nunavut/jinja/environment.py").read_text()
    call = None
    for n in ast.walk(ast.parse(src)):
        if isinstance(n, ast.Call) and ast.unparse(n.func) == "select_autoescape":
            call = n
    if call is None:
        return False
    kwargs = {k.arg: ast.literal_eval(k.value) for k in call.keywords}
    import sys
    sys.path.insert(0, str(SRC))
    from nunavut.jinja.jinja2 import select_autoescape
    return bool(select_autoescape(**kwargs)(template_name))


def native_xss():
    import pydsdl
    from vk import render
    base = pathlib.Path(tempfile.mkdtemp(prefix="vk_c20_"))
    try:
        (base / "xs").mkdir()
        (base / "xs/T.1.0.dsdl").write_text("# <script>alert(1)</script> & \"q\" </pre><b>\nuint8 a  # <img src=x onerror=y>\n@sealed\n")
        out = base / "out"
        render.render_types("html", base / "xs", out, support=False)
        for p in out.rglob("*"):
            if p.is_file():
                t = p.read_text(errors="replace")
                for needle in ("<script>alert(1)</script>", "<img src=x onerror=y>", "</pre><b>"):
                    if needle in t:
                        return {"input": "DSDL comment containing " + needle, "why": f"{p.name} contains the markup verbatim"}
        return None
    finally:
        shutil.rmtree(base, ignore_errors=True)


def main():
    args = parse_args(PROP)
    run = report.Run(PROP, "other", "./check C20", args.tier)
    tdir = SRC / "nunavut/lang/html/templates"
    n_out = 0
    wit = {}
    for path in sorted(tdir.glob("*.j2")):
        rel = path.relative_to(SRC).as_posix()
        try:
            tree = efx.parse_template(SRC, path)
        except Exception as ex:
            run.add_check(f"{rel}#parse", None, "bundled Jinja2 parser", 0, str(ex))
            continue
        auto = autoescape_for(path.name)
        for expr, guards in efx.jinja_outputs(tree):
            n_out += 1
            text = efx.jinja_text(expr)

            def is_source(t, node):
                return any(re.search(p, t) for p, _ in FREE_TEXT)

            unsanitised = set(efx.jinja_tainted(expr, is_source, SANITIZERS, neutral_after=NEUTRAL_AFTER_ESCAPE))
            for h in efx.jinja_tainted(expr, is_source, set()):
                name = f"{rel}#free-text-escaped:{h[:40]}"
                ok = auto or h not in unsanitised
                run.add_check(name, ok, "E-FX taint (Jinja AST)", 0, f"{rel}:{expr.lineno}: {{{{ {text[:70]} }}}} autoescape={auto}")
                if not ok:
                    if "w" not in wit:
                        wit["w"] = native_xss()
                    w = wit["w"]
                    run.fail(report.Failure(name, "taint", f"{rel}:{expr.lineno}: `{{{{ {text[:70]} }}}}` emits DSDL free text without escaping (template name {path.name!r} is not autoescaped)"
                                            + (f"; real code: {w['input']}: {w['why']}" if w else ""), {"witness": w}, bool(w)))
    run.add_function(f"{len(list(tdir.glob('*.j2')))} HTML templates ({n_out} output expressions)")
    run.notes["autoescape_by_template"] = {p.name: autoescape_for(p.name) for p in sorted(tdir.glob("*.j2"))}
    # link == anchor: the fragment of filter_url_from_type(t) is filter_tag_id(t) for every composite t
    eng = epy.Engine(SRC)
    install_strings(eng)
    INST = epy.SObj("CompositeType", {"full_name": epy.SStr, "full_namespace": epy.SStr, "has_parent_service": epy.SBool, "root_namespace": epy.SStr, "version": epy.STuple([epy.SInt, epy.SInt])})

    def b_getattr(it, o, name, default=None):
        nm = smt.smt_str(name.t)
        if isinstance(o, epy.VObj) and nm in it.ctx.heap[o.ref]:
            return it.ctx.get_field(o, nm)
        if default is None:
            raise epy.PyRaise("AttributeError")
        return default

    eng.intrinsics["getattr"] = b_getattr
    TAG = epy.Contract(target="nunavut/lang/html/__init__.py:filter_tag_id", params={"instance": INST},
                       ensures=[("composite-anchor", "result == instance.full_name.replace('.', '_') + '_' + str(instance.version[0]) + '_' + str(instance.version[1])"),
                                ],
                       bindings={"pydsdl": {"ArrayType": ("class", "ArrayType", {})}}, theory="string")
    URL = epy.Contract(target="nunavut/lang/html/__init__.py:filter_url_from_type", params={"instance": INST},
                       # the anchor a link must hit: the type's own tag id; for a service request/response type (named
                       # <service>.Request / .Response by pydsdl, full_namespace == the service's full name) the service's tag id
                       ensures=[("link==anchor", "result == '../' + instance.root_namespace + '/#' + ite(instance.has_parent_service, instance.full_namespace, instance.full_name).replace('.', '_') "
                                 "+ '_' + str(instance.version[0]) + '_' + str(instance.version[1])")],
                       theory="string")
    driver.verify_contracts(run, eng, [TAG, URL])
    structure_obligations(run, tdir)
    native_links(run)
    w = native_xss()
    run.add_bounded("native: markup in DSDL comments does not reach the HTML verbatim", "one type with script/img/closing-tag comments", 1, w is None, str(w or ""))
    if w and not run.failures:
        run.fail(report.Failure("native#xss", "taint", f"{w['input']}: {w['why']}", {"witness": w}, True))
    run.trust("E-FX (vk/efx.py), bundled Jinja2 parser", "E-PY + SMT for the link/anchor lemma")
    run.assume("names, versions and numbers coming from pydsdl are identifier/number syntax (cannot contain markup)",
               "the sanitising filters e/escape/make_unique (html.escape) neutralise < > & \" '", "well-formedness of whole pages is not decided (N/A clause)")
    run.explanation = "taint obligation over the template ASTs: every output expression that contains DSDL free text passes an escaping filter or the template is autoescaped (computed from the real select_autoescape configuration)"
    return run.finish()


VOID = {"meta", "link", "br", "img", "input", "hr", "area", "base", "col", "embed", "source", "track", "wbr", "!doctype"}
TAG = re.compile(r"<(/?)([A-Za-z!][A-Za-z0-9]*)((?:[^<>\"']|\"[^\"]*\"|'[^']*')*?)(/?)>", re.S)


def scan_tags(text: str, stack: list, errs: list, where: str) -> int:
    """strict open-element stack over the tags of `text` (comments removed, void elements ignored)"""
    text = re.sub(r"<!--.*?-->", "", text, flags=re.S)
    n = 0
    for m in TAG.finditer(text):
        close, tag, selfc = m.group(1), m.group(2).lower(), m.group(4)
        if tag in VOID or selfc:
            continue
        n += 1
        if not close:
            stack.append(tag)
        else:
            if not stack or stack[-1] != tag:
                errs.append(f"{where}: </{tag}> closes while {stack[-1] if stack else 'nothing'} is the innermost open element")
            if tag in stack:
                while stack and stack.pop() != tag:
                    pass
    return n


def block_balance(nodes, stack, errs, where, count):
    """every control block of a template leaves the open-element stack as it found it (if: all branches alike), so every
    path through the template emits properly nested markup provided the expression holes are balanced fragments / text"""
    from nunavut.jinja.jinja2 import nodes as N
    for n in nodes:
        if isinstance(n, N.Output):
            buf = "".join(e.data if isinstance(e, N.TemplateData) else "X" for e in n.nodes)
            count[0] += scan_tags(buf, stack, errs, f"{where}:{n.lineno}")
        elif isinstance(n, N.If):
            base = list(stack)
            outs = []
            for br in [n.body] + [el.body for el in (n.elif_ or [])] + [n.else_ or []]:
                st = list(base)
                block_balance(br, st, errs, where, count)
                outs.append(st)
            if any(o != outs[0] for o in outs):
                errs.append(f"{where}:{n.lineno}: the branches of an if leave different open elements {outs}")
            stack[:] = outs[0]
        elif isinstance(n, (N.For, N.Macro, N.CallBlock, N.FilterBlock, N.Block)):
            st: list = []
            block_balance(n.body, st, errs, where, count)
            if st:
                errs.append(f"{where}:{n.lineno}: the body of {type(n).__name__} leaves {st} open")
            if isinstance(n, N.For) and n.else_:
                block_balance(n.else_, [], errs, where, count)
        elif hasattr(n, "body") and not isinstance(n, N.Template):
            block_balance(n.body, stack, errs, where, count)


def structure_obligations(run, tdir):
    # (1) templates are block-balanced
    total = 0
    for path in sorted(tdir.glob("*.j2")):
        rel = path.relative_to(SRC).as_posix()
        tree = efx.parse_template(SRC, path)
        errs: list = []
        st: list = []
        cnt = [0]
        block_balance(tree.body, st, errs, path.name, cnt)
        total += cnt[0]
        if st:
            errs.append(f"{path.name}: elements left open at the end of the template: {st}")
        name = f"{rel}#every-control-block-is-tag-balanced"
        run.add_check(name, not errs, "E-FX tag-stack over the Jinja AST", 0, f"{cnt[0]} tags; {errs[:2]}")
        if errs:
            run.fail(report.Failure(name, "post", "; ".join(errs[:3]), {"errors": errs}, False))
    if total == 0:
        run.undecide("no tag was scanned in any HTML template (vacuity guard)")
    # (2) markup fragments built by the Python filters of the HTML target are properly nested on their own
    mod = ast.parse((SRC / "nunavut/lang/html/__init__.py").read_text())
    nfrag = 0
    for fn in [n for n in ast.walk(mod) if isinstance(n, ast.FunctionDef)]:
        for c in ast.walk(fn):
            if isinstance(c, ast.Constant) and isinstance(c.value, str) and "<" in c.value and ">" in c.value and not (fn.body and isinstance(fn.body[0], ast.Expr) and fn.body[0].value is c):
                errs = []
                st = []
                nfrag += scan_tags(c.value, st, errs, f"{fn.name}:{c.lineno}")
                if st:
                    errs.append(f"{fn.name}:{c.lineno}: fragment leaves {st} open")
                name = f"nunavut/lang/html/__init__.py:{fn.name}#markup-fragment-properly-nested@{c.lineno}"
                run.add_check(name, not errs, "E-FX tag-stack over string constants", 0, c.value[:60])
                if errs:
                    run.fail(report.Failure(name, "post", f"{errs[0]} in {c.value!r}", {"fragment": c.value, "errors": errs}, False))
    run.notes["filter_fragment_tags_scanned"] = nfrag
    # (3) the anchor of a type is produced for every listed type: its only permitted guard excludes the "_" pseudo type,
    #     and the sidebar link is emitted under at least the same guards
    allowed = {("type.short_name != '_'", True)}
    anchors, links = [], []
    for tname in ("namespace_info.j2", "sidebar.j2"):
        tree = efx.parse_template(SRC, tdir / tname)
        for expr, guards in efx.jinja_outputs(tree):
            text = efx.jinja_text(expr)
            if tname == "namespace_info.j2" and re.match(r"generate_type_info\(type, ", text) and text.count(",") == 1:
                anchors.append((text, set(guards)))
        if tname == "sidebar.j2":
            from vk import ej
            items = ej.flat_outputs(tree)
            for e, g, _ in ej.exprs_after(items, r'href="#'):
                if "tag_id" in efx.jinja_text(e):  # links to types (namespace links use the namespace name)
                    links.append((efx.jinja_text(e), set(g)))
    name = "nunavut/lang/html/templates/namespace_info.j2#anchor-emitted-for-every-listed-type"
    ok = bool(anchors) and all(g <= allowed for _, g in anchors)
    run.add_check(name, ok, "E-FX guards (Jinja AST)", 0, str([(t, sorted(g)) for t, g in anchors])[:200])
    if not ok:
        run.fail(report.Failure(name, "post", f"the anchor-producing call generate_type_info(type, ...) is missing or guarded by more than the '_' pseudo-type test: {[(t, sorted(g)) for t, g in anchors]}; "
                                "links to the excluded types dangle", {}, False))
    name = "nunavut/lang/html/templates/sidebar.j2#in-page-link-only-where-the-anchor-exists"
    ag = set().union(*[g for _, g in anchors]) if anchors else set()
    ok = bool(links) and all(ag <= g for _, g in links)
    run.add_check(name, ok, "E-FX guards (Jinja AST)", 0, str([(t, sorted(g)) for t, g in links])[:200])
    if not ok:
        run.fail(report.Failure(name, "post", f"a sidebar link is emitted under weaker guards {[(t, sorted(g)) for t, g in links]} than the anchor {sorted(ag)}", {}, False))


PROBE = {
    "veh/Top.1.0.dsdl": "# top <b>doc</b>\nveh.body.Door.1.0 door\nveh.body.lock.Latch.1.2[<=3] latches\nveh.body.lock.pin.Pin.1.0[2] pins\noth.Ext.1.0 ext\ntruncated uint7 t\nsaturated int8 s\nvoid3\nfloat32 K = 1.5\n@sealed\n",
    "veh/body/Door.1.0.dsdl": "uint8 a\nveh.body.lock.Latch.1.2 l\n@sealed\n",
    "veh/body/lock/Latch.1.2.dsdl": "uint8 a\n@sealed\n",
    "veh/body/lock/pin/Pin.1.0.dsdl": "truncated uint3[<=4] a\n@sealed\n",
    "veh/_Raw.1.0.dsdl": "uint8 a\n@sealed\n",
    "veh/U.1.0.dsdl": "@union\nveh._Raw.1.0 r\nuint8 b\n@sealed\n",
    "veh/body/Svc.1.0.dsdl": "veh._Raw.1.0 r\n@sealed\n---\nveh.body.Door.1.0 d\n@sealed\n",
    "veh/Old.1.0.dsdl": "@deprecated\nuint8 a\n@extent 64\n",
    "oth/Ext.1.0.dsdl": "veh.body.lock.Latch.1.2 back\noth.Request.1.0 plain\noth.dev.sensor.Sample.1.0 deep\n@sealed\n",
    # an ordinary message that merely is NAMED like a service half, and a type below an intermediate namespace that has no
    # types of its own (the shape of uavcan.si.unit.*)
    "oth/Request.1.0.dsdl": "uint8 a\n@sealed\n",
    "oth/dev/sensor/Sample.1.0.dsdl": "uint8 a\n@sealed\n",
}


def native_links(run):
    """bounded stand-in + witness: render a probe corpus, parse every page strictly, resolve every type link"""
    import html.parser
    from vk import render
    base = pathlib.Path(tempfile.mkdtemp(prefix="vk_c20_"))
    try:
        for rel, text in PROBE.items():
            p = base / "in" / rel
            p.parent.mkdir(parents=True, exist_ok=True)
            p.write_text(text)
        out = base / "out"
        render.render_types("html", base / "in/veh", out, {}, lookup=[base / "in/oth"], support=False)
        render.render_types("html", base / "in/oth", out, {}, lookup=[base / "in/veh"], support=False)

        class P(html.parser.HTMLParser):
            def __init__(s):
                super().__init__(convert_charrefs=True)
                s.stack, s.errs, s.ids, s.links = [], [], set(), []

            def handle_starttag(s, tag, attrs):
                d = dict(attrs)
                if "id" in d:
                    s.ids.add(d["id"])
                if tag == "a" and "href" in d:
                    s.links.append(d["href"])
                if tag not in VOID:
                    s.stack.append(tag)

            def handle_endtag(s, tag):
                if tag in VOID:
                    return
                if not s.stack or s.stack[-1] != tag:
                    s.errs.append(f"</{tag}> closes while {s.stack[-1] if s.stack else None} is innermost (line {s.getpos()[0]})")
                if tag in s.stack:
                    while s.stack and s.stack.pop() != tag:
                        pass

        pages = {}
        for p in sorted(out.rglob("*.html")):
            ps = P()
            ps.feed(p.read_text())
            pages[p.resolve()] = ps
        problems: typing.Dict[str, list] = {}
        nlinks = 0
        for p, ps in pages.items():
            relp = p.relative_to(out.resolve()).as_posix()
            if ps.errs or ps.stack:
                problems.setdefault("page-well-formed", []).append(f"{relp}: {ps.errs[:2]} open at end: {ps.stack[:4]}")
            for l in ps.links:
                m = re.match(r"(\.\./[^#]*)?#(.+)", l)
                if not m:
                    continue
                nlinks += 1
                if m.group(1) is None:
                    tgt = ps
                else:
                    d = (p.parent / m.group(1)).resolve()
                    tgt = pages.get(d / "index.html")
                if tgt is not None and m.group(2) in tgt.ids:
                    continue
                if re.search(r"_(Request|Response)_\d+_\d+$", m.group(2)):
                    cls = "service-request-response-anchor"
                elif relp.count("/") > 1 and m.group(1) is not None:
                    cls = "link-from-a-nested-namespace-page"
                else:
                    cls = "link-target-exists"
                problems.setdefault(cls, []).append(f"{relp}: href={l!r}")
        ok = not problems
        run.add_bounded("native: every type link resolves and every page is well-formed", f"probe corpus of {len(PROBE)} definitions (4 namespace levels, two roots, service, union, arrays of composites, leading-underscore name): {len(pages)} pages, {nlinks} links",
                        nlinks, ok or set(problems) <= {"service-request-response-anchor", "link-from-a-nested-namespace-page"}, str({k: v[:2] for k, v in problems.items()})[:600])
        for cls, items in problems.items():
            run.fail(report.Failure(f"native#{cls}", "post", f"html target, probe corpus: {items[0]} ({len(items)} such links/pages)", {"items": items[:40], "probe": PROBE}, True))
        if nlinks == 0:
            run.undecide("native link check found no type link at all (vacuity guard)")
    finally:
        shutil.rmtree(base, ignore_errors=True)


def install_strings(eng):
    from vk.epy import VStr, VInt, VConst, OutOfSubset
    from vk.smt import app

    def replace(it, s, a, b):
        it.e.used("str.replace(a, b): replaces every occurrence (SMT str.replace_all)")
        return VStr(app("str.replace_all", s.t, a.t, b.t))

    eng.intrinsics["String.replace"] = replace

    def fmt(it, s, *args):
        lit = smt.smt_str(s.t)
        parts = lit.split("{}")
        if len(parts) != len(args) + 1:
            raise OutOfSubset("format string")
        t = [smt.str_lit(parts[0])]
        for p, a in zip(parts[1:], args):
            t.append(a.t if isinstance(a, VStr) else _int_str(a))
            t.append(smt.str_lit(p))
        return VStr(app("str.++", *t))

    def _int_str(a):
        return f"(ite (>= {a.t} 0) (str.from_int {a.t}) (str.++ \"-\" (str.from_int (- {a.t}))))"

    eng.intrinsics["String.format"] = fmt
    eng.intrinsics["str:Int"] = lambda it, v: VStr(_int_str(v))
    eng.isinstance_hooks["CompositeType:ArrayType"] = lambda it, v: epy.FALSE
    eng.used("str(int) / '{}'.format(int): decimal rendering (SMT str.from_int)")


if __name__ == "__main__":
    report.main_wrapper(main)

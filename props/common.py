import argparse
import os
import pathlib
import sys

from vk import report

REPO = pathlib.Path(os.environ.get("VK_REPO", "/repo"))
SRC = REPO / "src"


def parse_args(prop: str):
    ap = argparse.ArgumentParser(prog=f"check {prop}")
    ap.add_argument("--tier", choices=["quick", "thorough"], default=os.environ.get("VERIF_TIER", "quick") if os.environ.get("VERIF_TIER") in ("quick", "thorough") else "quick")
    ap.add_argument("--replay", default=None)
    return ap.parse_args()

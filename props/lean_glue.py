"""Glue lemmas checked by Lean 4 (core only): lean/Glue.lean (L2 history induction, L3 ceil facts, L4 factor closure) and
lean/Lines.lean (L1 uniqueness of the line decomposition).  `lean <file>` elaborates every proof; the files end in
`#print axioms <lemma>` commands whose output must not mention sorryAx.  Each named lemma becomes one obligation of the
calling check, discharged by the back end "lean 4"."""
import pathlib
import re
import subprocess
import time

LEAN_DIR = pathlib.Path(__file__).resolve().parent.parent / "lean"
_CACHE = {}


def check_file(name: str):
    """-> (ok, {lemma: axioms text}, seconds, raw output)"""
    if name in _CACHE:
        return _CACHE[name]
    t0 = time.time()
    try:
        p = subprocess.run(["lean", name], cwd=str(LEAN_DIR), capture_output=True, text=True, timeout=600)
        raw = (p.stdout + p.stderr)
        ok = p.returncode == 0 and "error" not in raw.lower() and "sorry" not in raw
    except Exception as ex:  # lean missing / timeout: undecided, never a violation
        raw, ok = f"{type(ex).__name__}: {ex}", None
    ax = {}
    for m in re.finditer(r"'(\w+)' (depends on axioms: \[[^\]]*\]|does not depend on any axioms)", raw):
        ax[m.group(1)] = m.group(2)
    _CACHE[name] = (ok, ax, time.time() - t0, raw)
    return _CACHE[name]


def lemmas(run, file: str, names, why: str):
    """record the named lemmas of lean/<file> as obligations of `run`"""
    ok, ax, secs, raw = check_file(file)
    text = (LEAN_DIR / file).read_text()
    for i, nm in enumerate(names):
        stated = re.search(rf"theorem {nm}\b", text) is not None
        if ok is None:
            run.undecide(f"lean/{file}:{nm}: lean could not be run ({raw[:200]})")
            continue
        good = bool(ok) and stated and nm in ax and "sorryAx" not in ax[nm]
        run.add_check(f"lean/{file}:{nm}", True if good else None,  # a lemma lean does not accept leaves the check undecided, it says nothing about the code
                      "lean 4 (core, no Mathlib)", round(secs, 2) if i == 0 else 0.0,
                      (f"{why}; {ax.get(nm, 'not printed')}" if good else f"lemma not accepted by lean: {raw[:600]}"))
    run.add_function(f"lean/{file} ({', '.join(names)})")

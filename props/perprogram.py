"""Per-program verification of generated C (C01/C02/C04): corpus rendering, clang front end, SPEC-derived contracts."""
import json
import multiprocessing
import pathlib
import shutil
import subprocess
import tempfile
import time
import typing

import pydsdl

from vk import ec, render, smt, spec
from vk.ec import And, Eq, Implies, Ite, Not, Or, app, bvlit, CContract, StoreMem, PVal, Val
from contracts import c14_c as K14
from props.common import SRC

CORPUS = pathlib.Path(__file__).resolve().parent.parent / "corpus"
TWO64 = str(2 ** 64)


def render_corpus(outdir: pathlib.Path, options: dict):
    render.render_types("c", CORPUS / "vk", outdir, options)
    return pydsdl.read_namespace(str(CORPUS / "vk"), [])


def flatten_types(types):
    out = []
    for t in types:
        if isinstance(t, pydsdl.ServiceType):
            out += [t.request_type, t.response_type]
        else:
            out.append(t)
    return out


def build_engine(outdir: pathlib.Path, types, defines: typing.Sequence[str] = ()) -> typing.Tuple[ec.CEngine, spec.Binder]:
    headers = sorted(p.relative_to(outdir).as_posix() for p in outdir.rglob("*.h") if "nunavut/support" not in p.as_posix())
    tu = "#include <stdint.h>\n#include <stddef.h>\nvoid __vk_assert(int);\n#define NUNAVUT_ASSERT(x) __vk_assert((int)(x))\n" + "".join(f'#include "{h}"\n' for h in headers)
    with tempfile.TemporaryDirectory() as d:
        tup = pathlib.Path(d) / "tu.c"
        tup.write_text(tu)
        p = subprocess.run(["clang", "-std=c11", "-fsyntax-only", "-Wall", "-Wextra", "-Werror", "-Wno-unused-function", *defines, "-I", str(outdir), "-Xclang", "-ast-dump=json", str(tup)],
                           capture_output=True, text=True)
        if p.returncode != 0:
            raise ec.CBindingError("clang rejected the generated headers:\n" + p.stderr[:2000])
        root = json.loads(p.stdout)
    eng = ec.CEngine()
    eng.load_full(root, ("nunavut", "vk_"))
    for c in [K14.choose_min(), K14.saturate(), K14.copy_bits(True), K14.get_bits(), K14.set_bit(), K14.set_uxx(), K14.set_uxx("nunavutSetIxx", True), K14.get_bit(),
              K14.get_u(8), K14.get_u(16), K14.get_u(32), K14.get_u(64), K14.get_i(8), K14.get_i(16), K14.get_i(32), K14.get_i(64),
              K14.float16_pack(), K14.float16_unpack(), K14.set_f("nunavutSetF16", 16), K14.get_f("nunavutGetF16", 16), K14.set_f("nunavutSetF32", 32),
              K14.get_f("nunavutGetF32", 32), K14.set_f("nunavutSetF64", 64), K14.get_f("nunavutGetF64", 64)]:
        eng.contracts[c.name] = c
    eng.global_decls += K14.PACK_DECL
    return eng, spec.Binder(eng.types)


def literal_bytes(mem, value: int, n: int):
    for i in range(n):
        mem = StoreMem(mem, str(i), bvlit((value >> (8 * i)) & 0xFF, 8))
    return mem


def apply_shape(ex: ec.Exec, binder: spec.Binder, t, root: str, shape: spec.Shape):
    """fix array counts / union tags of the object to the literals of `shape` (invalid: any value above the limit)"""
    ex.shape = shape
    for path, kind, limit, node in _all_locations(binder, t, shape):
        ct = ec.CT("int", 64, False, index=True) if kind == "count" else ec.CT("int", 8, False)
        r = ex.subregion(root, path, ct)
        v = shape.get(path, "absent")
        if v == "absent":
            continue
        if v is None:
            val = ex.to_int(ex.load(PVal(ec.CT("ptr", elem=ct), r.name, "0"), ct)).t
            ex.assume(app(">", val, str(limit)) if kind == "count" else app(">=", val, str(limit)))
        else:
            r.mem = literal_bytes(r.mem, v, ct.size)
            ex.entry_mems[r.name] = r.mem


def _all_locations(binder, t, shape):
    """shape locations that are relevant under `shape` (follows the selected union options / array counts)"""
    def locs(tt, path):
        inner = tt.inner_type if isinstance(tt, pydsdl.DelimitedType) else tt
        members = binder.members(tt)
        if isinstance(inner, pydsdl.UnionType):
            p = path + ("_tag_",)
            yield (p, "tag", len(members), tt)
            k = shape.get(p)
            if isinstance(k, int) and k < len(members):
                f, mpath, mct = members[k]
                yield from flocs(f.data_type, path + mpath)
        else:
            for f, mpath, mct in members:
                yield from flocs(f.data_type, path + mpath)

    def flocs(dt, path):
        if isinstance(dt, pydsdl.VariableLengthArrayType):
            p = path + ("count",)
            yield (p, "count", spec.vcap(dt), dt)
            k = shape.get(p)
            if isinstance(k, int) and isinstance(dt.element_type, pydsdl.CompositeType):
                for i in range(min(k, spec.vcap(dt))):
                    yield from locs(dt.element_type, path + ("elements", str(i)))
        elif isinstance(dt, pydsdl.FixedLengthArrayType) and isinstance(dt.element_type, pydsdl.CompositeType):
            for i in range(dt.capacity):
                yield from locs(dt.element_type, path + (str(i),))
        elif isinstance(dt, pydsdl.CompositeType):
            yield from locs(dt, path)

    yield from locs(t, ())


def sub_shape(shape: spec.Shape, prefix: typing.Tuple[str, ...]) -> spec.Shape:
    out = spec.Shape()
    for k, v in shape.items():
        if isinstance(k, tuple) and k[:len(prefix)] == prefix:
            out[k[len(prefix):]] = v
    return out


def bool_leaf_requirements(ws: spec.WireSpec, binder, t, o: spec.Obj, shape=None):
    """C `bool` objects hold 0 or 1 (anything else is a trap representation): stated as a precondition for every bool
    leaf the serializer reads under `shape` (the selected union option, the first `count` elements of an array)"""
    shape = shape if shape is not None else {}
    reqs = []
    inner = t.inner_type if isinstance(t, pydsdl.DelimitedType) else t
    members = binder.members(t)
    if isinstance(inner, pydsdl.UnionType):
        k = shape.get(o.path + ("_tag_",))
        if not isinstance(k, int) or k >= len(members):
            return []  # invalid or unconstrained tag: no option is read
        members = [members[k]]

    def field(dt, fo, mct):
        if isinstance(dt, pydsdl.BooleanType):
            v = ws.load(fo, mct)
            return [Or(Eq(v.t, bvlit(0, v.ct.width)), Eq(v.t, bvlit(1, v.ct.width)))]
        if isinstance(dt, pydsdl.CompositeType):
            return bool_leaf_requirements(ws, binder, dt, fo, shape)
        if isinstance(dt, pydsdl.FixedLengthArrayType) and isinstance(dt.element_type, pydsdl.CompositeType):
            return [r for i in range(dt.capacity) for r in bool_leaf_requirements(ws, binder, dt.element_type, fo.sub(str(i)), shape)]
        if isinstance(dt, pydsdl.VariableLengthArrayType) and isinstance(dt.element_type, pydsdl.CompositeType):
            k = shape.get(fo.path + ("count",))
            if isinstance(k, int):
                return [r for i in range(min(k, spec.vcap(dt))) for r in bool_leaf_requirements(ws, binder, dt.element_type, fo.sub("elements", str(i)), shape)]
        return []

    for f, mpath, mct in members:
        reqs += field(f.data_type, o.sub(*mpath), mct)
    return reqs


def serialize_contract(binder: spec.Binder, t, shape: typing.Optional[spec.Shape] = None, null_param: typing.Optional[str] = None) -> CContract:
    name = spec.c_type_name(t) + "_serialize_"
    # a type's own routines deal with the payload only: the delimiter header of a non-sealed type belongs to the container
    max_bits = max((t.inner_type if isinstance(t, pydsdl.DelimitedType) else t).bit_length_set)

    def setup(ex, args):
        if shape is not None and isinstance(args.get("obj"), PVal) and args["obj"].region is not None:
            apply_shape(ex, binder, t, args["obj"].region, shape)

    def cap_of(cx):
        p = cx.args["inout_buffer_size_bytes"]
        mem = cx.old[p.region]
        if isinstance(mem, ec.IntCellMem):
            return mem.term
        bytes_ = [mem.read(str(i)) for i in range(8)]
        lits = [ec.lit_of(b) if (b.startswith("(_ bv") or b.startswith("#x")) else None for b in bytes_]
        if all(x is not None for x in lits):
            return str(sum(v << (8 * i) for i, v in enumerate(lits)))
        return f"(bv2nat (concat {' '.join(reversed(bytes_))}))"

    def requires(cx):
        if null_param:
            return []
        buf = cx.args["buffer"]
        cap = cap_of(cx)
        ws = spec.WireSpec(cx.ex, binder, cx.old)
        o = spec.Obj(cx.args["obj"].region, cx.args["obj"].path)
        doc = [app(">=", app("*", "8", cap), str(max_bits))] if _STATE.get("override") else []  # the option removes the size check (documented): caller's duty
        return [app("<=", app("+", buf.off, cap), cx.length("buffer")), app("<", app("*", "8", cap), str(2 ** 60))] + doc + bool_leaf_requirements(ws, binder, t, o, cx.ex.shape)

    def ensures(cx):
        if null_param:
            return {"result": ("B", bvlit(-spec.ERR_INVALID_ARGUMENT, 8))}
        ex = cx.ex
        buf, obj, io = cx.args["buffer"], cx.args["obj"], cx.args["inout_buffer_size_bytes"]
        cap = cap_of(cx)
        too_small = app("<", app("*", "8", cap), str(max_bits))
        sh = ex.shape  # keyed by full member paths from the root object; Obj carries the full path too
        ws = spec.WireSpec(ex, binder, cx.old)
        base_bit = ec.lit_of(buf.off)
        if base_bit is None:
            raise ec.COutOfSubset("serialize contract: buffer pointer offset is not literal")
        mem2, nbits, err = ws.enc(t, spec.Obj(obj.region, obj.path), cx.old[buf.region], 8 * base_bit, sh)
        small_known = ex.implied(too_small)
        if small_known:
            return {"result": ("B", bvlit(-spec.ERR_TOO_SMALL, 8))}
        if not ex.implied(Not(too_small)):
            raise ec.COutOfSubset("serialize contract: capacity test undecided on this path")
        if err is not None:
            return {"result": ("B", bvlit(-err, 8)), "skip_frame": (buf.region,)}
        size_mem = ec.IntCellMem(str(nbits // 8))
        return {"result": ("B", bvlit(0, 8)), "mem": {io.region: size_mem, buf.region: mem2} if cx is not getattr(ex, "cx", None) else {io.region: size_mem},
                "mem_bytes": {buf.region: (mem2, base_bit + nbits // 8, True)} if cx is getattr(ex, "cx", None) else {}}

    return CContract(name, requires, ensures, setup=setup, null_params={null_param} if null_param else set(), scalar_ptr_params={"inout_buffer_size_bytes"},
                     variant_label=("null:" + null_param) if null_param else ("shape:" + shape_label(shape) if shape is not None else ""))


def shape_label(shape) -> str:
    if not shape:
        return "-"
    return ",".join(f"{'.'.join(k)}={'X' if v is None else v}" for k, v in shape.items() if isinstance(k, tuple))


def _cap_of(cx):
    p = cx.args["inout_buffer_size_bytes"]
    mem = cx.old[p.region]
    if isinstance(mem, ec.IntCellMem):
        return mem.term
    bytes_ = [mem.read(str(i)) for i in range(8)]
    return f"(bv2nat (concat {' '.join(reversed(bytes_))}))"


def deserialize_contract(binder: spec.Binder, t, null_param: typing.Optional[str] = None, cap_case: typing.Any = None) -> CContract:
    """cap_case: None (any capacity, symbolic) | int k (capacity == k) | ("ge", k) (capacity >= k)"""
    name = spec.c_type_name(t) + "_deserialize_"

    def setup(ex, args):
        ec.LOWER.clear()
        if cap_case is None or null_param:
            return
        p = args["inout_buffer_size_bytes"]
        r = ex.regions[p.region]
        if isinstance(cap_case, int):
            r.mem = ec.IntCellMem(str(cap_case))
            ex.entry_mems[r.name] = r.mem
        else:
            ex.assume(app(">=", r.mem.term, str(cap_case[1])))
            ec.LOWER.clear()
            ec.LOWER[r.mem.term] = cap_case[1]

    def requires(cx):
        if null_param:
            return []
        buf = cx.args["buffer"]
        cap = _cap_of(cx)
        return [app("<=", "0", buf.off), app("<=", app("+", buf.off, cap), cx.length("buffer")), app("<", app("*", "8", cap), str(2 ** 60)),
                app("<", app("*", "8", app("+", buf.off, cap)), str(2 ** 60))]

    def ensures(cx):
        if null_param:
            return {"result": ("B", bvlit(-spec.ERR_INVALID_ARGUMENT, 8))}
        ex = cx.ex
        buf, out, io = cx.args["buffer"], cx.args["out_obj"], cx.args["inout_buffer_size_bytes"]
        cap = _cap_of(cx)
        limit = cap if buf.off == "0" else ex.name_term(app("+", buf.off, cap), "Int", "limit")
        base = 0 if buf.off == "0" else (8 * ec.lit_of(buf.off) if ec.lit_of(buf.off) is not None else ex.name_term(app("*", "8", buf.off), "Int", "basebit"))
        dec = spec.WireDecoder(ex, binder, cx.old[buf.region], K14.zx_read)
        d = dec.decode(t, spec.Obj(out.region, out.path), base, limit)
        mine = cx is getattr(ex, "cx", None)
        if d.error is not None:
            # representation error: the object may be partially written; nothing else may be touched
            skip = tuple(rid for rid, (root, path, ct) in ex.leaf_info.items() if root == out.region)
            return {"result": ("B", bvlit(-d.error, 8)), "skip_frame": skip}
        end = d.end
        cap_bits = ec.simp_int(app("*", "8", cap))
        fits = ec.simp_int(app("<=", str(end), cap_bits))
        if fits == "true" or (fits != "false" and ex.implied(fits)):
            consumed_bits = str(end)
        elif fits == "false" or ex.implied(Not(fits)):
            consumed_bits = cap_bits
        else:
            consumed_bits = imin(str(end), cap_bits)
        consumed = ec.simp_int(app("div", consumed_bits, "8"))
        q8, r8 = ec.divmod8(consumed_bits)
        if r8 is not None:
            consumed = q8
        post = {"result": ("B", bvlit(0, 8)), "extra": [], "mem": {}}
        leaves = []
        for o, ct, idx, (kind, term) in d.values:
            el = ct.elem if ct.kind == "array" else ct
            r = ex.subregion(o.root, o.path, ct)
            leaves.append(r.name)
            if mine:
                got = ex.load(PVal(ec.CT("ptr", elem=el), r.name, str(idx * el.size)), el)
                nm = ".".join(o.path) + (f"[{idx}]" if ct.kind == "array" else "")
                if kind == "bits":
                    g = got.bits if isinstance(got, ec.FVal) else ex.to_bv(got).t
                    if el.is_bool:
                        post["extra"].append((f"value:{nm}", Eq(g, term)))
                    else:
                        post["extra"].append((f"value:{nm}", Eq(g, term)))
                elif kind == "int":
                    post["extra"].append((f"value:{nm}", Eq(ex.to_int(got).t, term)))
                elif kind == "f16":
                    hv = f"((_ to_fp 5 11) {term})"
                    post["extra"].append((f"value:{nm}", And(Implies(Not(f"(fp.isNaN {hv})"), Eq(got.t, f"((_ to_fp 8 24) RNE {hv})")), Implies(f"(fp.isNaN {hv})", f"(fp.isNaN {got.t})"))))
            else:
                # callee: the decoded value becomes the content of the leaf
                if kind == "f16":
                    hv = f"((_ to_fp 5 11) {term})"
                    fb = ex.fresh("(_ BitVec 32)", "f16leaf")
                    ex.assume(And(Implies(Not(f"(fp.isNaN {hv})"), Eq(f"((_ to_fp 8 24) {fb})", f"((_ to_fp 8 24) RNE {hv})")), Implies(f"(fp.isNaN {hv})", f"(fp.isNaN ((_ to_fp 8 24) {fb}))")))
                    bits, w = fb, 32
                elif kind == "int":
                    bits, w = bvlit(int(term), 8 * el.size), 8 * el.size
                else:
                    bits, w = term, 8 * el.size
                mem = post["mem"].get(r.name, r.mem)
                for bi in range(el.size):
                    mem = StoreMem(mem, str(idx * el.size + bi), ex.name_term(f"((_ extract {8 * bi + 7} {8 * bi}) {bits})", "(_ BitVec 8)", "lb"))
                post["mem"][r.name] = mem
        for o, ct, bit_idx, cond in d.bits:
            r = ex.subregion(o.root, o.path, ct)
            leaves.append(r.name)
            if mine:
                byte = r.mem.read(str(bit_idx // 8))
                post["extra"].append((f"value:{'.'.join(o.path)}[bit {bit_idx}]", Eq(f"((_ extract {bit_idx % 8} {bit_idx % 8}) {byte})", Ite(cond, "#b1", "#b0"))))
            else:
                mem = post["mem"].get(r.name, r.mem)
                old = mem.read(str(bit_idx // 8))
                b = bit_idx % 8
                parts = []
                if b < 7:
                    parts.append(f"((_ extract 7 {b + 1}) {old})")
                parts.append(Ite(cond, "#b1", "#b0"))
                if b > 0:
                    parts.append(f"((_ extract {b - 1} 0) {old})")
                nb = parts[0] if len(parts) == 1 else "(concat " + " ".join(parts) + ")"
                post["mem"][r.name] = StoreMem(mem, str(bit_idx // 8), ex.name_term(nb, "(_ BitVec 8)", "pb"))
        if mine:
            got_sz = ex.load(PVal(io.ct, io.region, io.off), ec.CT("int", 64, False, index=True))
            post["extra"].append(("consumed-size", Eq(ex.to_int(got_sz).t, consumed)))
            post["extra"].append(("consumed-never-exceeds-supplied", app("<=", ex.to_int(got_sz).t, cap)))
            # the object's leaves may change (that is the point); unobservable parts (elements beyond count, inactive
            # union members, padding bits of bit-packed arrays) are not constrained; everything else is framed
            post["skip_frame"] = tuple(rid for rid, (root, path, ct) in ex.leaf_info.items() if root == out.region) + (io.region,)
        else:
            post["mem"][io.region] = ec.IntCellMem(ex.name_term(consumed, "Int", "consumed"))
        return post

    lab = ("null:" + null_param) if null_param else ("" if cap_case is None else (f"cap={cap_case}" if isinstance(cap_case, int) else f"cap>={cap_case[1]}"))
    return CContract(name, requires, ensures, setup=setup, null_params={null_param} if null_param else set(), scalar_ptr_params={"inout_buffer_size_bytes"},
                     variant_label=lab)


def has_nested_composite(t) -> bool:
    inner = t.inner_type if isinstance(t, pydsdl.DelimitedType) else t
    for f in inner.fields_except_padding:
        dt = f.data_type
        while isinstance(dt, pydsdl.ArrayType):
            dt = dt.element_type
        if isinstance(dt, pydsdl.CompositeType):
            return True
    return False


def imin(a, b):
    return Ite(app("<=", a, b), a, b)


# ------------------------------------------------------------------------------------------------------------------
# drivers shared by C01 / C02 / C04
# ------------------------------------------------------------------------------------------------------------------
_STATE: typing.Dict[str, typing.Any] = {}


def _task(args):
    kind, tname, variant = args
    eng, binder, by = _STATE["eng"], _STATE["binder"], _STATE["by"]
    t = by[tname]
    eng.session = smt.Z3Session()
    ec.LOWER.clear()
    t0 = time.time()
    try:
        if kind == "ser":
            c = serialize_contract(binder, t, variant[1], variant[0]) if variant[0] else serialize_contract(binder, t, variant[1])
        else:
            c = deserialize_contract(binder, t, variant[0], variant[1])
        saved = eng.contracts.get(c.name)
        eng.contracts[c.name] = c
        try:
            obs, info = eng.verify(c.name)
        finally:
            if saved is not None:
                eng.contracts[c.name] = saved
        label = c.variant_label or "-"
        for o in obs:
            o.name = o.name.replace("#", f"[{label}]#", 1)
            o.meta["type"] = tname
        info["gen_s"] = round(time.time() - t0, 2)
        return (kind, tname, label, obs, info, None)
    except (ec.COutOfSubset, ec.CBindingError) as ex:
        return (kind, tname, str(variant), [], {}, f"{type(ex).__name__}: {ex}")
    finally:
        eng.session.close()


def collect(run, options: dict, label: str, kinds: typing.Tuple[str, ...]):
    """render the corpus under `options`, build the engine, generate obligations for serializers ('ser') and/or
    deserializers ('des') of every corpus type (all shapes / null-argument variants) in parallel"""
    work = pathlib.Path(tempfile.mkdtemp(prefix="vk_pp_"))
    try:
        options = dict(options)
        override = options.pop("__override__", False)
        types = flatten_types(render_corpus(work, options))
        defines = []
        spec.CAP_OVERRIDE.clear()
        if override:
            # user-reduced capacities: every variable-length array field of non-boolean elements gets capacity - 1 (>= 1)
            seen_ids = set()

            def register(ct, top):
                """the same DSDL type may be represented by several pydsdl objects (one per place it is referenced from): the
                override is per (type, field), so every object that stands for that field's array type gets it (keyed by
                id(): without this a composite reached through an array / union option kept the DSDL capacity in the
                specification while the C storage has the reduced one -- a false alarm on vk.UOwn, see DESIGN.md 9.3)"""
                if (id(ct), top) in seen_ids:
                    return
                seen_ids.add((id(ct), top))
                for f in ct.fields_except_padding:
                    dt = f.data_type
                    if isinstance(dt, pydsdl.VariableLengthArrayType) and not isinstance(dt.element_type, pydsdl.BooleanType) and dt.capacity > 1:
                        spec.CAP_OVERRIDE[id(dt)] = dt.capacity - 1
                        if top:
                            defines.append(f"-D{spec.c_type_name(ct)}_{f.name}_ARRAY_CAPACITY_={dt.capacity - 1}U")
                    inner = dt
                    while isinstance(inner, pydsdl.ArrayType):
                        inner = inner.element_type
                    if isinstance(inner, pydsdl.CompositeType):
                        register(inner, False)
            for tt in types:
                register(tt, True)
            run.notes.setdefault("capacity_overrides", {})[label] = defines
        _STATE["override"] = bool(override)
        eng, binder = build_engine(work, types, defines)
    finally:
        _STATE["workdir"] = work
    by = {spec.c_type_name(t): t for t in types}
    for tt in types:
        eng.contracts[spec.c_type_name(tt) + "_serialize_"] = serialize_contract(binder, tt, None)
        eng.contracts[spec.c_type_name(tt) + "_deserialize_"] = deserialize_contract(binder, tt)
    _STATE.update(eng=eng, binder=binder, by=by)
    _WCACHE.clear()
    tasks = []
    for nm, t in sorted(by.items()):
        if "ser" in kinds:
            for sh in spec.enumerate_shapes(binder, t):
                tasks.append(("ser", nm, (None, sh)))
            for p in ("obj", "buffer", "inout_buffer_size_bytes"):
                tasks.append(("ser", nm, (p, None)))
        if "des" in kinds:
            tasks.append(("des", nm, (None, None)))
            for p in ("out_obj", "inout_buffer_size_bytes"):
                tasks.append(("des", nm, (p, None)))
    with multiprocessing.get_context("fork").Pool(14) as pool:
        results = pool.map(_task, tasks, chunksize=1)
    obs = []
    for kind, tname, vlabel, o, info, err in results:
        fn = f"{tname}_{'serialize' if kind == 'ser' else 'deserialize'}_"
        if err:
            run.undecide(f"[{label}] {fn} ({vlabel}): {err}")
            continue
        if info.get("exits", 0) == 0:
            run.undecide(f"[{label}] {fn} ({vlabel}): no path reaches a function exit (vacuity guard)")
        run.add_function(f"[{label}] {fn}")
        pf = run.notes.setdefault("per_function", {}).setdefault(f"[{label}] {fn}", {"variants": 0, "paths": 0, "obligations": 0, "gen_s": 0.0})
        pf["variants"] += 1
        pf["paths"] += info.get("paths", 0)
        pf["obligations"] += len(o)
        pf["gen_s"] = round(pf["gen_s"] + info.get("gen_s", 0), 2)
        for x in o:
            x.name = f"{label}:{x.name}"
        obs.extend(o)
    run.notes.setdefault("programs", {})[label] = sorted(by)
    return obs


def report_failures(run, results, label):
    """failed obligations: try to replay on the real generated code (native harness), else report with the model"""
    from vk import report as R
    seen = set()
    for r in results:
        if r.ok:
            continue
        base = r.ob.name.split("/p")[0]
        if base in seen:
            continue
        seen.add(base)
        if r.status != "sat":
            continue  # unknown: stays undecided (handled by Run.finish)
        wkey = (r.ob.function, r.ob.meta.get("type"))
        if wkey in _WCACHE:
            w = _WCACHE[wkey]
            _emit(run, R, base, r, w)
            continue
        w = None
        try:
            from contracts import pp_ref
            # bounded native search on the real generated C of the same rendering, next to an independent reference codec
            w = None if _STATE.get("override") else pp_ref.witness(r.ob.function, r.ob.meta.get("type"), _STATE.get("workdir"), r.model, _STATE.get("by"))
        except Exception as ex:  # the replay harness must never become a verdict
            w = {"harness_error": f"{type(ex).__name__}: {ex}"}
        _WCACHE[wkey] = w
        _emit(run, R, base, r, w)


_WCACHE: typing.Dict[typing.Any, typing.Any] = {}


def _emit(run, R, base, r, w):
    if w and not w.get("harness_error"):
        run.fail(R.Failure(base, r.ob.kind, f"{r.ob.name} not discharged (sat); real generated code on {str(w['input'])[:300]}: {w['why'][:400]}",
                           {"witness": w, "model": r.model, "smt2": r.ob.smt2()}, True))
    else:
        run.fail(R.Failure(base, r.ob.kind, f"{r.ob.name} not discharged (sat); model {dict(list(r.model.items())[:8])}",
                           {"model": r.model, "replay_harness": w, "smt2": r.ob.smt2()}, False))


# ------------------------------------------------------------------------------------------------------------------
# template-level obligation (all programs): the error returns of the codec templates are emitted for every type their
# case applies to -- their Jinja guards are exactly the type-case guards listed here.  This is what covers template
# branches that depend on a type PARAMETER (e.g. an array capacity threshold) which no finite corpus can enumerate.
# ------------------------------------------------------------------------------------------------------------------
EXPECTED_ERROR_GUARDS = {
    ("serialization.j2", "serialize", "NUNAVUT_ERROR_INVALID_ARGUMENT"): set(),
    ("serialization.j2", "_serialize_impl", "NUNAVUT_ERROR_SERIALIZATION_BUFFER_TOO_SMALL"): set(),
    ("serialization.j2", "_serialize_impl", "NUNAVUT_ERROR_REPRESENTATION_BAD_UNION_TAG"): {("t.inner_type is StructureType", False), ("t.inner_type is UnionType", True)},
    ("serialization.j2", "_serialize_variable_length_array", "NUNAVUT_ERROR_REPRESENTATION_BAD_ARRAY_LENGTH"): set(),
    ("deserialization.j2", "deserialize", "NUNAVUT_ERROR_INVALID_ARGUMENT"): set(),
    ("deserialization.j2", "_deserialize_impl", "NUNAVUT_ERROR_REPRESENTATION_BAD_UNION_TAG"): {("t.inner_type is StructureType", False), ("t.inner_type is UnionType", True)},
    ("deserialization.j2", "_deserialize_variable_length_array", "NUNAVUT_ERROR_REPRESENTATION_BAD_ARRAY_LENGTH"): set(),
    ("deserialization.j2", "_deserialize_composite", "NUNAVUT_ERROR_REPRESENTATION_BAD_DELIMITER_HEADER"): {("t is DelimitedType", True)},
}


# the same obligation for the C++ and Python templates (error exits of the codecs; ValueError exits of the Python setters).
# Key: (language, template, macro, error text); value: the Jinja conditions under which the statement is emitted.
ERROR_EMISSION_RE = {
    "c": r"return -(NUNAVUT_ERROR_\w+)",
    "cpp": r"return -nunavut::support::Error::(\w+)",
    "py": r"raise (_des_\.FormatError|ValueError)\(",
}
EXPECTED_ERROR_GUARDS_BY_LANG: typing.Dict[str, dict] = {
    "cpp": {
        ("serialization.j2", "_serialize_impl", "SerializationBufferTooSmall"): set(),
        ("serialization.j2", "_serialize_impl", "RepresentationBadUnionTag"): {("t.inner_type is UnionType", True), ("t.inner_type is StructureType", False)},
        ("serialization.j2", "_serialize_variable_length_array", "SerializationBadArrayLength"): set(),
        ("deserialization.j2", "_deserialize_impl", "RepresentationBadUnionTag"): {("t.inner_type is UnionType", True), ("t.inner_type is StructureType", False)},
        ("deserialization.j2", "_deserialize_variable_length_array", "SerializationBadArrayLength"): set(),
        ("deserialization.j2", "_deserialize_composite", "RepresentationBadDelimiterHeader"): {("t is DelimitedType", True)},
    },
    "py": {
        # invalid union tag / array length prefix beyond the capacity / delimiter header beyond the remaining data
        ("deserialization.j2", "deserialize", "_des_-FormatError-0"): {("t is UnionType", True), ("t is StructureType", False)},
        ("deserialization.j2", "_deserialize_variable_length_array", "_des_-FormatError-0"): set(),
        ("deserialization.j2", "_deserialize_any", "_des_-FormatError-0"): {("t is VoidType", False), ("t is CompositeType", True), ("t is DelimitedType", True)},
        # data objects (C18): array length, composite type check (structure), second union option, integer range, float range,
        # composite type check (union)
        ("base.j2", "assign_array", "ValueError-0"): set(),
        ("base.j2", "data_schema", "ValueError-0"): {("not type.inner_type is UnionType", True), ("f.data_type is CompositeType", True), ("f.data_type is BooleanType", False)},
        ("base.j2", "data_schema", "ValueError-1"): {("not type.inner_type is UnionType", False)},
        ("base.j2", "data_schema", "ValueError-2"): {("f.data_type is IntegerType", True), ("f.data_type is BooleanType", False)},
        ("base.j2", "data_schema", "ValueError-3"): {("f.data_type is FloatType", True), ("f.data_type.bit_length < 64", True), ("f.data_type is BooleanType", False)},
        ("base.j2", "data_schema", "ValueError-4"): {("f.data_type is CompositeType", True), ("f.data_type is BooleanType", False)},
    },
}


def template_error_guards(run, templates: typing.Tuple[str, ...], lang: str = "c", expected: typing.Optional[dict] = None, dump: typing.Optional[dict] = None):
    import re as _re
    from vk import efx, report as R
    from nunavut.jinja.jinja2 import nodes as N
    global EXPECTED_ERROR_GUARDS
    table = EXPECTED_ERROR_GUARDS if lang == "c" else (expected if expected is not None else EXPECTED_ERROR_GUARDS_BY_LANG[lang])
    seen = set()
    for tname in templates:
        path = SRC / f"nunavut/lang/{lang}/templates" / tname
        tree = efx.parse_template(SRC, path)
        run.add_function(f"nunavut/lang/{lang}/templates/{tname} (error exits)")
        for mac in tree.find_all(N.Macro):
            out: list = []

            def walk(n, guards):
                if isinstance(n, N.If):
                    t = efx.jinja_text(n.test)
                    for b in n.body:
                        walk(b, guards + ((t, True),))
                    neg = guards + ((t, False),)
                    for el in (n.elif_ or []):
                        walk(el, neg)
                    for b in (n.else_ or []):
                        walk(b, neg)
                    return
                if isinstance(n, N.For):
                    for b in n.body:
                        walk(b, guards + (("for " + efx.jinja_text(n.iter) + (" if " + efx.jinja_text(n.test) if n.test is not None else ""), True),) if n.test is not None else guards)
                    return
                if isinstance(n, N.Output):
                    for e in n.nodes:
                        if isinstance(e, N.TemplateData):
                            for m in _re.finditer(ERROR_EMISSION_RE[lang], e.data):
                                lab = _re.sub(r"[^A-Za-z0-9_]+", "-", m.group(m.lastindex).strip())
                                if lang == "py":  # the messages are f-strings with template holes: statements are told apart by their ordinal in the macro
                                    lab = f"{lab}-{sum(1 for x in out if x[0].startswith(lab))}"
                                out.append((lab, guards))
                    return
                for ch in n.iter_child_nodes():
                    walk(ch, guards)

            for b in mac.body:
                walk(b, ())
            for err, g in out:
                key = (tname, mac.name, err)
                if dump is not None:
                    dump.setdefault(key, []).append(set(g))
                    continue
                seen.add(key)
                name = (f"{tname}:{mac.name}#{err}-is-returned-for-every-type-of-its-case" if lang == "c" else f"{lang}/{tname}:{mac.name}#{err}-exit-is-emitted-for-every-type-of-its-case")
                want = table.get(key)
                if isinstance(want, list):  # several statements with the same text in one macro: each must match one entry
                    ok = set(g) in want
                    want = set(g) if ok else want[0]
                else:
                    ok = want is not None and set(g) == want
                run.add_check(name, ok, "E-FX guards (Jinja AST)", 0, f"guards {sorted(g)}")
                if not ok:
                    extra = sorted(set(g) - (want or set()))
                    run.fail(R.Failure(name, "post", f"{lang}/{tname}: the `{err}` error exit in macro {mac.name} is emitted only under {extra or sorted(g)}: types outside that condition lose the check "
                                       "(a template branch on a type parameter; no corpus type need reach it)", {"guards": sorted(g), "expected": sorted(want or [])}, False))
    if dump is not None:
        return
    for key in table:
        if key[0] in templates and key not in seen:
            name = f"{key[0]}:{key[1]}#{key[2]}-is-returned-for-every-type-of-its-case" if lang == "c" else f"{lang}/{key[0]}:{key[1]}#{key[2]}-exit-is-emitted-for-every-type-of-its-case"
            run.add_check(name, False, "E-FX guards (Jinja AST)", 0, "no such return statement in the template")
            run.fail(R.Failure(name, "post", f"{key[0]}: macro {key[1]} no longer returns -{key[2]}", {}, False))

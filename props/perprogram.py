"""Per-program verification of generated C (C01/C02/C04): corpus rendering, clang front end, SPEC-derived contracts."""
import json
import multiprocessing
import pathlib
import shutil
import subprocess
import tempfile
import time
import typing

import pydsdl

from vk import ec, render, smt, spec
from vk.ec import And, Eq, Implies, Ite, Not, Or, app, bvlit, CContract, StoreMem, PVal, Val
from contracts import c14_c as K14
from props.common import SRC

CORPUS = pathlib.Path(__file__).resolve().parent.parent / "corpus"
TWO64 = str(2 ** 64)


def render_corpus(outdir: pathlib.Path, options: dict):
    render.render_types("c", CORPUS / "vk", outdir, options)
    return pydsdl.read_namespace(str(CORPUS / "vk"), [])


def flatten_types(types):
    out = []
    for t in types:
        if isinstance(t, pydsdl.ServiceType):
            out += [t.request_type, t.response_type]
        else:
            out.append(t)
    return out


def build_engine(outdir: pathlib.Path, types) -> typing.Tuple[ec.CEngine, spec.Binder]:
    headers = sorted(p.relative_to(outdir).as_posix() for p in outdir.rglob("*.h") if "nunavut/support" not in p.as_posix())
    tu = "#include <stdint.h>\n#include <stddef.h>\nvoid __vk_assert(int);\n#define NUNAVUT_ASSERT(x) __vk_assert((int)(x))\n" + "".join(f'#include "{h}"\n' for h in headers)
    with tempfile.TemporaryDirectory() as d:
        tup = pathlib.Path(d) / "tu.c"
        tup.write_text(tu)
        p = subprocess.run(["clang", "-std=c11", "-fsyntax-only", "-Wall", "-Wextra", "-Werror", "-Wno-unused-function", "-I", str(outdir), "-Xclang", "-ast-dump=json", str(tup)],
                           capture_output=True, text=True)
        if p.returncode != 0:
            raise ec.CBindingError("clang rejected the generated headers:\n" + p.stderr[:2000])
        root = json.loads(p.stdout)
    eng = ec.CEngine()
    eng.load_full(root, ("nunavut", "vk_"))
    for c in [K14.choose_min(), K14.saturate(), K14.copy_bits(True), K14.get_bits(), K14.set_bit(), K14.set_uxx(), K14.set_uxx("nunavutSetIxx", True), K14.get_bit(),
              K14.get_u(8), K14.get_u(16), K14.get_u(32), K14.get_u(64), K14.get_i(8), K14.get_i(16), K14.get_i(32), K14.get_i(64),
              K14.float16_pack(), K14.float16_unpack(), K14.set_f("nunavutSetF16", 16), K14.get_f("nunavutGetF16", 16), K14.set_f("nunavutSetF32", 32),
              K14.get_f("nunavutGetF32", 32), K14.set_f("nunavutSetF64", 64), K14.get_f("nunavutGetF64", 64)]:
        eng.contracts[c.name] = c
    eng.global_decls += K14.PACK_DECL
    return eng, spec.Binder(eng.types)


def literal_bytes(mem, value: int, n: int):
    for i in range(n):
        mem = StoreMem(mem, str(i), bvlit((value >> (8 * i)) & 0xFF, 8))
    return mem


def apply_shape(ex: ec.Exec, binder: spec.Binder, t, root: str, shape: spec.Shape):
    """fix array counts / union tags of the object to the literals of `shape` (invalid: any value above the limit)"""
    ex.shape = shape
    for path, kind, limit, node in _all_locations(binder, t, shape):
        ct = ec.CT("int", 64, False, index=True) if kind == "count" else ec.CT("int", 8, False)
        r = ex.subregion(root, path, ct)
        v = shape.get(path, "absent")
        if v == "absent":
            continue
        if v is None:
            val = ex.to_int(ex.load(PVal(ec.CT("ptr", elem=ct), r.name, "0"), ct)).t
            ex.assume(app(">", val, str(limit)) if kind == "count" else app(">=", val, str(limit)))
        else:
            r.mem = literal_bytes(r.mem, v, ct.size)
            ex.entry_mems[r.name] = r.mem


def _all_locations(binder, t, shape):
    """shape locations that are relevant under `shape` (follows the selected union options / array counts)"""
    def locs(tt, path):
        inner = tt.inner_type if isinstance(tt, pydsdl.DelimitedType) else tt
        members = binder.members(tt)
        if isinstance(inner, pydsdl.UnionType):
            p = path + ("_tag_",)
            yield (p, "tag", len(members), tt)
            k = shape.get(p)
            if isinstance(k, int) and k < len(members):
                f, mpath, mct = members[k]
                yield from flocs(f.data_type, path + mpath)
        else:
            for f, mpath, mct in members:
                yield from flocs(f.data_type, path + mpath)

    def flocs(dt, path):
        if isinstance(dt, pydsdl.VariableLengthArrayType):
            p = path + ("count",)
            yield (p, "count", dt.capacity, dt)
            k = shape.get(p)
            if isinstance(k, int) and isinstance(dt.element_type, pydsdl.CompositeType):
                for i in range(min(k, dt.capacity)):
                    yield from locs(dt.element_type, path + ("elements", str(i)))
        elif isinstance(dt, pydsdl.FixedLengthArrayType) and isinstance(dt.element_type, pydsdl.CompositeType):
            for i in range(dt.capacity):
                yield from locs(dt.element_type, path + (str(i),))
        elif isinstance(dt, pydsdl.CompositeType):
            yield from locs(dt, path)

    yield from locs(t, ())


def sub_shape(shape: spec.Shape, prefix: typing.Tuple[str, ...]) -> spec.Shape:
    out = spec.Shape()
    for k, v in shape.items():
        if isinstance(k, tuple) and k[:len(prefix)] == prefix:
            out[k[len(prefix):]] = v
    return out


def bool_leaf_requirements(ws: spec.WireSpec, binder, t, o: spec.Obj):
    """C `bool` objects hold 0 or 1 (anything else is a trap representation): stated as a precondition"""
    reqs = []
    inner = t.inner_type if isinstance(t, pydsdl.DelimitedType) else t
    for f, mpath, mct in binder.members(t):
        if isinstance(f.data_type, pydsdl.BooleanType):
            v = ws.load(o.sub(*mpath), mct)
            reqs.append(Or(Eq(v.t, bvlit(0, v.ct.width)), Eq(v.t, bvlit(1, v.ct.width))))
        elif isinstance(f.data_type, pydsdl.CompositeType) and not isinstance(inner, pydsdl.UnionType):
            reqs += bool_leaf_requirements(ws, binder, f.data_type, o.sub(*mpath))
    return reqs


def serialize_contract(binder: spec.Binder, t, shape: typing.Optional[spec.Shape] = None, null_param: typing.Optional[str] = None) -> CContract:
    name = spec.c_type_name(t) + "_serialize_"
    # a type's own routines deal with the payload only: the delimiter header of a non-sealed type belongs to the container
    max_bits = max((t.inner_type if isinstance(t, pydsdl.DelimitedType) else t).bit_length_set)

    def setup(ex, args):
        if shape is not None and isinstance(args.get("obj"), PVal) and args["obj"].region is not None:
            apply_shape(ex, binder, t, args["obj"].region, shape)

    def cap_of(cx):
        p = cx.args["inout_buffer_size_bytes"]
        mem = cx.old[p.region]
        if isinstance(mem, ec.IntCellMem):
            return mem.term
        bytes_ = [mem.read(str(i)) for i in range(8)]
        lits = [ec.lit_of(b) if (b.startswith("(_ bv") or b.startswith("#x")) else None for b in bytes_]
        if all(x is not None for x in lits):
            return str(sum(v << (8 * i) for i, v in enumerate(lits)))
        return f"(bv2nat (concat {' '.join(reversed(bytes_))}))"

    def requires(cx):
        if null_param:
            return []
        buf = cx.args["buffer"]
        cap = cap_of(cx)
        ws = spec.WireSpec(cx.ex, binder, cx.old)
        o = spec.Obj(cx.args["obj"].region, cx.args["obj"].path)
        return [app("<=", app("+", buf.off, cap), cx.length("buffer")), app("<", app("*", "8", cap), str(2 ** 60))] + bool_leaf_requirements(ws, binder, t, o)

    def ensures(cx):
        if null_param:
            return {"result": ("B", bvlit(-spec.ERR_INVALID_ARGUMENT, 8))}
        ex = cx.ex
        buf, obj, io = cx.args["buffer"], cx.args["obj"], cx.args["inout_buffer_size_bytes"]
        cap = cap_of(cx)
        too_small = app("<", app("*", "8", cap), str(max_bits))
        sh = ex.shape  # keyed by full member paths from the root object; Obj carries the full path too
        ws = spec.WireSpec(ex, binder, cx.old)
        base_bit = ec.lit_of(buf.off)
        if base_bit is None:
            raise ec.COutOfSubset("serialize contract: buffer pointer offset is not literal")
        mem2, nbits, err = ws.enc(t, spec.Obj(obj.region, obj.path), cx.old[buf.region], 8 * base_bit, sh)
        small_known = ex.implied(too_small)
        if small_known:
            return {"result": ("B", bvlit(-spec.ERR_TOO_SMALL, 8))}
        if not ex.implied(Not(too_small)):
            raise ec.COutOfSubset("serialize contract: capacity test undecided on this path")
        if err is not None:
            return {"result": ("B", bvlit(-err, 8)), "skip_frame": (buf.region,)}
        size_mem = ec.IntCellMem(str(nbits // 8))
        return {"result": ("B", bvlit(0, 8)), "mem": {io.region: size_mem, buf.region: mem2} if cx is not getattr(ex, "cx", None) else {io.region: size_mem},
                "mem_bytes": {buf.region: (mem2, base_bit + nbits // 8, True)} if cx is getattr(ex, "cx", None) else {}}

    return CContract(name, requires, ensures, setup=setup, null_params={null_param} if null_param else set(), scalar_ptr_params={"inout_buffer_size_bytes"},
                     variant_label=("null:" + null_param) if null_param else ("shape:" + shape_label(shape) if shape is not None else ""))


def shape_label(shape) -> str:
    if not shape:
        return "-"
    return ",".join(f"{'.'.join(k)}={'X' if v is None else v}" for k, v in shape.items() if isinstance(k, tuple))

"""Per-program verification of the generated PYTHON serializers (C01, Python leg) with E-PY.

For every corpus type inside the subset below, the REAL generated `_serialize_` method (rendered from the working tree, parsed
from the module text) is executed symbolically against a contract derived from the pydsdl model (not from the template):

    requires  the data-object invariant of `self` (every scalar integer field within its DSDL range -- what the generated
              setters enforce, proved under C18), a byte-aligned serializer whose storage is zero from the cursor on and has
              room for the type's maximum size plus the spill byte (what nunavut_support.serialize() provides);
    ensures   cursor' == cursor + |Enc_T(self)|,   every byte outside the message untouched,
              LE(buffer', B, nbytes) == Enc_T(self) = sum over the fields of cast(field) * 2^bit_offset(field)
              (void and padding bits zero).

Calls into the support library are replaced by the contracts of contracts/c14_py.py (proved for all bit lengths / cursor
positions under C14), nested composites by their own contract (modular).

Subset (anything else => that type is reported as NOT under contract and stays with the bounded differential stand-in):
fixed-size (sealed or delimited-at-top-level) structures whose fields are integers, booleans, voids, fixed-length arrays of
non-byte-multiple integers or booleans serialized element by element, and nested sealed fixed-size structures of the same
kind.  Floats (struct.pack), bulk NumPy array copies, variable-length arrays, unions and nested delimited types are outside.
"""
import ast
import pathlib
import typing

import pydsdl

from contracts import c14_py as KP
from vk import bytestheory, epy
from vk.bytestheory import ARR, NDARRAY, le_sum, stores
from vk.epy import Contract, Loop, SBool, SData, SInt, SObj, VInt, _int_lit, OutOfSubset

MOD = "<generated {}>"


class NotInSubset(Exception):
    pass


def _fixed(t) -> bool:
    bls = t.bit_length_set
    return len(set(bls)) == 1 if hasattr(bls, "__iter__") else bls.fixed_length


def int_array_spec(n: int, lo: int, hi: int):
    return SObj("NPInts", {"arr": SData(ARR), "n": VInt(str(n)), "lo": VInt(epy._lit_term(lo)), "hi": VInt(epy._lit_term(hi))})


def np_range(dt) -> typing.Tuple[int, int]:
    w = 8 if dt.bit_length <= 8 else 16 if dt.bit_length <= 16 else 32 if dt.bit_length <= 32 else 64
    return (-(1 << (w - 1)), (1 << (w - 1)) - 1) if isinstance(dt, pydsdl.SignedIntegerType) else (0, (1 << w) - 1)


FLOAT_DECLS = ["(declare-sort PyFloat 0)", "(declare-fun isfinite (PyFloat) Bool)", "(declare-fun fgt (PyFloat Real) Bool)", "(declare-fun flt (PyFloat Real) Bool)",
               "(declare-fun fbits16 (PyFloat) Int)", "(declare-fun fbits32 (PyFloat) Int)", "(declare-fun fbits64 (PyFloat) Int)",
               "(declare-fun cbits16 (Real) Int)", "(declare-fun cbits32 (Real) Int)", "(declare-fun cbits64 (Real) Int)"]
FLT_MAX = {16: "65504.0", 32: "340282346638528859811704183484516925440.0"}


def shapes_of(t, cap: int = 300, des: bool = False) -> typing.List[dict]:
    """every combination of variable-length array lengths (0..capacity) and union options of the type: the per-shape
    contracts together cover every object of the type (covering obligation: the shape dimensions are exhaustive by
    construction; the generated length asserts and the union's else branch are part of each shape's proof)"""
    def prod(a, b):
        out = [dict(x, **y) for x in a for y in b]
        if len(out) > cap:
            raise NotInSubset(f"more than {cap} shapes")
        return out

    def of_type(dt, path: str) -> typing.List[dict]:
        if isinstance(dt, pydsdl.PrimitiveType) or isinstance(dt, pydsdl.VoidType):
            return [{}]
        if isinstance(dt, pydsdl.ArrayType):
            lens = [dt.capacity] if isinstance(dt, pydsdl.FixedLengthArrayType) else list(range(dt.capacity + 1))
            out = []
            for ln in lens:
                acc = [{path: ln}] if isinstance(dt, pydsdl.VariableLengthArrayType) else [{}]
                if isinstance(dt.element_type, pydsdl.CompositeType):
                    for k in range(ln):
                        acc = prod(acc, of_type(dt.element_type, f"{path}[{k}]"))
                out += acc
                if len(out) > cap:
                    raise NotInSubset(f"more than {cap} shapes")
            return out
        if isinstance(dt, pydsdl.CompositeType):
            return of_comp(dt, path)
        raise NotInSubset(str(dt))

    def of_comp(ct, path: str, top: bool = False) -> typing.List[dict]:
        inner = ct.inner_type
        if des and isinstance(ct, pydsdl.DelimitedType) and not top:
            # deserializers: the delimiter header is data; every header value from 0 to the nested extent (+2: surplus
            # bytes of a newer revision that are skipped) is its own case, crossed with the shapes the nested object has
            # inside the window the header leaves it
            body = of_comp_body(inner, path)
            return prod([{path + "#dh": k} for k in range(0, ct.extent // 8 + 3)], body)
        return of_comp_body(inner, path)

    def of_comp_body(inner, path: str) -> typing.List[dict]:
        if isinstance(inner, pydsdl.UnionType):
            out = []
            for k, f in enumerate(inner.fields):
                out += prod([{path + "#tag": k}], of_type(f.data_type, f"{path}.{f.name}"))
            return out
        acc = [{}]
        for f in inner.fields_except_padding:
            acc = prod(acc, of_type(f.data_type, f"{path}.{f.name}"))
        return acc

    return of_comp(t, "self", True)


class TypePlan:
    """object spec, data-object invariant and Enc_T as an SMT template over contract expressions, for ONE shape, computed
    from the pydsdl model by a layout walk written from the specification (alignment, padding, length prefixes, tags)"""

    def __init__(self, lang, t, shape: dict, root: str = "self", allow_delimited: bool = True):
        self.lang, self.t, self.shape = lang, t, shape
        self.allow_delimited = allow_delimited
        self.invariant: typing.List[str] = []
        self.args: typing.List[str] = []
        self.terms: typing.List[str] = []
        self.uses_float = False
        self.off = 0
        self.fields = self._comp(t, root, root)
        self.bits = self.off

    def _arg(self, expr: str) -> str:
        if expr not in self.args:
            self.args.append(expr)
        return "{" + str(self.args.index(expr)) + "}"

    def _emit(self, k: int, value: str):
        self.terms.append(f"(* {2 ** self.off} {value})" if self.off else value)
        self.off += k

    def _align(self, a: int):
        self.off += -self.off % a

    def _int_value(self, dt, ref: str) -> str:
        k = dt.bit_length
        lo, hi = int(dt.inclusive_value_range.min), int(dt.inclusive_value_range.max)
        if dt.cast_mode == dt.CastMode.SATURATED:
            ref = f"(ite (< {ref} {epy._lit_term(lo)}) {epy._lit_term(lo)} (ite (> {ref} {hi}) {hi} {ref}))"
        return f"(mod {ref} {2 ** k})"

    def _scalar(self, dt, ref: str):
        """-> sort spec of the attribute; emits the field's bits"""
        if isinstance(dt, pydsdl.BooleanType):
            self._emit(1, f"(ite {self._arg(ref)} 1 0)")
            return SBool
        if isinstance(dt, pydsdl.IntegerType):
            lo, hi = int(dt.inclusive_value_range.min), int(dt.inclusive_value_range.max)
            self.invariant.append(f"{lo} <= {ref} and {ref} <= {hi}")
            self._emit(dt.bit_length, self._int_value(dt, self._arg(ref)))
            return SInt
        if isinstance(dt, pydsdl.FloatType):
            self.uses_float = True
            w = dt.bit_length
            a = self._arg(ref)
            if w < 64:  # what the generated setter admits: non-finite, or within the finite range of the type
                self.invariant.append(f"smt('Bool', '(=> (isfinite {{0}}) (and (not (fgt {{0}} {FLT_MAX[w]})) (not (flt {{0}} (- {FLT_MAX[w]})))))', {ref})")
            self.invariant.append(f"smt('Bool', '(and (<= 0 (fbits{w} {{0}})) (< (fbits{w} {{0}}) {2 ** w}))', {ref})")  # struct.pack yields w bits
            self._emit(w, f"(fbits{w} {a})")
            return SData("PyFloat")
        raise NotInSubset(str(dt))

    def _array(self, dt, ref: str, path: str):
        et = dt.element_type
        fixed = isinstance(dt, pydsdl.FixedLengthArrayType)
        n = dt.capacity if fixed else self.shape[path]
        if not fixed:
            self._emit(dt.length_field_type.bit_length, str(n))
        if isinstance(et, pydsdl.CompositeType):
            items = []
            for k in range(n):
                self._align(et.alignment_requirement)
                items.append(self._comp(et, f"{ref}[{k}]", f"{path}[{k}]"))
            return ("objs", items)
        if isinstance(et, pydsdl.BooleanType):
            lo, hi, w = 0, 1, 1
        elif isinstance(et, pydsdl.FloatType):
            lo, hi, w = 0, 2 ** et.bit_length - 1, et.bit_length  # elements of a NumPy float array: their IEEE patterns, copied bit for bit
        else:
            lo, hi = np_range(et)
            w = 8 if et.bit_length <= 8 else 16 if et.bit_length <= 16 else 32 if et.bit_length <= 32 else 64
        arr = self._arg(ref + ".arr")
        for i in range(n):
            self.invariant.append(f"smt('Bool', '(and (<= {epy._lit_term(lo)} (select {{0}} {i})) (<= (select {{0}} {i}) {hi}))', {ref}.arr)")
            el = f"(select {arr} {i})"
            if isinstance(et, (pydsdl.BooleanType, pydsdl.FloatType)):
                self._emit(et.bit_length, el)
            else:
                self._emit(et.bit_length, self._int_value(et, el))
        return SObj("NPInts", {"arr": SData(ARR), "n": VInt(str(n)), "lo": VInt(epy._lit_term(lo)), "hi": VInt(str(hi)), "w": VInt(str(w))})

    def _comp(self, ct, ref: str, path: str):
        inner = ct.inner_type
        header_at = None
        if isinstance(ct, pydsdl.DelimitedType) and ref != "self":
            if not self.allow_delimited:
                raise NotInSubset("nested delimited type (fork_bytes)")
            header_at = (len(self.terms), self.off)  # the delimiter header: filled in once the nested length is known
            self.terms.append("")
            self.off += 32
        fields: typing.Dict[str, typing.Any] = {}
        cls = self.lang.filter_short_reference_name(ct) if not getattr(ct, "has_parent_service", False) else ct.short_name
        if isinstance(inner, pydsdl.UnionType):
            k = self.shape[path + "#tag"]
            self._emit(inner.tag_field_type.bit_length, str(k))
            for i, f in enumerate(inner.fields):
                a = self.lang.filter_id(f.name, "any")
                if i != k:
                    fields[a] = epy.NONE
                    continue
                self._align(f.data_type.alignment_requirement)
                fields[a] = self._field(f.data_type, f"{ref}.{a}", f"{path}.{f.name}")
        else:
            for f in inner.fields:
                dt = f.data_type
                self._align(dt.alignment_requirement)
                if isinstance(f, pydsdl.PaddingField) or isinstance(dt, pydsdl.VoidType):
                    self.off += dt.bit_length
                    continue
                a = self.lang.filter_id(f.name, "any")
                fields[a] = self._field(dt, f"{ref}.{a}", f"{path}.{f.name}")
        self._align(8)
        if header_at is not None:
            i, hoff = header_at
            nbytes = (self.off - hoff - 32) // 8
            self.terms[i] = f"(* {2 ** hoff} {nbytes})" if hoff else str(nbytes)
        return SObj(cls, fields)

    def _field(self, dt, ref: str, path: str):
        if isinstance(dt, pydsdl.PrimitiveType):
            return self._scalar(dt, ref)
        if isinstance(dt, pydsdl.ArrayType):
            r = self._array(dt, ref, path)
            if isinstance(r, tuple):
                items = r[1]
                return lambda ctx, hint, items=items: epy.VList([ctx.make(x, f"{hint}[{i}]") for i, x in enumerate(items)])
            return r
        if isinstance(dt, pydsdl.CompositeType):
            self._align(dt.alignment_requirement)
            return self._comp(dt, ref, path)
        raise NotInSubset(str(dt))

    @property
    def nbytes(self) -> int:
        return (self.bits + 7) // 8

    def enc(self) -> str:
        return "0" if not self.terms else (self.terms[0] if len(self.terms) == 1 else "(+ " + " ".join(self.terms) + ")")


def shape_label(shape: dict) -> str:
    return "" if not shape else "{" + ",".join(f"{k[5:] if k.startswith('self.') else k}={v}" for k, v in sorted(shape.items())) + "}"


def serializer_spec():
    return SObj("Serializer", {"_buf": NDARRAY, "_bit_offset": KP.cursor(0)})


def serialize_contract(lang, t, module_rel: str, cls_path: str, shape: typing.Optional[dict] = None, plan: typing.Optional[TypePlan] = None) -> Contract:
    p = plan or TypePlan(lang, t, shape or {})
    nb = p.nbytes
    m = nb + 1 if nb else 0
    B = "old(_ser_._bit_offset) // 8"
    # what nunavut_support.serialize() provides: room for the type's MAXIMUM size plus the spill byte, all zero
    m_room = (max(t.inner_type.bit_length_set) + 7) // 8 + 1
    m_room = max(m_room, m)
    pre = list(p.invariant) + ["_ser_._bit_offset >= 0", f"smt('Bool', '(<= (+ {{0}} {m_room}) {{1}})', _ser_._bit_offset // 8, _ser_._buf.n)"]
    for j in range(m_room):
        pre.append(f"smt('Bool', '(= (select {{0}} (+ {{1}} {j})) 0)', _ser_._buf.arr, _ser_._bit_offset // 8)")
    n_args = len(p.args)
    enc = p.enc()
    # template indexes: {0..n_args-1} the object's fields, then new array, B, old array
    iN, iB, iO = n_args, n_args + 1, n_args + 2
    ens = [("cursor-advances-by-the-encoded-length", f"_ser_._bit_offset == old(_ser_._bit_offset) + {8 * nb}"),
           ("buffer-length-unchanged", "_ser_._buf.n == old(_ser_._buf.n)")]
    arglist = ", ".join(p.args + ["_ser_._buf.arr", B, "old(_ser_._buf.arr)"])
    if m:
        fr = stores("{" + str(iO) + "}", "{" + str(iN) + "}", "{" + str(iB) + "}", m)
        ens.append(("every-byte-outside-the-message-is-untouched", f"smt('Bool', '{fr}', {arglist})"))
        ens.append(("message-bytes-are-bytes", "smt('Bool', '(and " + " ".join(f"(<= 0 (select {{0}} (+ {{1}} {j}))) (<= (select {{0}} (+ {{1}} {j})) 255)" for j in range(m)) + f")', _ser_._buf.arr, {B})"))
        ens.append(("message-bytes-are-exactly-the-specified-encoding", f"smt('Bool', '(= {le_sum('{' + str(iN) + '}', '{' + str(iB) + '}', m)} {enc})', {arglist})"))
    else:
        ens.append(("buffer-untouched", "smt('Bool', '(= {0} {1})', _ser_._buf.arr, old(_ser_._buf.arr))"))
    c = Contract(target=f"{MOD.format(module_rel)}:{cls_path}._serialize_", params={"self": p.fields, "_ser_": serializer_spec()}, timeout=300,
                 requires=pre, ensures=ens, modifies=["_ser_._bit_offset", "_ser_._buf.arr"], label=str(t) + shape_label(p.shape), decls=list(FLOAT_DECLS) if p.uses_float else [])
    c.after_call = None  # type: ignore

    def after(it):  # callee-side bookkeeping for nested calls: the cursor keeps its 8*B + r form
        o = it.ctx.env["_ser_"]
        old = it.ctx.old_heap[o.ref]["_bit_offset"]
        it.ctx.set_field(o, "_bit_offset", it.binop(ast.Add(), old, VInt(str(8 * nb))))
    c.after_call = after  # type: ignore
    c.meta = {"bits": p.bits, "nbytes": nb}  # type: ignore
    return c


# ---------------------------------------------------------------------------------------------------------------------
# support-library contract families as callees (selected by the receiver's cursor position and the literal bit length)
# ---------------------------------------------------------------------------------------------------------------------
def _lit_arg(v, what: str) -> int:
    k = _int_lit(v.t) if isinstance(v, VInt) else None
    if k is None:
        raise OutOfSubset(f"{what} is not a literal")
    return k


def install_serializer_callees(e) -> None:
    S = "Serializer."
    r_of = KP._r_of

    def misaligned(name: str, params) -> Contract:
        """an aligned primitive reached with the cursor off a byte boundary: its leading `assert self._bit_offset % 8 == 0`
        fires (Python assertions are always generated)"""
        return Contract(target=f"<generated nunavut_support.py>:Serializer.{name}", params=params, raises=[epy.Raises("AssertionError", "True")], ensures=[])

    def sel_aau(it, a, kw):
        if r_of(it, a[0]) != 0:
            return misaligned("add_aligned_unsigned", {"self": SObj("Serializer", {}), "value": SInt, "bit_length": SInt})
        return KP.add_aligned_unsigned(_lit_arg(a[2], "bit_length"))

    def sel_aas(it, a, kw):
        if r_of(it, a[0]) != 0:
            return misaligned("add_aligned_signed", {"self": SObj("Serializer", {}), "value": SInt, "bit_length": SInt})
        return KP.add_aligned_signed(_lit_arg(a[2], "bit_length"))

    def need_aligned(it, a):
        return r_of(it, a[0]) == 0

    e.contracts[S + "add_aligned_unsigned"] = sel_aau
    e.contracts[S + "add_aligned_signed"] = sel_aas
    e.contracts[S + "add_unaligned_unsigned"] = lambda it, a, kw: KP.add_unaligned_unsigned(r_of(it, a[0]), _lit_arg(a[2], "bit_length"))
    e.contracts[S + "add_unaligned_signed"] = lambda it, a, kw: KP.add_unaligned_signed(r_of(it, a[0]), _lit_arg(a[2], "bit_length"))
    e.contracts[S + "add_unaligned_bit"] = KP.select_add_unaligned_bit
    for w in (8, 16, 32, 64):
        e.contracts[S + f"add_aligned_u{w}"] = (lambda w: lambda it, a, kw: KP.add_aligned_u(w) if need_aligned(it, a) else misaligned(f"add_aligned_u{w}", {"self": SObj("Serializer", {}), "x": SInt}))(w)
        e.contracts[S + f"add_aligned_i{w}"] = (lambda w: lambda it, a, kw: KP.add_aligned_i(w) if need_aligned(it, a) else misaligned(f"add_aligned_i{w}", {"self": SObj("Serializer", {}), "x": SInt}))(w)
    def sel_bulk(name: str, aligned: bool, bits: bool):
        def sel(it, a, kw):
            from vk.epy import VObj
            r = r_of(it, a[0])
            x = a[1]
            if not (isinstance(x, VObj) and x.cls == "NPInts"):
                raise OutOfSubset(f"{name}: argument is not a NumPy array of the object")
            n = _lit_arg(it.ctx.get_field(x, "n"), "array length")
            w = 1 if bits else _lit_arg(it.ctx.get_field(x, "w"), "element width")
            if aligned and r != 0:
                return misaligned(name, {"self": SObj("Serializer", {}), "x": SObj("NPInts", {})})
            k = n * w
            nbytes = (k + 7) // 8
            m = (nbytes if aligned else nbytes + 1) if n else 0
            terms = [f"(* {2 ** (w * i)} (mod (select {{3}} {i}) {2 ** w}))" for i in range(n)]
            val = "0" if not terms else (terms[0] if n == 1 else "(+ " + " ".join(terms) + ")")
            return bulk_contract(name, r, k, m, val, ", x.arr")
        return sel

    e.contracts[S + "add_aligned_array_of_standard_bit_length_primitives"] = sel_bulk("add_aligned_array_of_standard_bit_length_primitives", True, False)
    e.contracts[S + "add_unaligned_array_of_standard_bit_length_primitives"] = sel_bulk("add_unaligned_array_of_standard_bit_length_primitives", False, False)
    e.contracts[S + "add_aligned_array_of_bits"] = sel_bulk("add_aligned_array_of_bits", True, True)
    e.contracts[S + "add_unaligned_array_of_bits"] = sel_bulk("add_unaligned_array_of_bits", False, True)

    def sel_float(name: str, w: int, aligned: bool):
        def sel(it, a, kw):
            from vk.epy import VData
            r = r_of(it, a[0])
            if aligned and r != 0:
                return misaligned(name, {"self": SObj("Serializer", {}), "x": SData("PyFloat")})
            return float_contract(name, r, w, isinstance(a[1], VData) and a[1].kind == "PyFloatConst")
        return sel

    for w in (16, 32, 64):
        e.contracts[S + f"add_aligned_f{w}"] = sel_float(f"add_aligned_f{w}", w, True)
        e.contracts[S + f"add_unaligned_f{w}"] = sel_float(f"add_unaligned_f{w}", w, False)
    e.contracts[S + "skip_bits"] = lambda it, a, kw: _skip(r_of(it, a[0]), _lit_arg(a[1], "skip_bits argument"))
    e.contracts[S + "pad_to_alignment"] = lambda it, a, kw: _pad(it, a)
    def current_bit_length(it, o):
        off = it.ctx.get_field(o, "_bit_offset")
        if "_fork_base" in it.ctx.heap[o.ref]:
            return it.binop(ast.Sub(), off, it.ctx.get_field(o, "_fork_base"))
        return off
    e.attr_hooks["Serializer.current_bit_length"] = current_bit_length

    def fork_bytes(it, recv, size):
        """Serializer.fork_bytes (ASSUMED, NumPy view semantics): the fork writes into the SAME storage from the parent's
        byte position; it is modelled as a serializer on the same array object whose cursor starts at the parent's cursor
        and whose current_bit_length is counted from there.  The fork's own size limit is not modelled (a fork that is too
        small raises IndexError in the real code: bounded stand-in only)."""
        from vk.epy import PyRaise
        if r_of(it, recv) != 0:
            raise PyRaise("ValueError")
        cur = it.ctx.get_field(recv, "_bit_offset")
        k = _lit_arg(size, "fork size")
        # the forked view holds `size` + 1 (the spill byte) bytes: a write beyond it raises IndexError in the real code
        limit = it.binop(ast.Add(), it.binop(ast.FloorDiv(), cur, VInt("8")), VInt(str(k + 1)))
        n = it.ctx.get_field(it.ctx.get_field(recv, "_buf"), "n")
        from vk.epy import PyRaise, VBool
        if it.ctx.branch(VBool(f"(< {n.t} {limit.t})"), "fork-larger-than-the-remaining-buffer"):
            raise PyRaise("ValueError")
        return it.ctx.new_obj("Serializer", {"_buf": it.ctx.get_field(recv, "_buf"), "_bit_offset": cur, "_fork_base": cur, "_limit": limit})
    e.intrinsics["Serializer.fork_bytes"] = fork_bytes
    e.used("Serializer.fork_bytes: the fork shares the parent's storage (NumPy view) from the parent's byte position and ends `size` + 1 bytes later (every write through it must stay below that limit)")

    # every write through a fork must also fit the fork's own view: the room requirement of the callee contracts is
    # repeated against the fork's limit
    import re as _re

    def limited(sel):
        def wrapped(it, a, kw):
            c = sel(it, a, kw) if callable(sel) and not isinstance(sel, Contract) else sel
            recv = a[0]
            from vk.epy import VObj
            if isinstance(recv, VObj) and "_limit" in it.ctx.heap[recv.ref]:
                for r in list(c.requires):
                    m = _re.search(r"\(<= \(\+ \{0\} (\d+)\) \{1\}\)', (\w+)\._bit_offset // 8, (\w+)\._buf\.n\)", r)
                    if m:
                        c.requires.append(f"smt('Bool', '(<= (+ {{0}} {m.group(1)}) {{1}})', {m.group(2)}._bit_offset // 8, {m.group(2)}._limit)")
                        if "_limit" not in str(c.params.get(m.group(2))):
                            pass
            return c
        return wrapped
    for key in [k for k in e.contracts if k.startswith(S)]:
        e.contracts[key] = limited(e.contracts[key])


def _skip(r: int, k: int) -> Contract:
    c = KP.skip_bits_ser(r)
    c.after_call = KP.advance_cursor(k)  # type: ignore
    return c


def _pad(it, a) -> Contract:
    if _lit_arg(a[1], "alignment") != 8:
        raise OutOfSubset("pad_to_alignment with an alignment other than 8")
    return KP.pad_to_alignment_ser(KP._r_of(it, a[0]))


def float_theory(e) -> None:
    """Python floats held by the generated objects are an abstract sort: the generated code only tests them (isfinite,
    comparison with the type's finite range) and hands them to struct.pack through add_*_f16/32/64, whose result is the
    ASSUMED function fbitsW (value) / cbitsW (literal constant)"""
    from vk.epy import VBool, VData
    from fractions import Fraction

    def const(it, v: float):
        fr = Fraction(v)
        return VData("PyFloatConst", f"(/ {fr.numerator}.0 {fr.denominator}.0)" if fr >= 0 else f"(- (/ {-fr.numerator}.0 {fr.denominator}.0))")

    e.intrinsics["float-constant"] = const

    def cmp(it, op, a, b):
        if isinstance(a, VData) and a.kind == "PyFloat" and isinstance(b, VData) and b.kind == "PyFloatConst":
            if isinstance(op, ast.Gt):
                return VBool(f"(fgt {a.t} {b.t})")
            if isinstance(op, ast.Lt):
                return VBool(f"(flt {a.t} {b.t})")
        raise OutOfSubset("float comparison")

    e.binop_hooks["cmp:PyFloat"] = cmp

    def neg(it, a):
        return VData("PyFloatConst", f"(- {a.t})")
    e.intrinsics["neg:PyFloatConst"] = neg


def shape_from_obj(it, lang, ct, obj, path: str = "self") -> dict:
    """the shape (array lengths, union options) of a symbolic object whose dimensions are literals"""
    from vk.epy import VList, VNone, VObj
    out: dict = {}
    inner = ct.inner_type
    flds = list(inner.fields) if isinstance(inner, pydsdl.UnionType) else list(inner.fields_except_padding)
    for i, f in enumerate(flds):
        a = lang.filter_id(f.name, "any")
        v = it.ctx.get_field(obj, a)
        if isinstance(inner, pydsdl.UnionType):
            if isinstance(v, VNone):
                continue
            out[path + "#tag"] = i
        dt = f.data_type
        p = f"{path}.{f.name}"
        if isinstance(dt, pydsdl.VariableLengthArrayType):
            n = len(v.items) if isinstance(v, VList) else _int_lit(it.ctx.get_field(v, "n").t)
            if n is None:
                raise OutOfSubset("array of symbolic length")
            out[p] = n
        if isinstance(dt, pydsdl.ArrayType) and isinstance(dt.element_type, pydsdl.CompositeType):
            for k, x in enumerate(v.items):
                out.update(shape_from_obj(it, lang, dt.element_type, x, f"{p}[{k}]"))
        elif isinstance(dt, pydsdl.CompositeType):
            out.update(shape_from_obj(it, lang, dt, v, p))
    return out


def rebase_shape(shape: dict, prefix: str) -> dict:
    return {"self" + k[len(prefix):]: v for k, v in shape.items() if k.startswith(prefix)}


def bulk_contract(name: str, r: int, k: int, m: int, value_term: str, value_args: str) -> Contract:
    """ASSUMED contracts of the NumPy-based array primitives (x.view(Byte), numpy.packbits): they put the elements' bits at
    the cursor like any other primitive; their bodies are library calls, exercised by the bounded stand-in of C14"""
    c = Contract(target=f"<generated nunavut_support.py>:Serializer.{name}", params={"self": KP.ser_obj(r), "x": SObj("NPInts", {"arr": SData(ARR), "n": SInt, "lo": SInt, "hi": SInt, "w": SInt})},
                 requires=KP.ser_pre(r, m), ensures=KP.ser_post(r, k, m, value_term, value_args), modifies=["self._bit_offset", "self._buf.arr"], note="assumed")
    c.after_call = KP.advance_cursor(k)  # type: ignore
    return c


def float_contract(name: str, r: int, w: int, const: bool) -> Contract:
    """ASSUMED: add_*_fW writes struct.pack('<e|f|d', x) -- W bits that are a function of x -- at the cursor"""
    nb = w // 8
    m = nb if name.startswith("add_aligned") else nb + 1
    c = Contract(target=f"<generated nunavut_support.py>:Serializer.{name}", params={"self": KP.ser_obj(r), "x": SData("PyFloatConst" if const else "PyFloat")},
                 requires=KP.ser_pre(r, m) + ([] if const else [f"smt('Bool', '(and (<= 0 (fbits{w} {{0}})) (< (fbits{w} {{0}}) {2 ** w}))', x)"]),
                 ensures=KP.ser_post(r, w, m, f"({'cbits' if const else 'fbits'}{w} {{3}})", ", x"), modifies=["self._bit_offset", "self._buf.arr"], note="assumed", decls=list(FLOAT_DECLS))
    c.after_call = KP.advance_cursor(w)  # type: ignore
    return c


def np_ints_theory(e) -> None:
    """NumPy integer arrays held by the generated objects: NPInts{arr, n, lo, hi}; a load is within the element type's range"""
    from vk.epy import PyRaise, VBool, VObj
    from vk.smt import And, Or, app

    def load(it, o, k):
        n = it.ctx.get_field(o, "n").t
        if it.ctx.branch(VBool(Or(app("<", k.t, "0"), app(">=", k.t, n))), "array-index-out-of-range"):
            raise PyRaise("IndexError")
        sel = app("select", it.ctx.get_field(o, "arr").t, k.t)
        it.ctx.assume(And(app("<=", it.ctx.get_field(o, "lo").t, sel), app("<=", sel, it.ctx.get_field(o, "hi").t)))
        return VInt(sel)

    e.subscript_hooks["NPInts"] = load
    e.intrinsics["len:NPInts"] = lambda it, o: it.ctx.get_field(o, "n")

    def unroll(it, o):
        n = _int_lit(it.ctx.get_field(o, "n").t)
        return None if n is None else [load(it, o, VInt(str(i))) for i in range(n)]

    e.intrinsics["unroll:NPInts"] = unroll


def verify_shape(lang, t, shape, text, module_rel, cls_path, src_root, nested_types):
    c = serialize_contract(lang, t, module_rel, cls_path, shape)
    fn = epy.find_function_in_text(text, f"{cls_path}._serialize_", module_rel)
    c.loops = {i: Loop(unroll=True) for i in range(len(epy.loops_in(fn)))}  # every loop runs over an array of literal length
    e = epy.Engine(pathlib.Path(src_root))
    bytestheory.install(e)
    KP.byte_offset_attr(e)
    np_ints_theory(e)
    float_theory(e)
    e.ghost_classes = set()
    install_serializer_callees(e)
    for dep in nested_types:  # nested composites: their own contract for the shape the receiver object has
        dcls = lang.filter_short_reference_name(dep)

        def sel(it, a, kw, dep=dep, dcls=dcls):
            sh = shape_from_obj(it, lang, dep, a[0])
            return serialize_contract(lang, dep, "nested", dcls, sh)
        e.contracts[f"{dcls}._serialize_"] = sel
    c.bindings = dict(KP.np_binding(e), **c.bindings)
    c.bindings["_np_"] = epy.VConst({"isfinite": epy.VConst(lambda it, x: epy.VBool(f"(isfinite {x.t})") if getattr(x, "kind", "") == "PyFloat" else epy.VBool("true"))})
    obs, info = e.verify(c, text)
    info["assumed"] = list(e.assumed)
    return c, obs, info


def generate(args):
    """worker: one type -> obligations of all its shapes"""
    from vk import render
    idx, ns_dir, full_name, version, text, module_rel, cls_path, src_root = args
    try:
        lang = render.language_context("py").get_target_language()
        types = {str(t): t for t in _flatten(pydsdl.read_namespace(ns_dir, []))}
        t = types[f"{full_name}.{version[0]}.{version[1]}"]
        shapes = shapes_of(t)
        nested = _nested(t)
        all_obs, infos, skipped = [], [], []
        target = ""
        for sh in shapes:
            try:
                c, obs, info = verify_shape(lang, t, sh, text, module_rel, cls_path, src_root, nested)
            except NotInSubset as ex:
                skipped.append(f"{shape_label(sh)}: {ex}")
                continue
            target = c.target
            all_obs += obs
            infos.append(info)
        if not infos:
            return idx, "", [], {}, "not in the subset: " + "; ".join(skipped[:3])
        info = {"returns": sum(i.get("returns", 0) for i in infos), "raises": sum(i.get("raises", 0) for i in infos), "trivial": sum(i.get("trivial", 0) for i in infos),
                "shapes": len(infos), "shapes_outside_the_subset": skipped, "assumed": sorted({a for i in infos for a in i.get("assumed", [])})}
        return idx, target, all_obs, info, None
    except NotInSubset as ex:
        return idx, "", [], {}, f"not in the subset: {ex}"
    except Exception as ex:  # OutOfSubset / BindingError: undecided, never a violation
        return idx, "", [], {}, f"{type(ex).__name__}: {ex}"


def _flatten(types):
    out = []
    for t in types:
        out += [t.request_type, t.response_type] if isinstance(t, pydsdl.ServiceType) else [t]
    return out


def _nested(t, seen=None):
    seen = seen if seen is not None else {}
    for f in t.inner_type.fields_except_padding:
        dt = f.data_type
        while isinstance(dt, pydsdl.ArrayType):
            dt = dt.element_type
        if isinstance(dt, pydsdl.CompositeType) and str(dt) not in seen:
            seen[str(dt)] = dt
            _nested(dt, seen)
    return list(seen.values())


# =====================================================================================================================
# deserializers (C02, Python leg)
# =====================================================================================================================
DES_DECLS = ["(declare-fun funbits16 (Int) PyFloat)", "(declare-fun funbits32 (Int) PyFloat)", "(declare-fun funbits64 (Int) PyFloat)"]


def deserializer_spec():
    return SObj("Deserializer", {"_buf": KP.ZEB, "_bit_offset": KP.cursor(0)})


class DecPlan:
    """for ONE shape: the constraints on the input that select the shape (length prefixes, union tags), the specified
    value of every field of the result as a function of the zero-extended input, and the order of the nested decodes.
    `invalid`: path of the first array whose length prefix exceeds its capacity / union whose tag is invalid (then the
    walk stops there: the contract is 'raises FormatError')."""

    def __init__(self, lang, t, shape: dict, invalid: typing.Optional[str] = None):
        self.lang, self.t, self.shape, self.invalid = lang, t, shape, invalid
        self.selects: typing.List[typing.Tuple[int, int, typing.Any]] = []   # (offset, width, literal or ('gt', cap))
        self.posts: typing.List[typing.Tuple[str, str]] = []                   # (result expression, SMT template over Z)
        self.none_fields: typing.List[str] = []
        self.lens: typing.List[typing.Tuple[str, int]] = []
        self.expect: typing.List[int] = []                                      # literals read as length prefixes / tags, in order
        self.nested: typing.List[typing.Tuple[typing.Any, dict]] = []
        self.uses_float = False
        self.stopped = False
        self.off = 0
        self.limits: typing.List[str] = []   # byte-index limits of the enclosing delimited windows (templates over {2})
        self.window_pre: typing.List[str] = []
        self._comp(t, "result", "self", top=True)
        self.bits = self.off

    def _align(self, a):
        self.off += -self.off % a

    def _val(self, off: int, k: int) -> str:
        """bits [off, off+k) of the zero-extended input, as an integer: read from the smallest byte window that holds them
        ({0} = input array, {1} = its length, {2} = byte position of the message start)"""
        j, r = divmod(off, 8)
        nb = (r + k + 7) // 8
        n_eff = "{1}"
        for lim in self.limits:  # inside a delimited window the input ends where the window ends (zero extension beyond)
            n_eff = f"(ite (< {n_eff} {lim}) {n_eff} {lim})"
        z = KP.le_zx("{0}", n_eff, f"(+ {{2}} {j})" if j else "{2}", max(nb, 1))
        return f"(mod (div {z} {2 ** r}) {2 ** k})" if r else f"(mod {z} {2 ** k})"

    def _prim(self, dt, ref: str):
        k = dt.bit_length
        u = self._val(self.off, k)
        if isinstance(dt, pydsdl.BooleanType):
            self.posts.append((ref, f"(= {{r}} (= {u} 1))"))
        elif isinstance(dt, pydsdl.SignedIntegerType):
            self.posts.append((ref, f"(= {{r}} (ite (>= {u} {2 ** (k - 1)}) (- {u} {2 ** k}) {u}))"))
        elif isinstance(dt, pydsdl.UnsignedIntegerType):
            self.posts.append((ref, f"(= {{r}} {u})"))
        elif isinstance(dt, pydsdl.FloatType):
            self.uses_float = True
            self.posts.append((ref, f"(= {{r}} (funbits{k} {u}))"))
        else:
            raise NotInSubset(str(dt))
        self.off += k

    def _array(self, dt, ref: str, path: str):
        et = dt.element_type
        fixed = isinstance(dt, pydsdl.FixedLengthArrayType)
        if fixed:
            n = dt.capacity
        else:
            pw = dt.length_field_type.bit_length
            if self.invalid == path:
                self.selects.append((self._val(self.off, pw), pw, ("gt", dt.capacity)))
                self.stopped = True
                return
            n = self.shape[path]
            self.selects.append((self._val(self.off, pw), pw, n))
            self.expect.append(n)
            self.off += pw
        self.lens.append((ref, n))
        for i in range(n):
            if isinstance(et, pydsdl.CompositeType):
                self._align(et.alignment_requirement)
                self._comp(et, f"{ref}[{i}]", f"{path}[{i}]")
                if self.stopped:
                    return
            else:
                k = et.bit_length
                u = self._val(self.off, k)
                el = "(select {a} " + str(i) + ")"
                if isinstance(et, pydsdl.BooleanType):
                    self.posts.append((ref + ".arr", f"(= {el} {u})"))
                elif isinstance(et, pydsdl.SignedIntegerType):
                    self.posts.append((ref + ".arr", f"(= {el} (ite (>= {u} {2 ** (k - 1)}) (- {u} {2 ** k}) {u}))"))
                else:  # unsigned integers and the raw patterns of float elements
                    self.posts.append((ref + ".arr", f"(= {el} {u})"))
                self.off += k

    def _comp(self, ct, ref: str, path: str, top: bool = False):
        inner = ct.inner_type
        window_end = None
        if isinstance(ct, pydsdl.DelimitedType) and not top:
            hv = self._val(self.off, 32)
            if self.invalid == path + "#dh":
                self.selects.append((hv, 32, ("gtrem", self.off + 32)))
                self.stopped = True
                return
            dh = self.shape[path + "#dh"]
            self.selects.append((hv, 32, dh))
            self.expect.append(dh)
            self.off += 32
            start = self.off
            # a valid header fits into what remains of the (enclosing window of the) input
            self.window_pre.append((start, dh))
            window_end = start + 8 * dh
            self.limits.append(f"(+ {{2}} {start // 8 + dh})")
        if not top:
            inv = None
            if self.invalid is not None and (self.invalid.startswith(path + ".") or self.invalid.startswith(path + "#") or self.invalid.startswith(path + "[")):
                inv = "self" + self.invalid[len(path):]  # the offending prefix/tag lies inside this nested object
            self.nested.append((ct, rebase_shape(self.shape, path), self.off, inv))
        if isinstance(inner, pydsdl.UnionType):
            tw = inner.tag_field_type.bit_length
            if self.invalid == path + "#tag":
                self.selects.append((self._val(self.off, tw), tw, ("gt", len(inner.fields) - 1)))
                self.stopped = True
                return
            k = self.shape[path + "#tag"]
            self.selects.append((self._val(self.off, tw), tw, k))
            if top or True:
                self.expect.append(k)
            self.off += tw
            for i, f in enumerate(inner.fields):
                a = self.lang.filter_id(f.name, "any")
                if i != k:
                    self.none_fields.append(f"{ref}.{a}")
                    continue
                self._align(f.data_type.alignment_requirement)
                self._field(f.data_type, f"{ref}.{a}", f"{path}.{f.name}")
        else:
            for f in inner.fields:
                dt = f.data_type
                self._align(dt.alignment_requirement)
                if isinstance(f, pydsdl.PaddingField) or isinstance(dt, pydsdl.VoidType):
                    self.off += dt.bit_length
                    continue
                self._field(dt, f"{ref}.{self.lang.filter_id(f.name, 'any')}", f"{path}.{f.name}")
                if self.stopped:
                    return
        if not self.stopped:
            self._align(8)
        if window_end is not None:
            self.limits.pop()
            if not self.stopped:
                self.off = window_end  # the reader continues where the header says the nested object ends

    def _field(self, dt, ref, path):
        if isinstance(dt, pydsdl.PrimitiveType):
            self._prim(dt, ref)
        elif isinstance(dt, pydsdl.ArrayType):
            self._array(dt, ref, path)
        elif isinstance(dt, pydsdl.CompositeType):
            self._align(dt.alignment_requirement)
            self._comp(dt, ref, path)
        else:
            raise NotInSubset(str(dt))

    @property
    def nbytes(self):
        return (self.bits + 7) // 8


def invalid_variants(t, shape: dict) -> typing.List[str]:
    """paths (in layout order) at which this valid shape can be turned into an invalid input"""
    return [k for k in shape]


def deserialize_contract(lang, t, module_rel: str, cls_path: str, shape: dict, invalid: typing.Optional[str] = None) -> typing.Tuple[Contract, DecPlan]:
    p = DecPlan(lang, t, shape, invalid)
    B = "old(_des_._bit_offset) // 8"
    base_args = "_des_._buf._buf.arr, _des_._buf._buf.n, "

    def with_z(body: str) -> str:
        return body

    pre = ["_des_._bit_offset >= 0", "forall('Int', lambda i: smt('Bool', '(and (<= 0 (select {0} {1})) (<= (select {0} {1}) 255))', _des_._buf._buf.arr, i))"]
    for v, w, lit in p.selects:
        if isinstance(lit, tuple) and lit[0] == "gtrem":
            # delimiter header larger than what remains of the input: 8*dh > max(8*n - position, 0)
            rem = f"(- (* 8 {{1}}) (+ (* 8 {{2}}) {lit[1]}))"
            cond = f"(> (* 8 {v}) (ite (> {rem} 0) {rem} 0))"
        else:
            cond = f"(= {v} {lit})" if not isinstance(lit, tuple) else f"(> {v} {lit[1]})"
        pre.append(f"smt('Bool', '{cond}', {base_args}_des_._bit_offset // 8)")
    for start, dh in p.window_pre:
        rem = f"(- (* 8 {{1}}) (+ (* 8 {{2}}) {start}))"
        pre.append(f"smt('Bool', '(<= {8 * dh} (ite (> {rem} 0) {rem} 0))', {base_args}_des_._bit_offset // 8)")
    label = str(t) + shape_label(shape) + (f"!invalid@{invalid[5:] if invalid.startswith('self.') else invalid}" if invalid else "")
    decls = list(FLOAT_DECLS) + DES_DECLS
    if invalid:
        c = Contract(target=f"{MOD.format(module_rel)}:{cls_path}._deserialize_", params={"_des_": deserializer_spec()}, requires=pre, timeout=300,
                     raises=[epy.Raises("FormatError", "True")], ensures=[], modifies=["_des_._bit_offset"], label=label, decls=decls)
        return c, p
    ens = [("cursor-advances-by-the-decoded-length", f"_des_._bit_offset == old(_des_._bit_offset) + {p.bits}"),
           ("input-buffer-not-written", "smt('Bool', '(= {0} {1})', _des_._buf._buf.arr, old(_des_._buf._buf.arr))")]
    for ref, n in p.lens:
        ens.append((f"{ref}-has-the-decoded-length", f"len({ref}) == {n}"))
    for ref in p.none_fields:
        ens.append((f"{ref}-is-not-the-selected-option", f"{ref} is None"))
    for i, (ref, tmpl) in enumerate(p.posts):
        if ref.endswith(".arr"):
            body = tmpl.replace("{a}", "{3}")
        else:
            body = tmpl.replace("{r}", "{3}")
        ens.append((f"{ref}#{i}-is-the-specified-value-of-the-zero-extended-input", f"smt('Bool', '{with_z(body)}', {base_args}{B}, {ref})"))
    c = Contract(target=f"{MOD.format(module_rel)}:{cls_path}._deserialize_", params={"_des_": deserializer_spec()}, requires=pre, ensures=ens, timeout=300,
                 modifies=["_des_._bit_offset"], label=label, decls=decls, result=None)

    def after(it):
        o = it.ctx.env["_des_"]
        old = it.ctx.old_heap[o.ref]["_bit_offset"]
        it.ctx.set_field(o, "_bit_offset", it.binop(ast.Add(), old, VInt(str(p.bits))))
    c.after_call = after  # type: ignore
    return c, p


DTYPES = {"uint8": (0, 255, 8), "uint16": (0, 65535, 16), "uint32": (0, 2 ** 32 - 1, 32), "uint64": (0, 2 ** 64 - 1, 64), "int8": (-128, 127, 8), "int16": (-32768, 32767, 16),
          "int32": (-2 ** 31, 2 ** 31 - 1, 32), "int64": (-2 ** 63, 2 ** 63 - 1, 64), "float16": (0, 65535, 16), "float32": (0, 2 ** 32 - 1, 32), "float64": (0, 2 ** 64 - 1, 64), "bool_": (0, 1, 1)}


def new_npints(it, n: str, dtype: str, arr: typing.Optional[str] = None):
    lo, hi, w = DTYPES[dtype]
    from vk.epy import VData
    return it.ctx.new_obj("NPInts", {"arr": VData(ARR, arr) if arr else it.ctx.make(SData(ARR), "ndarray", False), "n": VInt(n), "lo": VInt(epy._lit_term(lo)), "hi": VInt(str(hi)), "w": VInt(str(w))})


def des_array_contract(name: str, r: int, n: int, w: int, dtype: str, signed: bool, aligned: bool) -> Contract:
    """ASSUMED contracts of the NumPy-based array fetches (numpy.frombuffer / unpackbits on the zero-extended bytes): n
    elements of w bits each from the cursor, little-endian, sign-extended for signed element types"""
    k = n * w
    ens = [("cursor-advances", f"self._bit_offset == old(self._bit_offset) + {k}"), ("as-many-elements-as-asked", f"result.n == {n}")] + KP.DES_FRAME
    for i in range(n):
        j, rr = divmod(r + i * w, 8)  # the element's own byte window
        z = KP.le_zx("{1}", "{2}", f"(+ {{3}} {j})" if j else "{3}", max((rr + w + 7) // 8, 1))
        u = f"(mod (div {z} {2 ** rr}) {2 ** w})" if rr else f"(mod {z} {2 ** w})"
        v = f"(ite (>= {u} {2 ** (w - 1)}) (- {u} {2 ** w}) {u})" if signed else u
        ens.append((f"element-{i}", f"smt('Bool', '(= (select {{0}} {i}) {v})', result.arr, self._buf._buf.arr, self._buf._buf.n, {KP.DB_OLD})"))
    lo, hi, ww = DTYPES[dtype]
    res = SObj("NPInts", {"arr": SData(ARR), "n": VInt(str(n)), "lo": VInt(epy._lit_term(lo)), "hi": VInt(str(hi)), "w": VInt(str(ww))})
    params = {"self": KP.des_obj(r), "count": SInt} if dtype == "bool_" else {"self": KP.des_obj(r), "dtype": epy.SConst("dtype"), "count": SInt}
    c = Contract(target=f"<generated nunavut_support.py>:Deserializer.{name}", params=params, requires=["self._bit_offset >= 0", KP.UINT8_INPUT], ensures=ens,
                 modifies=["self._bit_offset"], result=res, note="assumed")
    c.after_call = KP.advance_cursor(k)  # type: ignore
    return c


def des_float_contract(name: str, r: int, w: int) -> Contract:
    """ASSUMED: fetch_*_fW returns struct.unpack of the W zero-extended bits at the cursor (a function of those bits)"""
    nb = w // 8 + (1 if r else 0)
    Z = KP.le_zx("{1}", "{2}", "{3}", nb)
    c = Contract(target=f"<generated nunavut_support.py>:Deserializer.{name}", params={"self": KP.des_obj(r)}, requires=["self._bit_offset >= 0", KP.UINT8_INPUT],
                 ensures=[("cursor-advances", f"self._bit_offset == old(self._bit_offset) + {w}"),
                          ("unpacked-from-the-bits-at-the-cursor", f"smt('Bool', '(= {{0}} (funbits{w} (mod (div {Z} {2 ** r}) {2 ** w})))', result, self._buf._buf.arr, self._buf._buf.n, {KP.DB_OLD})")] + KP.DES_FRAME,
                 modifies=["self._bit_offset"], result=SData("PyFloat"), note="assumed", decls=list(FLOAT_DECLS) + DES_DECLS)
    c.after_call = KP.advance_cursor(w)  # type: ignore
    return c


def install_deserializer_callees(e) -> None:
    D = "Deserializer."
    r_of = KP._r_of

    def misaligned(name: str, params) -> Contract:
        return Contract(target=f"<generated nunavut_support.py>:Deserializer.{name}", params=params, raises=[epy.Raises("AssertionError", "True")], ensures=[])

    def fam(name, build, aligned, params):
        def sel(it, a, kw):
            r = r_of(it, a[0])
            if aligned and r != 0:
                return misaligned(name, params)
            try:
                return build(it, r, a)
            except OutOfSubset:
                if it.ctx.implied("false"):  # an infeasible path (e.g. past a length check that always raises here): nothing to prove
                    raise epy.PathEnd()
                if "!invalid@" in it.ctx.contract.label:
                    # an invalid-input case got PAST its length/tag check on a feasible path: the contract 'raises
                    # FormatError' is already broken; end the path as a normal return so that the must-raise obligation
                    # fails (with the solver's model of such an input)
                    raise epy._Return(epy.NONE)
                raise
        e.contracts[D + name] = sel

    P1 = {"self": SObj("Deserializer", {}), "bit_length": SInt}
    P0 = {"self": SObj("Deserializer", {})}
    fam("fetch_aligned_unsigned", lambda it, r, a: KP.fetch_unsigned(True, 0, _lit_arg(a[1], "bit_length")), True, P1)
    fam("fetch_aligned_signed", lambda it, r, a: KP.fetch_signed(True, 0, _lit_arg(a[1], "bit_length")), True, P1)
    fam("fetch_unaligned_unsigned", lambda it, r, a: KP.fetch_unsigned(False, r, _lit_arg(a[1], "bit_length")), False, P1)
    fam("fetch_unaligned_signed", lambda it, r, a: KP.fetch_signed(False, r, _lit_arg(a[1], "bit_length")), False, P1)
    fam("fetch_unaligned_bit", lambda it, r, a: KP.fetch_unaligned_bit(r), False, P0)
    for w in (8, 16, 32, 64):
        fam(f"fetch_aligned_u{w}", (lambda w: lambda it, r, a: KP.fetch_aligned_u(w))(w), True, P0)
        fam(f"fetch_aligned_i{w}", (lambda w: lambda it, r, a: KP.fetch_aligned_i(w))(w), True, P0)
    for w in (16, 32, 64):
        fam(f"fetch_aligned_f{w}", (lambda w: lambda it, r, a: des_float_contract(f"fetch_aligned_f{w}", 0, w))(w), True, P0)
        fam(f"fetch_unaligned_f{w}", (lambda w: lambda it, r, a: des_float_contract(f"fetch_unaligned_f{w}", r, w))(w), False, P0)

    def skip(it, r, a):
        k = _lit_arg(a[1], "skip_bits argument")
        c = KP.skip_bits_des(r)
        c.after_call = KP.advance_cursor(k)  # type: ignore
        return c
    fam("skip_bits", skip, False, P1)

    def pad(it, r, a):
        if _lit_arg(a[1], "alignment") != 8:
            raise OutOfSubset("pad_to_alignment with an alignment other than 8")
        return KP.pad_to_alignment_des(r)
    fam("pad_to_alignment", pad, False, P1)

    def arr(name, aligned, bits):
        def build(it, r, a):
            if bits:
                n = _lit_arg(a[1], "element count")
                return des_array_contract(name, r, n, 1, "bool_", False, aligned)
            dt = a[1].obj[1] if isinstance(a[1], epy.VConst) and isinstance(a[1].obj, tuple) and a[1].obj[0] == "dtype" else None
            if dt is None:
                raise OutOfSubset("array fetch with an unknown dtype")
            n = _lit_arg(a[2], "element count")
            lo, hi, w = DTYPES[dt]
            return des_array_contract(name, r, n, w, dt, lo < 0, aligned)
        fam(name, build, aligned, {"self": SObj("Deserializer", {}), "count": SInt} if bits else {"self": SObj("Deserializer", {}), "dtype": epy.SConst("dtype"), "count": SInt})

    arr("fetch_aligned_array_of_standard_bit_length_primitives", True, False)
    arr("fetch_unaligned_array_of_standard_bit_length_primitives", False, False)
    arr("fetch_aligned_array_of_bits", True, True)
    arr("fetch_unaligned_array_of_bits", False, True)
    def consumed(it, o):
        off = it.ctx.get_field(o, "_bit_offset")
        if "_fork_base" in it.ctx.heap[o.ref]:
            return it.binop(ast.Sub(), off, it.ctx.get_field(o, "_fork_base"))
        return off
    e.attr_hooks["Deserializer.consumed_bit_length"] = consumed

    def remaining(it, o):
        n = it.ctx.get_field(it.ctx.get_field(it.ctx.get_field(o, "_buf"), "_buf"), "n")
        return VInt(f"(- (* 8 {n.t}) {it.ctx.get_field(o, '_bit_offset').t})")
    e.attr_hooks["Deserializer.remaining_bit_length"] = remaining

    def fork_bytes(it, recv, size):
        """Deserializer.fork_bytes (ASSUMED, NumPy view semantics): a reader over the same bytes that ENDS `size` bytes
        after the parent's byte position (zero extension beyond); positions stay absolute, consumed_bit_length counts from
        the fork point.  A size beyond what remains is a usage error (ValueError) in the real code."""
        from vk.epy import PyRaise, VBool, VData
        if r_of(it, recv) != 0:
            raise PyRaise("ValueError")
        if isinstance(size, VInt) and _int_lit(size.t) is None:
            if it.ctx.implied("false"):
                raise epy.PathEnd()
            if "!invalid@" in it.ctx.contract.label:
                raise epy._Return(epy.NONE)  # got past the header check with an oversized header: must-raise fails at the exit
        k = _lit_arg(size, "fork size")
        cur = it.ctx.get_field(recv, "_bit_offset")
        nd = it.ctx.get_field(it.ctx.get_field(recv, "_buf"), "_buf")
        n = it.ctx.get_field(nd, "n").t
        rem = f"(- (* 8 {n}) {cur.t})"
        if it.ctx.branch(VBool(f"(> {8 * k} (ite (> {rem} 0) {rem} 0))"), "fork-larger-than-the-remaining-input"):
            raise PyRaise("ValueError")
        end = it.binop(ast.Add(), it.binop(ast.FloorDiv(), cur, VInt("8")), VInt(str(k)))
        arr2 = it.ctx.new_obj("NDArray", {"arr": it.ctx.get_field(nd, "arr"), "n": VInt(f"(ite (< {n} {end.t}) {n} {end.t})")})
        zeb = it.ctx.new_obj("ZeroExtendingBuffer", {"_buf": arr2})
        return it.ctx.new_obj("Deserializer", {"_buf": zeb, "_bit_offset": cur, "_fork_base": cur})
    e.intrinsics["Deserializer.fork_bytes"] = fork_bytes
    e.used("Deserializer.fork_bytes: the fork reads the parent's bytes up to `size` bytes after the parent's byte position and zero-extends beyond (NumPy view semantics)")
    epy.EXC_PARENTS["FormatError"] = "ValueError"


def install_object_model(e, lang, types) -> dict:
    """constructors of the generated classes (ASSUMED from C18's setter contracts: an integer outside the DSDL range or an
    array longer than its capacity raises ValueError, otherwise the value is stored), NumPy array factories, and the module
    tree through which the generated code names other generated classes"""
    from vk.epy import PyRaise, VBool, VList, VObj, VConst
    from vk.smt import Or, app
    tree: dict = {}
    by_cls = {}
    from contracts import py_leg as _PL
    for t in types:
        if getattr(t, "has_parent_service", False):
            cls = _PL.mod_cls(lang, t)[1]  # "Svc_1_0.Request"
            svc, half = cls.split(".")
            by_cls[cls] = t
            tree.setdefault(svc, {})[half] = ("class", cls, {})
        else:
            cls = lang.filter_short_reference_name(t)
            by_cls[cls] = t
            node = tree
            for part in [lang.filter_id(p, "any") for p in t.full_namespace.split(".")]:
                node = node.setdefault(part, {})
            node[cls] = ("class", cls, {})

        def ctor(it, *args, _t=t, _cls=cls, **kw):
            inner = _t.inner_type
            fields = {}
            for f in (inner.fields if isinstance(inner, pydsdl.UnionType) else inner.fields_except_padding):
                a = lang.filter_id(f.name, "any")
                if a not in kw:
                    if isinstance(inner, pydsdl.UnionType):
                        fields[a] = epy.NONE
                        continue
                    raise OutOfSubset(f"{_cls}() without {a}")
                v = kw[a]
                dt = f.data_type
                if isinstance(dt, pydsdl.IntegerType) and isinstance(v, VInt):
                    lo, hi = int(dt.inclusive_value_range.min), int(dt.inclusive_value_range.max)
                    if it.ctx.branch(VBool(Or(app("<", v.t, epy._lit_term(lo)), app(">", v.t, str(hi)))), f"{_cls}.{a}-out-of-range"):
                        raise PyRaise("ValueError")
                if isinstance(dt, pydsdl.ArrayType):
                    n = len(v.items) if isinstance(v, VList) else _int_lit(it.ctx.get_field(v, "n").t)
                    if n is None or (n > dt.capacity or (isinstance(dt, pydsdl.FixedLengthArrayType) and n != dt.capacity)):
                        raise PyRaise("ValueError")
                fields[a] = v
            return it.ctx.new_obj(_cls, fields)
        e.intrinsics[f"{cls}.__new__"] = ctor

    def wrap(d):
        return VConst({k: (wrap(v) if isinstance(v, dict) else VConst(v)) for k, v in d.items()})

    def np_empty(it, n, dtype=None):
        if isinstance(n, VInt) and _int_lit(n.t) is None:
            if it.ctx.implied("false"):
                raise epy.PathEnd()
            if "!invalid@" in it.ctx.contract.label:
                raise epy._Return(epy.NONE)
        k = _lit_arg(n, "array length")
        dt = dtype.obj[1] if isinstance(dtype, VConst) and isinstance(dtype.obj, tuple) and dtype.obj[0] == "dtype" else None
        if dt == "object_":
            return VList([epy.NONE for _ in range(k)])
        if dt not in DTYPES:
            raise OutOfSubset("numpy.empty with an unknown dtype")
        return new_npints(it, str(k), dt)

    npmod = {nm: VConst(("dtype", nm)) for nm in list(DTYPES) + ["object_"]}
    npmod["empty"] = VConst(np_empty)
    npmod["isfinite"] = VConst(lambda it, x: VBool(f"(isfinite {x.t})") if getattr(x, "kind", "") == "PyFloat" else VBool("true"))

    def np_store(it, o, k, v):
        ctx = it.ctx
        n = ctx.get_field(o, "n").t
        if ctx.branch(VBool(Or(app("<", k.t, "0"), app(">=", k.t, n))), "array-index-out-of-range"):
            raise PyRaise("IndexError")
        if isinstance(v, VBool):
            v = VInt(epy.Ite(v.t, "1", "0"))
        if not isinstance(v, VInt):
            raise OutOfSubset("array element store")
        if ctx.branch(VBool(Or(app("<", v.t, ctx.get_field(o, "lo").t), app(">", v.t, ctx.get_field(o, "hi").t))), "element-outside-the-numpy-type"):
            raise PyRaise("OverflowError")
        from vk.epy import VData
        ctx.set_field(o, "arr", VData(ARR, app("store", ctx.get_field(o, "arr").t, k.t, v.t)))
        return None
    e.store_subscript_hooks["NPInts"] = np_store

    def list_store(it, o, k, v):
        i = _lit_arg(k, "list index")
        items = list(o.items)
        if not 0 <= i < len(items):
            raise PyRaise("IndexError")
        items[i] = v
        return VList(items)
    e.store_subscript_hooks["List"] = list_store
    bindings = {k: wrap(v) if isinstance(v, dict) else VConst(v) for k, v in tree.items()}
    bindings["_np_"] = VConst(npmod)
    for cls in by_cls:
        if "." not in cls:
            bindings.setdefault(cls, VConst(("class", cls, {})))
    return bindings


def verify_des_shape(lang, t, shape, invalid, text, module_rel, cls_path, src_root, all_types):
    import re as _re
    c, p = deserialize_contract(lang, t, module_rel, cls_path, shape, invalid)
    fn = epy.find_function_in_text(text, f"{cls_path}._deserialize_", module_rel)
    c.loops = {i: Loop(unroll=True) for i in range(len(epy.loops_in(fn)))}
    e = epy.Engine(pathlib.Path(src_root))
    bytestheory.install(e)
    KP.byte_offset_attr(e)
    KP.zeb_bit_length_attr(e)
    np_ints_theory(e)
    float_theory(e)
    e.ghost_classes = set()
    install_deserializer_callees(e)
    binds = install_object_model(e, lang, all_types)
    # nested composites are decoded in layout order: the k-th nested _deserialize_ call gets the contract of the k-th
    # nested object of this shape
    order = list(p.nested)
    for dep in _nested(t):
        dcls = lang.filter_short_reference_name(dep)

        def sel(it, a, kw, dcls=dcls):
            m = epy._LIN.fullmatch(it.ctx.get_field(a[0], "_bit_offset").t.strip())
            if not m:
                raise OutOfSubset("cursor is not of the form 8*B + k at a nested decode")
            at = int(m.group(3))
            hit = [(ct, sh, inv) for ct, sh, off, inv in order if off == at and lang.filter_short_reference_name(ct) == dcls]
            if not hit:
                if it.ctx.implied("false"):
                    raise epy.PathEnd()
                raise OutOfSubset(f"nested decode of {dcls} at bit {at}: no such nested object in this shape")
            ct, sh, inv = hit[0]
            cc, _ = deserialize_contract(lang, ct, "nested", dcls, sh, inv)
            if inv is None:
                cc.result = TypePlan(lang, ct, sh).fields
            return cc
        e.contracts[f"{dcls}._deserialize_"] = sel
    expect = list(p.expect)

    def concretize(it, name, v):
        if _re.fullmatch(r"_(len|tag)\d+_|_dh_", name) and isinstance(v, VInt) and _int_lit(v.t) is None:
            for L in sorted(set(expect)):
                if it.ctx.implied(epy.Eq(v.t, str(L))):
                    if it.ctx.implied("false"):
                        raise epy.PathEnd()  # a case whose conditions on the input contradict each other: nothing to prove
                    return VInt(str(L))
        return v
    e.assign_hook = concretize
    c.bindings = dict(KP.np_binding(e), **binds)
    c.bindings.update(c.bindings)
    obs, info = e.verify(c, text)
    info["assumed"] = list(e.assumed)
    return c, obs, info


def generate_des(args):
    """worker: one type -> obligations of the deserializer for all its valid shapes and the invalid-input cases"""
    from vk import render
    idx, ns_dir, full_name, version, text, module_rel, cls_path, src_root = args
    try:
        lang = render.language_context("py").get_target_language()
        all_types = _flatten(pydsdl.read_namespace(ns_dir, []))
        types = {str(t): t for t in all_types}
        t = types[f"{full_name}.{version[0]}.{version[1]}"]
        shapes = shapes_of(t, des=True)
        cases = [(sh, None) for sh in shapes]
        seen = set()
        for sh in shapes:  # invalid inputs: the first offending prefix/tag after a valid beginning
            keys = list(sh)
            for i, k in enumerate(keys):
                pre = tuple((q, sh[q]) for q in keys[:i])
                if (pre, k) in seen:
                    continue
                seen.add((pre, k))
                cases.append((dict(pre), k))
        all_obs, infos, skipped = [], [], []
        target = ""
        for sh, inv in cases:
            try:
                c, obs, info = verify_des_shape(lang, t, sh, inv, text, module_rel, cls_path, src_root, all_types)
            except NotInSubset as ex:
                skipped.append(f"{shape_label(sh)}{'!' + inv if inv else ''}: {ex}")
                continue
            except KeyError as ex:  # an invalid-case prefix that is not a prefix of the layout order
                skipped.append(f"{shape_label(sh)}{'!' + inv if inv else ''}: shape key {ex}")
                continue
            target = c.target
            all_obs += obs
            infos.append(info)
        if not infos:
            return idx, "", [], {}, "not in the subset: " + "; ".join(skipped[:3])
        info = {"returns": sum(i.get("returns", 0) for i in infos), "raises": sum(i.get("raises", 0) for i in infos), "trivial": sum(i.get("trivial", 0) for i in infos),
                "shapes": len(infos), "shapes_outside_the_subset": skipped, "assumed": sorted({a for i in infos for a in i.get("assumed", [])})}
        return idx, target, all_obs, info, None
    except NotInSubset as ex:
        return idx, "", [], {}, f"not in the subset: {ex}"
    except Exception as ex:
        import traceback
        return idx, "", [], {}, f"{type(ex).__name__}: {ex} @ {traceback.format_exc()[-400:]}"



# ---------------------------------------------------------------------------------------------------------------------
# case-level jobs (one shape / one invalid-input case per worker task): the shapes of one type are independent proofs
# ---------------------------------------------------------------------------------------------------------------------
def cases_of(t, direction: str, cap: int = 300) -> typing.List[typing.Tuple[dict, typing.Optional[str]]]:
    shapes = shapes_of(t, cap=cap, des=direction == "des")
    cases: typing.List[typing.Tuple[dict, typing.Optional[str]]] = [(sh, None) for sh in shapes]
    if direction == "des":
        seen = set()
        for sh in shapes:  # invalid inputs: the first offending prefix/tag after a valid beginning
            keys = list(sh)
            for i, k in enumerate(keys):
                pre = tuple((q, sh[q]) for q in keys[:i])
                if (pre, k) in seen:
                    continue
                seen.add((pre, k))
                cases.append((dict(pre), k))
    return cases


def generate_case(args):
    """worker: (type index, direction, shape, invalid, ...) -> (type index, target, obligations, info, error kind, error)"""
    from vk import render
    idx, direction, shape, invalid, ns_dir, full_name, version, text, module_rel, cls_path, src_root = args
    try:
        lang = render.language_context("py").get_target_language()
        all_types = _flatten(pydsdl.read_namespace(ns_dir, []))
        t = {str(x): x for x in all_types}[f"{full_name}.{version[0]}.{version[1]}"]
        if direction == "ser":
            c, obs, info = verify_shape(lang, t, shape, text, module_rel, cls_path, src_root, _nested(t))
        else:
            c, obs, info = verify_des_shape(lang, t, shape, invalid, text, module_rel, cls_path, src_root, all_types)
        return idx, c.target, obs, info, None, None
    except NotInSubset as ex:
        return idx, "", [], {}, "outside", f"{shape_label(shape)}{'!' + invalid if invalid else ''}: {ex}"
    except KeyError as ex:
        return idx, "", [], {}, "outside", f"{shape_label(shape)}{'!' + invalid if invalid else ''}: shape key {ex}"
    except Exception as ex:  # OutOfSubset / BindingError: undecided, never a violation
        return idx, "", [], {}, "undecided", f"{shape_label(shape)}{'!' + invalid if invalid else ''}: {type(ex).__name__}: {ex}"

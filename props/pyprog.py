"""Per-program verification of the generated PYTHON serializers (C01, Python leg) with E-PY.

For every corpus type inside the subset below, the REAL generated `_serialize_` method (rendered from the working tree, parsed
from the module text) is executed symbolically against a contract derived from the pydsdl model (not from the template):

    requires  the data-object invariant of `self` (every scalar integer field within its DSDL range -- what the generated
              setters enforce, proved under C18), a byte-aligned serializer whose storage is zero from the cursor on and has
              room for the type's maximum size plus the spill byte (what nunavut_support.serialize() provides);
    ensures   cursor' == cursor + |Enc_T(self)|,   every byte outside the message untouched,
              LE(buffer', B, nbytes) == Enc_T(self) = sum over the fields of cast(field) * 2^bit_offset(field)
              (void and padding bits zero).

Calls into the support library are replaced by the contracts of contracts/c14_py.py (proved for all bit lengths / cursor
positions under C14), nested composites by their own contract (modular).

Subset (anything else => that type is reported as NOT under contract and stays with the bounded differential stand-in):
fixed-size (sealed or delimited-at-top-level) structures whose fields are integers, booleans, voids, fixed-length arrays of
non-byte-multiple integers or booleans serialized element by element, and nested sealed fixed-size structures of the same
kind.  Floats (struct.pack), bulk NumPy array copies, variable-length arrays, unions and nested delimited types are outside.
"""
import ast
import pathlib
import typing

import pydsdl

from contracts import c14_py as KP
from vk import bytestheory, epy
from vk.bytestheory import ARR, NDARRAY, le_sum, stores
from vk.epy import Contract, Loop, SBool, SData, SInt, SObj, VInt, _int_lit, OutOfSubset

MOD = "<generated {}>"


class NotInSubset(Exception):
    pass


def _fixed(t) -> bool:
    bls = t.bit_length_set
    return len(set(bls)) == 1 if hasattr(bls, "__iter__") else bls.fixed_length


def int_array_spec(n: int, lo: int, hi: int):
    return SObj("NPInts", {"arr": SData(ARR), "n": VInt(str(n)), "lo": VInt(epy._lit_term(lo)), "hi": VInt(epy._lit_term(hi))})


def np_range(dt) -> typing.Tuple[int, int]:
    w = 8 if dt.bit_length <= 8 else 16 if dt.bit_length <= 16 else 32 if dt.bit_length <= 32 else 64
    return (-(1 << (w - 1)), (1 << (w - 1)) - 1) if isinstance(dt, pydsdl.SignedIntegerType) else (0, (1 << w) - 1)


FLOAT_DECLS = ["(declare-sort PyFloat 0)", "(declare-fun isfinite (PyFloat) Bool)", "(declare-fun fgt (PyFloat Real) Bool)", "(declare-fun flt (PyFloat Real) Bool)",
               "(declare-fun fbits16 (PyFloat) Int)", "(declare-fun fbits32 (PyFloat) Int)", "(declare-fun fbits64 (PyFloat) Int)",
               "(declare-fun cbits16 (Real) Int)", "(declare-fun cbits32 (Real) Int)", "(declare-fun cbits64 (Real) Int)"]
FLT_MAX = {16: "65504.0", 32: "340282346638528859811704183484516925440.0"}


def shapes_of(t, cap: int = 300) -> typing.List[dict]:
    """every combination of variable-length array lengths (0..capacity) and union options of the type: the per-shape
    contracts together cover every object of the type (covering obligation: the shape dimensions are exhaustive by
    construction; the generated length asserts and the union's else branch are part of each shape's proof)"""
    def prod(a, b):
        out = [dict(x, **y) for x in a for y in b]
        if len(out) > cap:
            raise NotInSubset(f"more than {cap} shapes")
        return out

    def of_type(dt, path: str) -> typing.List[dict]:
        if isinstance(dt, pydsdl.PrimitiveType) or isinstance(dt, pydsdl.VoidType):
            return [{}]
        if isinstance(dt, pydsdl.ArrayType):
            lens = [dt.capacity] if isinstance(dt, pydsdl.FixedLengthArrayType) else list(range(dt.capacity + 1))
            out = []
            for ln in lens:
                acc = [{path: ln}] if isinstance(dt, pydsdl.VariableLengthArrayType) else [{}]
                if isinstance(dt.element_type, pydsdl.CompositeType):
                    for k in range(ln):
                        acc = prod(acc, of_type(dt.element_type, f"{path}[{k}]"))
                out += acc
                if len(out) > cap:
                    raise NotInSubset(f"more than {cap} shapes")
            return out
        if isinstance(dt, pydsdl.CompositeType):
            return of_comp(dt, path)
        raise NotInSubset(str(dt))

    def of_comp(ct, path: str) -> typing.List[dict]:
        inner = ct.inner_type
        if isinstance(inner, pydsdl.UnionType):
            out = []
            for k, f in enumerate(inner.fields):
                out += prod([{path + "#tag": k}], of_type(f.data_type, f"{path}.{f.name}"))
            return out
        acc = [{}]
        for f in inner.fields_except_padding:
            acc = prod(acc, of_type(f.data_type, f"{path}.{f.name}"))
        return acc

    return of_comp(t, "self")


class TypePlan:
    """object spec, data-object invariant and Enc_T as an SMT template over contract expressions, for ONE shape, computed
    from the pydsdl model by a layout walk written from the specification (alignment, padding, length prefixes, tags)"""

    def __init__(self, lang, t, shape: dict, root: str = "self"):
        self.lang, self.t, self.shape = lang, t, shape
        self.invariant: typing.List[str] = []
        self.args: typing.List[str] = []
        self.terms: typing.List[str] = []
        self.uses_float = False
        self.off = 0
        self.fields = self._comp(t, root, root)
        self.bits = self.off

    def _arg(self, expr: str) -> str:
        if expr not in self.args:
            self.args.append(expr)
        return "{" + str(self.args.index(expr)) + "}"

    def _emit(self, k: int, value: str):
        self.terms.append(f"(* {2 ** self.off} {value})" if self.off else value)
        self.off += k

    def _align(self, a: int):
        self.off += -self.off % a

    def _int_value(self, dt, ref: str) -> str:
        k = dt.bit_length
        lo, hi = int(dt.inclusive_value_range.min), int(dt.inclusive_value_range.max)
        if dt.cast_mode == dt.CastMode.SATURATED:
            ref = f"(ite (< {ref} {epy._lit_term(lo)}) {epy._lit_term(lo)} (ite (> {ref} {hi}) {hi} {ref}))"
        return f"(mod {ref} {2 ** k})"

    def _scalar(self, dt, ref: str):
        """-> sort spec of the attribute; emits the field's bits"""
        if isinstance(dt, pydsdl.BooleanType):
            self._emit(1, f"(ite {self._arg(ref)} 1 0)")
            return SBool
        if isinstance(dt, pydsdl.IntegerType):
            lo, hi = int(dt.inclusive_value_range.min), int(dt.inclusive_value_range.max)
            self.invariant.append(f"{lo} <= {ref} and {ref} <= {hi}")
            self._emit(dt.bit_length, self._int_value(dt, self._arg(ref)))
            return SInt
        if isinstance(dt, pydsdl.FloatType):
            self.uses_float = True
            w = dt.bit_length
            a = self._arg(ref)
            if w < 64:  # what the generated setter admits: non-finite, or within the finite range of the type
                self.invariant.append(f"smt('Bool', '(=> (isfinite {{0}}) (and (not (fgt {{0}} {FLT_MAX[w]})) (not (flt {{0}} (- {FLT_MAX[w]})))))', {ref})")
            self.invariant.append(f"smt('Bool', '(and (<= 0 (fbits{w} {{0}})) (< (fbits{w} {{0}}) {2 ** w}))', {ref})")  # struct.pack yields w bits
            self._emit(w, f"(fbits{w} {a})")
            return SData("PyFloat")
        raise NotInSubset(str(dt))

    def _array(self, dt, ref: str, path: str):
        et = dt.element_type
        fixed = isinstance(dt, pydsdl.FixedLengthArrayType)
        n = dt.capacity if fixed else self.shape[path]
        if not fixed:
            self._emit(dt.length_field_type.bit_length, str(n))
        if isinstance(et, pydsdl.CompositeType):
            items = []
            for k in range(n):
                self._align(et.alignment_requirement)
                items.append(self._comp(et, f"{ref}[{k}]", f"{path}[{k}]"))
            return ("objs", items)
        if isinstance(et, pydsdl.BooleanType):
            lo, hi, w = 0, 1, 1
        elif isinstance(et, pydsdl.FloatType):
            lo, hi, w = 0, 2 ** et.bit_length - 1, et.bit_length  # elements of a NumPy float array: their IEEE patterns, copied bit for bit
        else:
            lo, hi = np_range(et)
            w = 8 if et.bit_length <= 8 else 16 if et.bit_length <= 16 else 32 if et.bit_length <= 32 else 64
        arr = self._arg(ref + ".arr")
        for i in range(n):
            self.invariant.append(f"smt('Bool', '(and (<= {epy._lit_term(lo)} (select {{0}} {i})) (<= (select {{0}} {i}) {hi}))', {ref}.arr)")
            el = f"(select {arr} {i})"
            if isinstance(et, (pydsdl.BooleanType, pydsdl.FloatType)):
                self._emit(et.bit_length, el)
            else:
                self._emit(et.bit_length, self._int_value(et, el))
        return SObj("NPInts", {"arr": SData(ARR), "n": VInt(str(n)), "lo": VInt(epy._lit_term(lo)), "hi": VInt(str(hi)), "w": VInt(str(w))})

    def _comp(self, ct, ref: str, path: str):
        inner = ct.inner_type
        if isinstance(ct, pydsdl.DelimitedType) and ref != "self":
            raise NotInSubset("nested delimited type (fork_bytes shares storage between two serializers)")
        fields: typing.Dict[str, typing.Any] = {}
        cls = self.lang.filter_short_reference_name(ct) if not getattr(ct, "has_parent_service", False) else ct.short_name
        if isinstance(inner, pydsdl.UnionType):
            k = self.shape[path + "#tag"]
            self._emit(inner.tag_field_type.bit_length, str(k))
            for i, f in enumerate(inner.fields):
                a = self.lang.filter_id(f.name, "any")
                if i != k:
                    fields[a] = epy.NONE
                    continue
                self._align(f.data_type.alignment_requirement)
                fields[a] = self._field(f.data_type, f"{ref}.{a}", f"{path}.{f.name}")
        else:
            for f in inner.fields:
                dt = f.data_type
                self._align(dt.alignment_requirement)
                if isinstance(f, pydsdl.PaddingField) or isinstance(dt, pydsdl.VoidType):
                    self.off += dt.bit_length
                    continue
                a = self.lang.filter_id(f.name, "any")
                fields[a] = self._field(dt, f"{ref}.{a}", f"{path}.{f.name}")
        self._align(8)
        return SObj(cls, fields)

    def _field(self, dt, ref: str, path: str):
        if isinstance(dt, pydsdl.PrimitiveType):
            return self._scalar(dt, ref)
        if isinstance(dt, pydsdl.ArrayType):
            r = self._array(dt, ref, path)
            if isinstance(r, tuple):
                items = r[1]
                return lambda ctx, hint, items=items: epy.VList([ctx.make(x, f"{hint}[{i}]") for i, x in enumerate(items)])
            return r
        if isinstance(dt, pydsdl.CompositeType):
            self._align(dt.alignment_requirement)
            return self._comp(dt, ref, path)
        raise NotInSubset(str(dt))

    @property
    def nbytes(self) -> int:
        return (self.bits + 7) // 8

    def enc(self) -> str:
        return "0" if not self.terms else (self.terms[0] if len(self.terms) == 1 else "(+ " + " ".join(self.terms) + ")")


def shape_label(shape: dict) -> str:
    return "" if not shape else "{" + ",".join(f"{k[5:] if k.startswith('self.') else k}={v}" for k, v in sorted(shape.items())) + "}"


def serializer_spec():
    return SObj("Serializer", {"_buf": NDARRAY, "_bit_offset": KP.cursor(0)})


def serialize_contract(lang, t, module_rel: str, cls_path: str, shape: typing.Optional[dict] = None, plan: typing.Optional[TypePlan] = None) -> Contract:
    p = plan or TypePlan(lang, t, shape or {})
    nb = p.nbytes
    m = nb + 1 if nb else 0
    B = "old(_ser_._bit_offset) // 8"
    pre = list(p.invariant) + ["_ser_._bit_offset >= 0", f"smt('Bool', '(<= (+ {{0}} {m}) {{1}})', _ser_._bit_offset // 8, _ser_._buf.n)"]
    for j in range(m):
        pre.append(f"smt('Bool', '(= (select {{0}} (+ {{1}} {j})) 0)', _ser_._buf.arr, _ser_._bit_offset // 8)")
    n_args = len(p.args)
    enc = p.enc()
    # template indexes: {0..n_args-1} the object's fields, then new array, B, old array
    iN, iB, iO = n_args, n_args + 1, n_args + 2
    ens = [("cursor-advances-by-the-encoded-length", f"_ser_._bit_offset == old(_ser_._bit_offset) + {8 * nb}"),
           ("buffer-length-unchanged", "_ser_._buf.n == old(_ser_._buf.n)")]
    arglist = ", ".join(p.args + ["_ser_._buf.arr", B, "old(_ser_._buf.arr)"])
    if m:
        fr = stores("{" + str(iO) + "}", "{" + str(iN) + "}", "{" + str(iB) + "}", m)
        ens.append(("every-byte-outside-the-message-is-untouched", f"smt('Bool', '{fr}', {arglist})"))
        ens.append(("message-bytes-are-bytes", "smt('Bool', '(and " + " ".join(f"(<= 0 (select {{0}} (+ {{1}} {j}))) (<= (select {{0}} (+ {{1}} {j})) 255)" for j in range(m)) + f")', _ser_._buf.arr, {B})"))
        ens.append(("message-bytes-are-exactly-the-specified-encoding", f"smt('Bool', '(= {le_sum('{' + str(iN) + '}', '{' + str(iB) + '}', m)} {enc})', {arglist})"))
    else:
        ens.append(("buffer-untouched", "smt('Bool', '(= {0} {1})', _ser_._buf.arr, old(_ser_._buf.arr))"))
    c = Contract(target=f"{MOD.format(module_rel)}:{cls_path}._serialize_", params={"self": p.fields, "_ser_": serializer_spec()},
                 requires=pre, ensures=ens, modifies=["_ser_._bit_offset", "_ser_._buf.arr"], label=str(t) + shape_label(p.shape), decls=list(FLOAT_DECLS) if p.uses_float else [])
    c.after_call = None  # type: ignore

    def after(it):  # callee-side bookkeeping for nested calls: the cursor keeps its 8*B + r form
        o = it.ctx.env["_ser_"]
        old = it.ctx.old_heap[o.ref]["_bit_offset"]
        it.ctx.set_field(o, "_bit_offset", it.binop(ast.Add(), old, VInt(str(8 * nb))))
    c.after_call = after  # type: ignore
    c.meta = {"bits": p.bits, "nbytes": nb}  # type: ignore
    return c


# ---------------------------------------------------------------------------------------------------------------------
# support-library contract families as callees (selected by the receiver's cursor position and the literal bit length)
# ---------------------------------------------------------------------------------------------------------------------
def _lit_arg(v, what: str) -> int:
    k = _int_lit(v.t) if isinstance(v, VInt) else None
    if k is None:
        raise OutOfSubset(f"{what} is not a literal")
    return k


def install_serializer_callees(e) -> None:
    S = "Serializer."
    r_of = KP._r_of

    def misaligned(name: str, params) -> Contract:
        """an aligned primitive reached with the cursor off a byte boundary: its leading `assert self._bit_offset % 8 == 0`
        fires (Python assertions are always generated)"""
        return Contract(target=f"<generated nunavut_support.py>:Serializer.{name}", params=params, raises=[epy.Raises("AssertionError", "True")], ensures=[])

    def sel_aau(it, a, kw):
        if r_of(it, a[0]) != 0:
            return misaligned("add_aligned_unsigned", {"self": SObj("Serializer", {}), "value": SInt, "bit_length": SInt})
        return KP.add_aligned_unsigned(_lit_arg(a[2], "bit_length"))

    def sel_aas(it, a, kw):
        if r_of(it, a[0]) != 0:
            return misaligned("add_aligned_signed", {"self": SObj("Serializer", {}), "value": SInt, "bit_length": SInt})
        return KP.add_aligned_signed(_lit_arg(a[2], "bit_length"))

    def need_aligned(it, a):
        return r_of(it, a[0]) == 0

    e.contracts[S + "add_aligned_unsigned"] = sel_aau
    e.contracts[S + "add_aligned_signed"] = sel_aas
    e.contracts[S + "add_unaligned_unsigned"] = lambda it, a, kw: KP.add_unaligned_unsigned(r_of(it, a[0]), _lit_arg(a[2], "bit_length"))
    e.contracts[S + "add_unaligned_signed"] = lambda it, a, kw: KP.add_unaligned_signed(r_of(it, a[0]), _lit_arg(a[2], "bit_length"))
    e.contracts[S + "add_unaligned_bit"] = KP.select_add_unaligned_bit
    for w in (8, 16, 32, 64):
        e.contracts[S + f"add_aligned_u{w}"] = (lambda w: lambda it, a, kw: KP.add_aligned_u(w) if need_aligned(it, a) else misaligned(f"add_aligned_u{w}", {"self": SObj("Serializer", {}), "x": SInt}))(w)
        e.contracts[S + f"add_aligned_i{w}"] = (lambda w: lambda it, a, kw: KP.add_aligned_i(w) if need_aligned(it, a) else misaligned(f"add_aligned_i{w}", {"self": SObj("Serializer", {}), "x": SInt}))(w)
    def sel_bulk(name: str, aligned: bool, bits: bool):
        def sel(it, a, kw):
            from vk.epy import VObj
            r = r_of(it, a[0])
            x = a[1]
            if not (isinstance(x, VObj) and x.cls == "NPInts"):
                raise OutOfSubset(f"{name}: argument is not a NumPy array of the object")
            n = _lit_arg(it.ctx.get_field(x, "n"), "array length")
            w = 1 if bits else _lit_arg(it.ctx.get_field(x, "w"), "element width")
            if aligned and r != 0:
                return misaligned(name, {"self": SObj("Serializer", {}), "x": SObj("NPInts", {})})
            k = n * w
            nbytes = (k + 7) // 8
            m = (nbytes if aligned else nbytes + 1) if n else 0
            terms = [f"(* {2 ** (w * i)} (mod (select {{3}} {i}) {2 ** w}))" for i in range(n)]
            val = "0" if not terms else (terms[0] if n == 1 else "(+ " + " ".join(terms) + ")")
            return bulk_contract(name, r, k, m, val, ", x.arr")
        return sel

    e.contracts[S + "add_aligned_array_of_standard_bit_length_primitives"] = sel_bulk("add_aligned_array_of_standard_bit_length_primitives", True, False)
    e.contracts[S + "add_unaligned_array_of_standard_bit_length_primitives"] = sel_bulk("add_unaligned_array_of_standard_bit_length_primitives", False, False)
    e.contracts[S + "add_aligned_array_of_bits"] = sel_bulk("add_aligned_array_of_bits", True, True)
    e.contracts[S + "add_unaligned_array_of_bits"] = sel_bulk("add_unaligned_array_of_bits", False, True)

    def sel_float(name: str, w: int, aligned: bool):
        def sel(it, a, kw):
            from vk.epy import VData
            r = r_of(it, a[0])
            if aligned and r != 0:
                return misaligned(name, {"self": SObj("Serializer", {}), "x": SData("PyFloat")})
            return float_contract(name, r, w, isinstance(a[1], VData) and a[1].kind == "PyFloatConst")
        return sel

    for w in (16, 32, 64):
        e.contracts[S + f"add_aligned_f{w}"] = sel_float(f"add_aligned_f{w}", w, True)
        e.contracts[S + f"add_unaligned_f{w}"] = sel_float(f"add_unaligned_f{w}", w, False)
    e.contracts[S + "skip_bits"] = lambda it, a, kw: _skip(r_of(it, a[0]), _lit_arg(a[1], "skip_bits argument"))
    e.contracts[S + "pad_to_alignment"] = lambda it, a, kw: _pad(it, a)
    e.attr_hooks["Serializer.current_bit_length"] = lambda it, o: it.ctx.get_field(o, "_bit_offset")


def _skip(r: int, k: int) -> Contract:
    c = KP.skip_bits_ser(r)
    c.after_call = KP.advance_cursor(k)  # type: ignore
    return c


def _pad(it, a) -> Contract:
    if _lit_arg(a[1], "alignment") != 8:
        raise OutOfSubset("pad_to_alignment with an alignment other than 8")
    return KP.pad_to_alignment_ser(KP._r_of(it, a[0]))


def float_theory(e) -> None:
    """Python floats held by the generated objects are an abstract sort: the generated code only tests them (isfinite,
    comparison with the type's finite range) and hands them to struct.pack through add_*_f16/32/64, whose result is the
    ASSUMED function fbitsW (value) / cbitsW (literal constant)"""
    from vk.epy import VBool, VData
    from fractions import Fraction

    def const(it, v: float):
        fr = Fraction(v)
        return VData("PyFloatConst", f"(/ {fr.numerator}.0 {fr.denominator}.0)" if fr >= 0 else f"(- (/ {-fr.numerator}.0 {fr.denominator}.0))")

    e.intrinsics["float-constant"] = const

    def cmp(it, op, a, b):
        if isinstance(a, VData) and a.kind == "PyFloat" and isinstance(b, VData) and b.kind == "PyFloatConst":
            if isinstance(op, ast.Gt):
                return VBool(f"(fgt {a.t} {b.t})")
            if isinstance(op, ast.Lt):
                return VBool(f"(flt {a.t} {b.t})")
        raise OutOfSubset("float comparison")

    e.binop_hooks["cmp:PyFloat"] = cmp

    def neg(it, a):
        return VData("PyFloatConst", f"(- {a.t})")
    e.intrinsics["neg:PyFloatConst"] = neg


def shape_from_obj(it, lang, ct, obj, path: str = "self") -> dict:
    """the shape (array lengths, union options) of a symbolic object whose dimensions are literals"""
    from vk.epy import VList, VNone, VObj
    out: dict = {}
    inner = ct.inner_type
    flds = list(inner.fields) if isinstance(inner, pydsdl.UnionType) else list(inner.fields_except_padding)
    for i, f in enumerate(flds):
        a = lang.filter_id(f.name, "any")
        v = it.ctx.get_field(obj, a)
        if isinstance(inner, pydsdl.UnionType):
            if isinstance(v, VNone):
                continue
            out[path + "#tag"] = i
        dt = f.data_type
        p = f"{path}.{f.name}"
        if isinstance(dt, pydsdl.VariableLengthArrayType):
            n = len(v.items) if isinstance(v, VList) else _int_lit(it.ctx.get_field(v, "n").t)
            if n is None:
                raise OutOfSubset("array of symbolic length")
            out[p] = n
        if isinstance(dt, pydsdl.ArrayType) and isinstance(dt.element_type, pydsdl.CompositeType):
            for k, x in enumerate(v.items):
                out.update(shape_from_obj(it, lang, dt.element_type, x, f"{p}[{k}]"))
        elif isinstance(dt, pydsdl.CompositeType):
            out.update(shape_from_obj(it, lang, dt, v, p))
    return out


def rebase_shape(shape: dict, prefix: str) -> dict:
    return {"self" + k[len(prefix):]: v for k, v in shape.items() if k.startswith(prefix)}


def bulk_contract(name: str, r: int, k: int, m: int, value_term: str, value_args: str) -> Contract:
    """ASSUMED contracts of the NumPy-based array primitives (x.view(Byte), numpy.packbits): they put the elements' bits at
    the cursor like any other primitive; their bodies are library calls, exercised by the bounded stand-in of C14"""
    c = Contract(target=f"<generated nunavut_support.py>:Serializer.{name}", params={"self": KP.ser_obj(r), "x": SObj("NPInts", {"arr": SData(ARR), "n": SInt, "lo": SInt, "hi": SInt, "w": SInt})},
                 requires=KP.ser_pre(r, m), ensures=KP.ser_post(r, k, m, value_term, value_args), modifies=["self._bit_offset", "self._buf.arr"], note="assumed")
    c.after_call = KP.advance_cursor(k)  # type: ignore
    return c


def float_contract(name: str, r: int, w: int, const: bool) -> Contract:
    """ASSUMED: add_*_fW writes struct.pack('<e|f|d', x) -- W bits that are a function of x -- at the cursor"""
    nb = w // 8
    m = nb if name.startswith("add_aligned") else nb + 1
    c = Contract(target=f"<generated nunavut_support.py>:Serializer.{name}", params={"self": KP.ser_obj(r), "x": SData("PyFloatConst" if const else "PyFloat")},
                 requires=KP.ser_pre(r, m) + ([] if const else [f"smt('Bool', '(and (<= 0 (fbits{w} {{0}})) (< (fbits{w} {{0}}) {2 ** w}))', x)"]),
                 ensures=KP.ser_post(r, w, m, f"({'cbits' if const else 'fbits'}{w} {{3}})", ", x"), modifies=["self._bit_offset", "self._buf.arr"], note="assumed", decls=list(FLOAT_DECLS))
    c.after_call = KP.advance_cursor(w)  # type: ignore
    return c


def np_ints_theory(e) -> None:
    """NumPy integer arrays held by the generated objects: NPInts{arr, n, lo, hi}; a load is within the element type's range"""
    from vk.epy import PyRaise, VBool, VObj
    from vk.smt import And, Or, app

    def load(it, o, k):
        n = it.ctx.get_field(o, "n").t
        if it.ctx.branch(VBool(Or(app("<", k.t, "0"), app(">=", k.t, n))), "array-index-out-of-range"):
            raise PyRaise("IndexError")
        sel = app("select", it.ctx.get_field(o, "arr").t, k.t)
        it.ctx.assume(And(app("<=", it.ctx.get_field(o, "lo").t, sel), app("<=", sel, it.ctx.get_field(o, "hi").t)))
        return VInt(sel)

    e.subscript_hooks["NPInts"] = load
    e.intrinsics["len:NPInts"] = lambda it, o: it.ctx.get_field(o, "n")

    def unroll(it, o):
        n = _int_lit(it.ctx.get_field(o, "n").t)
        return None if n is None else [load(it, o, VInt(str(i))) for i in range(n)]

    e.intrinsics["unroll:NPInts"] = unroll


def verify_shape(lang, t, shape, text, module_rel, cls_path, src_root, nested_types):
    c = serialize_contract(lang, t, module_rel, cls_path, shape)
    fn = epy.find_function_in_text(text, f"{cls_path}._serialize_", module_rel)
    c.loops = {i: Loop(unroll=True) for i in range(len(epy.loops_in(fn)))}  # every loop runs over an array of literal length
    e = epy.Engine(pathlib.Path(src_root))
    bytestheory.install(e)
    KP.byte_offset_attr(e)
    np_ints_theory(e)
    float_theory(e)
    e.ghost_classes = set()
    install_serializer_callees(e)
    for dep in nested_types:  # nested composites: their own contract for the shape the receiver object has
        dcls = lang.filter_short_reference_name(dep)

        def sel(it, a, kw, dep=dep, dcls=dcls):
            sh = shape_from_obj(it, lang, dep, a[0])
            return serialize_contract(lang, dep, "nested", dcls, sh)
        e.contracts[f"{dcls}._serialize_"] = sel
    c.bindings = dict(KP.np_binding(e), **c.bindings)
    c.bindings["_np_"] = epy.VConst({"isfinite": epy.VConst(lambda it, x: epy.VBool(f"(isfinite {x.t})") if getattr(x, "kind", "") == "PyFloat" else epy.VBool("true"))})
    obs, info = e.verify(c, text)
    info["assumed"] = list(e.assumed)
    return c, obs, info


def generate(args):
    """worker: one type -> obligations of all its shapes"""
    from vk import render
    idx, ns_dir, full_name, version, text, module_rel, cls_path, src_root = args
    try:
        lang = render.language_context("py").get_target_language()
        types = {str(t): t for t in _flatten(pydsdl.read_namespace(ns_dir, []))}
        t = types[f"{full_name}.{version[0]}.{version[1]}"]
        shapes = shapes_of(t)
        nested = _nested(t)
        all_obs, infos, skipped = [], [], []
        target = ""
        for sh in shapes:
            try:
                c, obs, info = verify_shape(lang, t, sh, text, module_rel, cls_path, src_root, nested)
            except NotInSubset as ex:
                skipped.append(f"{shape_label(sh)}: {ex}")
                continue
            target = c.target
            all_obs += obs
            infos.append(info)
        if not infos:
            return idx, "", [], {}, "not in the subset: " + "; ".join(skipped[:3])
        info = {"returns": sum(i.get("returns", 0) for i in infos), "raises": sum(i.get("raises", 0) for i in infos), "trivial": sum(i.get("trivial", 0) for i in infos),
                "shapes": len(infos), "shapes_outside_the_subset": skipped, "assumed": sorted({a for i in infos for a in i.get("assumed", [])})}
        return idx, target, all_obs, info, None
    except NotInSubset as ex:
        return idx, "", [], {}, f"not in the subset: {ex}"
    except Exception as ex:  # OutOfSubset / BindingError: undecided, never a violation
        return idx, "", [], {}, f"{type(ex).__name__}: {ex}"


def _flatten(types):
    out = []
    for t in types:
        out += [t.request_type, t.response_type] if isinstance(t, pydsdl.ServiceType) else [t]
    return out


def _nested(t, seen=None):
    seen = seen if seen is not None else {}
    for f in t.inner_type.fields_except_padding:
        dt = f.data_type
        while isinstance(dt, pydsdl.ArrayType):
            dt = dt.element_type
        if isinstance(dt, pydsdl.CompositeType) and str(dt) not in seen:
            seen[str(dt)] = dt
            _nested(dt, seen)
    return list(seen.values())

#!/venv/bin/python
"""Run the pinned suite on /repo (or $1) and compare with BASELINE.json's stable_pass list."""
import json, subprocess, sys, tempfile, os, xml.etree.ElementTree as ET
repo = sys.argv[1] if len(sys.argv) > 1 else "/repo"
base = json.load(open("/root/.vp/BASELINE.json"))
with tempfile.TemporaryDirectory() as d:
    out = os.path.join(d, "j.xml")
    p = subprocess.run(["/venv/bin/python", "-m", "pytest", "-ra", "-q", "-p", "no:cacheprovider", "--timeout=900",
                        "--continue-on-collection-errors", f"--junitxml={out}"], cwd=repo, capture_output=True, text=True,
                       env=dict(os.environ, PYTHONDONTWRITEBYTECODE="1", PYTHONPATH=os.path.join(repo, "src")))
    passed = set()
    for tc in ET.parse(out).getroot().iter("testcase"):
        if not any(ch.tag in ("failure", "error", "skipped") for ch in tc):
            passed.add(f"{tc.get('classname')}::{tc.get('name')}")
missing = [t for t in base["stable_pass"] if t not in passed]
print(f"passed={len(passed)} stable_pass={len(base['stable_pass'])} missing_from_stable={len(missing)}")
for m in missing[:40]:
    print("  MISSING", m)
sys.exit(1 if missing else 0)

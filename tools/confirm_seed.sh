#!/bin/bash
# usage: tools/confirm_seed.sh <dir with patch.diff and demo.py>  -> prints demo_clean=<rc> demo_patched=<rc> suite=<ok|FAIL>
# The stored demo is never modified: a copy with the scratch worktree's path substituted is run.
dir="$(realpath "$1")"
d=$(mktemp -d /tmp/vk_seed.XXXXXX)
git -C /repo worktree add --detach -f "$d/repo" HEAD >/dev/null 2>&1
src=$(ls "$dir"/demo.* | head -1)
demo="$d/$(basename "$src")"
D="$d" perl -pe 's#/tmp/mut_(?!out)[A-Za-z0-9_]+#$ENV{D}/repo#g; s#/tmp/mw_[A-Za-z0-9_]+#$ENV{D}/repo#g; s#/tmp/npvenv#/verif/.venv#g' "$src" > "$demo"
/verif/tools/ensure_venv.sh >/dev/null 2>&1
case "$demo" in *.sh) interp=bash;; *) interp=/verif/.venv/bin/python;; esac
run_demo() { (cd "$d/repo" && PYTHONPATH="$d/repo/src" REPO_ROOT="$d/repo" REPO="$d/repo" PATH="/verif/.venv/bin:$PATH" timeout 600 $interp "$demo" >/dev/null 2>&1; echo $?); }
c=$(run_demo)
git -C "$d/repo" apply "$dir/patch.diff" || echo "PATCH FAILED"
p=$(run_demo)
if /verif/tools/baseline.py "$d/repo" >/"$d"/suite.log 2>&1; then s=ok; else s=FAIL; tail -5 "$d/suite.log"; fi
echo "$(basename $dir): demo_clean=$c demo_patched=$p suite=$s"
git -C /repo worktree remove --force "$d/repo"; rm -rf "$d"

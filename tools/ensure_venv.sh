#!/bin/bash
# Builds (idempotently) the overlay interpreter /verif/.venv: Python 3.12 of /venv + NumPy from the offline wheelhouse,
# with /venv's site-packages (pydsdl, PyYAML, the repo's dev install) visible through a .pth file.
# Needed to *execute* generated Python (nunavut_support.py imports numpy); nothing is fetched from a network.
set -e
V=/verif/.venv
if [ -x "$V/bin/python" ] && "$V/bin/python" -c "import numpy, pydsdl, yaml" 2>/dev/null; then exit 0; fi
rm -rf "$V"
/venv/bin/python -m venv "$V"
PIP_NO_INDEX=1 "$V/bin/python" -m pip install -q --no-index --find-links /opt/veriftools/wheels numpy >/dev/null
sp=$("$V/bin/python" -c "import site; print(site.getsitepackages()[0])")
echo "import site; site.addsitedir('/venv/lib/python3.12/site-packages')" > "$sp/verif_overlay.pth"
"$V/bin/python" -c "import numpy, pydsdl, yaml; print('overlay venv ok: numpy', numpy.__version__)"

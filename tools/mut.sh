#!/bin/bash
# usage: tools/mut.sh <file-relative-to-repo> <python-regex> <replacement> <ID>...  : apply one textual mutation in a scratch copy and run checks
f="$1"; pat="$2"; rep="$3"; shift 3
d=$(mktemp -d /tmp/vk_mut.XXXXXX)
git -C /repo worktree add --detach -f "$d/repo" HEAD >/dev/null 2>&1
python3 - "$d/repo/$f" "$pat" "$rep" <<'PY'
import re,sys
p,pat,rep=sys.argv[1:4]
s=open(p).read()
n=len(re.findall(pat,s))
if n!=1: print(f"MUTATION PATTERN MATCHES {n} TIMES"); 
s2=re.sub(pat,rep,s,count=1)
open(p,'w').write(s2)
PY
git -C "$d/repo" diff | grep '^[-+]' | grep -v '^+++\|^---'
for id in "$@"; do
  VK_REPO="$d/repo" VK_SCRATCH=1 VK_EVIDENCE_DIR="$d/evidence" VK_REPLAY_DIR="$d/replay" /verif/check "$id" | grep -E "VIOLATION|KNOWN|UNDECIDED|CRASH|^\[" | cut -c1-300
  echo "== $id exit=${PIPESTATUS[0]}"
done
git -C /repo worktree remove --force "$d/repo"; rm -rf "$d"

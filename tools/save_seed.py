#!/venv/bin/python
"""usage: tools/save_seed.py <src dir> <seed id e.g. C07-1> <check IDs...>
Copies patch.diff/demo.py/notes.txt to /verif/seeded/<id>/, confirms the seed in a scratch
worktree (tools/confirm_seed.sh), runs the named checks against it (tools/with_patch.sh) and
writes meta.json.  Nothing is applied to /repo."""
import json
import pathlib
import re
import shutil
import subprocess
import sys

if sys.argv[1] == "--recheck":  # tools/save_seed.py --recheck <seed id> <check IDs...>: rerun the checks only, update meta.json
    sid, checks = sys.argv[2], sys.argv[3:]
    dst = pathlib.Path("/verif/seeded") / sid
    meta = json.loads((dst / "meta.json").read_text())
    res = subprocess.run(["/verif/tools/with_patch.sh", str(dst / "patch.diff"), *checks], capture_output=True, text=True)
    lines = [l for l in res.stdout.splitlines() if l.strip()]
    exits = {mm.group(1): int(mm.group(2)) for mm in (re.match(r"== (\S+) exit=(\d+)", l) for l in lines) if mm}
    viol = [l[:300] for l in lines if l.startswith("VIOLATION")][:6]
    prev = meta.get("check_result", {})
    meta.setdefault("history", []).append({"exit": prev.get("exit"), "caught": prev.get("caught")})
    meta["check_result"] = {"cmd": f"tools/with_patch.sh seeded/{sid}/patch.diff " + " ".join(checks), "exit": exits, "violations": viol,
                            "caught": any(v == 1 for v in exits.values())}
    (dst / "meta.json").write_text(json.dumps(meta, indent=1) + "\n")
    print(sid, exits, "CAUGHT" if meta["check_result"]["caught"] else "missed")
    for v in viol[:2]:
        print("   ", v[:220])
    sys.exit(0)
src, sid, checks = pathlib.Path(sys.argv[1]), sys.argv[2], sys.argv[3:]
dst = pathlib.Path("/verif/seeded") / sid
dst.mkdir(parents=True, exist_ok=True)
for f in ([] if src.resolve() == dst.resolve() else src.iterdir()):  # src == dst: re-confirm a stored (e.g. rebased) seed
    if f.is_file() and f.stat().st_size < 400_000 and f.name in ("patch.diff", "notes.txt") or f.name.startswith("demo"):
        if f.is_file():
            shutil.copy(f, dst / f.name)
conf = subprocess.run(["/verif/tools/confirm_seed.sh", str(dst)], capture_output=True, text=True).stdout.strip()
m = re.search(r"demo_clean=(\d+) demo_patched=(\d+) suite=(\w+)", conf)
res = subprocess.run(["/verif/tools/with_patch.sh", str(dst / "patch.diff"), *checks], capture_output=True, text=True)
lines = [l for l in res.stdout.splitlines() if l.strip()]
exits = {mm.group(1): int(mm.group(2)) for mm in (re.match(r"== (\S+) exit=(\d+)", l) for l in lines) if mm}
viol = [l[:300] for l in lines if l.startswith("VIOLATION")][:6]
meta = {
    "id": sid,
    "property": sid.split("-")[0],
    "origin": "independent sub-agent given only the property text and a scratch worktree",
    "notes": (dst / "notes.txt").read_text() if (dst / "notes.txt").exists() else "",
    "confirmed": {
        "how": f"tools/confirm_seed.sh seeded/{sid}",
        "demo_on_clean_tree": f"exit {m.group(1)}" if m else conf,
        "demo_on_patched_tree": f"exit {m.group(2)}" if m else conf,
        "pinned_suite_on_patched_tree": ("415/415 stable tests pass" if m and m.group(3) == "ok" else "FAIL: " + conf),
    },
    "check_result": {
        "cmd": f"tools/with_patch.sh seeded/{sid}/patch.diff " + " ".join(checks),
        "exit": exits,
        "violations": viol,
        "caught": any(v == 1 for v in exits.values()),
    },
}
(dst / "meta.json").write_text(json.dumps(meta, indent=1) + "\n")
print(sid, conf, exits, "CAUGHT" if meta["check_result"]["caught"] else "missed")
for v in viol[:3]:
    print("   ", v[:200])

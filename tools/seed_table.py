#!/usr/bin/env python3
"""Regenerates seeded/README.md from seeded/*/meta.json: one line per seeded change with the last recorded result of the
checks it was run against (tools/save_seed.py writes those records; nothing here runs a check)."""
import glob
import json
import pathlib
import re

rows = []
for f in sorted(glob.glob("/verif/seeded/*/meta.json"), key=lambda p: (re.sub(r"-\d+/meta.json$", "", p), int(re.search(r"-(\d+)/meta.json$", p).group(1)))):
    m = json.load(open(f))
    cr = m.get("check_result", {})
    ex = cr.get("exit")
    if isinstance(ex, dict):
        res = ", ".join(f"{k}: {'VIOLATION' if v == 1 else 'undecided' if v == 2 else 'quiet' if v == 0 else v}" for k, v in sorted(ex.items()))
        caught = any(v == 1 for v in ex.values())
    else:
        res = f"{m['property']}: {'VIOLATION' if ex == 1 else ex}"
        caught = ex == 1
    first = (m.get("notes") or "").strip().splitlines()[0][:150] if m.get("notes") else ""
    rows.append((m["id"], "caught" if caught else "MISSED", res, (m.get("status_note") or first).replace("|", "/")))
out = ["# Seeded property-breaking changes", "",
       "Produced by independent sub-agents that were given only a property's text and a scratch worktree; each was confirmed",
       "with `tools/confirm_seed.sh` (demo passes on the clean tree, fails with the patch, pinned suite unchanged).",
       "`tools/with_patch.sh seeded/<id>/patch.diff <check ids>` reproduces a row.  Results below are the last recorded runs.", "",
       f"{len(rows)} changes, {sum(1 for r in rows if r[1] == 'caught')} caught.", "",
       "| id | result | checks | what |", "|----|--------|--------|------|"]
out += [f"| {a} | {b} | {c} | {d} |" for a, b, c, d in rows]
pathlib.Path("/verif/seeded/README.md").write_text("\n".join(out) + "\n")
print(len(rows), "rows;", [r[0] for r in rows if r[1] != "caught"])

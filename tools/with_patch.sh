#!/bin/bash
# usage: tools/with_patch.sh <patch-file|-R:commit> <ID> [<ID>...]   -- run checks against a scratch copy of /repo with a patch
set -u
patch="$1"; shift
d=$(mktemp -d /tmp/vk_scratch.XXXXXX)
git -C /repo worktree add --detach -f "$d/repo" HEAD >/dev/null 2>&1 || { echo "worktree failed"; exit 3; }
if [[ "$patch" == -R:* ]]; then
  git -C "$d/repo" revert --no-commit "${patch#-R:}" >/dev/null 2>&1 || { echo "revert failed"; }
else
  git -C "$d/repo" apply "$patch" || { echo "patch failed"; git -C /repo worktree remove --force "$d/repo"; rm -rf "$d"; exit 3; }
fi
rc=0
for id in "$@"; do
  VK_REPO="$d/repo" VK_SCRATCH=1 VK_EVIDENCE_DIR="$d/evidence" VK_REPLAY_DIR="$d/replay" /verif/check "$id" | grep -E "VIOLATION|KNOWN|UNDECIDED|CRASH|^\[" | cut -c1-400
  r=${PIPESTATUS[0]}; echo "== $id exit=$r"; [ $r -ne 0 ] && rc=$r
done
git -C /repo worktree remove --force "$d/repo"; rm -rf "$d"
exit $rc

"""E-PY theory for the Python support library's bit primitives (C14, Python leg).

* Python integers stay SMT Ints.  Bit operators with a LITERAL second operand are translated exactly:
      x << k  =  x * 2^k          x >> k  =  floor(x / 2^k)          x & (2^k - 1)  =  x mod 2^k
      x & 2^k =  ((x div 2^k) mod 2) * 2^k
  (SMT div/mod with a positive divisor are floor division and non-negative remainder, as Python's).
  x | y on two symbolic operands goes through bit-vectors of a width W for which 0 <= x, y < 2^W is PROVED at the site
  (an obligation): bv2nat(bvor(int2bv_W x, int2bv_W y)).
* NumPy uint8 arrays are heap objects NDArray{arr: (Array Int Int), n: Int}; a load is in 0..255 (type invariant of the
  dtype, maintained by the store rule: a store of a value outside 0..255 raises OverflowError as NumPy 2 does), an index
  outside [0, n) raises IndexError; `a[i:j] = x` requires j - i == len(x) within bounds (else ValueError).
* loops over `range(k)` and over an NDArray of literal length are unrolled (complete: the trip count is a literal of the
  case under verification -- the contracts are instantiated per bit length 1..64 and per cursor position mod 8).
"""
from __future__ import annotations

import typing

from .epy import (NONE, Interp, OutOfSubset, PyRaise, SData, SInt, SObj, V, VBool, VConst, VData, VInt, VList, VNone, VObj, VTuple, _int_lit, _lit_term)
from .smt import And, Eq, Ite, Not, Or, app

ARR = "(Array Int Int)"
NDARRAY = SObj("NDArray", {"arr": SData(ARR), "n": SInt})


def nd_literal_len(n: int):
    """spec of an NDArray parameter whose length is the literal n"""
    return SObj("NDArray", {"arr": SData(ARR), "n": VInt(str(n))})


def install(engine) -> None:
    I = engine.intrinsics
    engine.used("Python int bit operators with a literal operand as exact integer arithmetic (shift = multiplication / floor division by 2^k, mask = remainder mod 2^k); "
                "x | y via bit-vectors of a width proved sufficient at the site")
    engine.used("numpy uint8 arrays: loads are in 0..255, stores outside 0..255 raise OverflowError (NumPy 2), indexes outside [0, len) raise IndexError, "
                "slice assignment needs equal lengths within bounds; numpy.zeros(n, dtype=Byte) is n zero bytes")

    def lshift(it: Interp, a: VInt, b: VInt) -> V:
        k = _int_lit(b.t)
        if k is None or k < 0:
            raise OutOfSubset("shift by a symbolic amount")
        return VInt(app("*", a.t, str(2 ** k)) if k else a.t)

    def rshift(it: Interp, a: VInt, b: VInt) -> V:
        k = _int_lit(b.t)
        if k is None or k < 0:
            raise OutOfSubset("shift by a symbolic amount")
        return VInt(app("div", a.t, str(2 ** k)) if k else a.t)

    def band(it: Interp, a: VInt, b: VInt) -> V:
        m = _int_lit(b.t)
        if m is None:
            m, a = _int_lit(a.t), b
        if m is None or m < 0:
            raise OutOfSubset("& of two symbolic integers")
        if m == 0:
            return VInt("0")
        if (m + 1) & m == 0:  # 2^k - 1
            return VInt(app("mod", a.t, str(m + 1)))
        if m & (m - 1) == 0:  # 2^k
            return VInt(app("*", app("mod", app("div", a.t, str(m)), "2"), str(m)))
        raise OutOfSubset(f"& with the mask {m}")

    def bor(it: Interp, a: VInt, b: VInt) -> V:
        """x | y == x + y when the operands have no common bit: proved at the site in the sufficient arithmetic form
        0 <= lo < 2^k  and  hi >= 0 and hi mod 2^k == 0  (k a literal taken from the shift/multiplier literals that occur in
        the operands).  If no such k is found the operation falls back to bit-vectors of a width proved sufficient."""
        import re as _re
        ctx = it.ctx
        if _int_lit(a.t) == 0:
            return b
        if _int_lit(b.t) == 0:
            return a
        # named temporaries are looked through one level for the literal multipliers
        texts = [a.t, b.t] + [p for p in ctx.pc[-40:] if isinstance(p, str) and (a.t in p or b.t in p) and p.startswith("(= ")]
        ks = sorted({int(x).bit_length() - 1 for t in texts for x in _re.findall(r"(?<![\w.])(\d+)(?![\w.])", t) if int(x) > 1 and int(x) & (int(x) - 1) == 0 and int(x) <= 2 ** 72})
        for k in ks:
            p2 = str(2 ** k)
            for lo, hi in ((a.t, b.t), (b.t, a.t)):
                cond = And(app("<=", "0", lo), app("<", lo, p2), app("<=", "0", hi), Eq(app("mod", hi, p2), "0"))
                if ctx.implied(cond):
                    ctx.prove(cond, "pre", f"bitor-operands-share-no-bit-(split-at-bit-{k})")
                    return VInt(app("+", a.t, b.t))
        for w in (8, 72):
            lim = str(2 ** w)
            rng = And(app("<=", "0", a.t), app("<", a.t, lim), app("<=", "0", b.t), app("<", b.t, lim))
            if w == 72 or ctx.implied(rng):
                ctx.prove(rng, "pre", f"bitor-operands-fit-{w}-bits")
                ctx.assume(rng)
                r = ctx.fresh("Int", "bitor")
                ctx.pc.append(Eq(r, f"(bv2nat (bvor ((_ int2bv {w}) {a.t}) ((_ int2bv {w}) {b.t})))"))
                return VInt(r)
        raise OutOfSubset("|")

    engine.binop_hooks["Int.LShift"] = lshift
    engine.binop_hooks["Int.RShift"] = rshift
    engine.binop_hooks["Int.BitAnd"] = band
    engine.binop_hooks["Int.BitOr"] = bor

    def b_range(it: Interp, *args: V) -> V:
        lits = [_int_lit(a.t) if isinstance(a, VInt) else None for a in args]
        if any(x is None for x in lits):
            raise OutOfSubset("range() over a symbolic bound")
        return VList([VInt(_lit_term(i)) for i in range(*lits)])  # type: ignore

    I["range"] = b_range

    # ---- NDArray ---------------------------------------------------------------------------------------------------
    def nd_new(it: Interp, arr: str, n: str) -> VObj:
        return it.ctx.new_obj("NDArray", {"arr": VData(ARR, arr), "n": VInt(n)})

    def np_zeros(it: Interp, n: V, dtype: typing.Optional[V] = None) -> V:
        if not isinstance(n, VInt):
            raise OutOfSubset("numpy.zeros shape")
        return nd_new(it, f"((as const {ARR}) 0)", n.t)

    engine.np_zeros = np_zeros
    I["len:NDArray"] = lambda it, o: it.ctx.get_field(o, "n")

    def nd_index(it: Interp, o: VObj, k: V) -> str:
        if not isinstance(k, VInt):
            raise OutOfSubset("NDArray index")
        n = it.ctx.get_field(o, "n").t  # type: ignore
        if it.ctx.branch(VBool(Or(app("<", k.t, "0"), app(">=", k.t, n))), "ndarray-index-out-of-range"):
            raise PyRaise("IndexError")
        return k.t

    def nd_load(it: Interp, o: VObj, k: V) -> V:
        i = nd_index(it, o, k)
        sel = app("select", it.ctx.get_field(o, "arr").t, i)  # type: ignore
        it.ctx.assume(And(app("<=", "0", sel), app("<=", sel, "255")))  # dtype invariant of uint8 storage
        return VInt(sel)

    def nd_store(it: Interp, o: VObj, k: V, v: V) -> None:
        ctx = it.ctx
        if isinstance(k, VTuple):  # a[lo:hi] = x
            lo, hi = k.items
            if not (isinstance(lo, VInt) and isinstance(hi, VInt) and isinstance(v, VObj) and v.cls == "NDArray"):
                raise OutOfSubset("NDArray slice store")
            ln = _int_lit(ctx.get_field(v, "n").t)  # type: ignore
            if ln is None:
                raise OutOfSubset("NDArray slice store of symbolic length")
            n = ctx.get_field(o, "n").t  # type: ignore
            bad = Or(app("<", lo.t, "0"), Not(Eq(app("-", hi.t, lo.t), str(ln))), app(">", hi.t, n))
            if ctx.branch(VBool(bad), "ndarray-slice-length-mismatch"):
                raise PyRaise("ValueError")
            arr = ctx.get_field(o, "arr").t  # type: ignore
            src = ctx.get_field(v, "arr").t  # type: ignore
            for i in range(ln):
                arr = app("store", arr, app("+", lo.t, str(i)) if i else lo.t, app("select", src, str(i)))
            ctx.set_field(o, "arr", VData(ARR, arr))
            return None
        i = nd_index(it, o, k)
        if isinstance(v, VBool):
            v = VInt(Ite(v.t, "1", "0"))
        if not isinstance(v, VInt):
            raise OutOfSubset("NDArray element store")
        if ctx.branch(VBool(Or(app("<", v.t, "0"), app(">", v.t, "255"))), "uint8-store-out-of-range"):
            raise PyRaise("OverflowError")
        ctx.set_field(o, "arr", VData(ARR, app("store", ctx.get_field(o, "arr").t, i, v.t)))  # type: ignore
        return None

    engine.subscript_hooks["NDArray"] = nd_load
    engine.store_subscript_hooks["NDArray"] = nd_store

    def nd_unroll(it: Interp, o: VObj):
        n = _int_lit(it.ctx.get_field(o, "n").t)  # type: ignore
        if n is None:
            return None
        return [nd_load(it, o, VInt(str(i))) for i in range(n)]

    I["unroll:NDArray"] = nd_unroll


def le_sum(arr: str, base: str, count: int) -> str:
    """little-endian integer held by `count` bytes of arr from index base"""
    if count == 0:
        return "0"
    terms = []
    for j in range(count):
        idx = f"(+ {base} {j})" if j else base
        terms.append(f"(* {256 ** j} (select {arr} {idx}))" if j else f"(select {arr} {idx})")
    return terms[0] if count == 1 else "(+ " + " ".join(terms) + ")"


def stores(arr_old: str, arr_new: str, base: str, count: int) -> str:
    """arr_new differs from arr_old at most at the `count` indexes from base (frame as an array equation)"""
    t = arr_old
    for j in range(count):
        idx = f"(+ {base} {j})" if j else base
        t = f"(store {t} {idx} (select {arr_new} {idx}))"
    return f"(= {arr_new} {t})"

"""Shared driver: verify a list of E-PY contracts, solve, classify, collect into a report.Run."""
from __future__ import annotations

import time
import typing

from . import epy, report, smt


def verify_contracts(run: report.Run, engine: epy.Engine, contracts: typing.List[epy.Contract],
                     on_fail: typing.Optional[typing.Callable[[smt.Result], typing.Optional[report.Failure]]] = None,
                     text_overrides: typing.Optional[typing.Dict[str, str]] = None) -> typing.List[smt.Result]:
    all_obs: typing.List[smt.Obligation] = []
    per_fn: typing.Dict[str, typing.Dict[str, typing.Any]] = {}
    for c in contracts:
        t0 = time.time()
        try:
            obs, info = engine.verify(c, (text_overrides or {}).get(c.target))
        except epy.BindingError as ex:
            run.undecide(f"binding failure: {ex}")
            continue
        except epy.OutOfSubset as ex:
            run.undecide(f"{c.target}: out of the E-PY subset: {ex}")
            continue
        run.add_function(c.target)
        info["gen_s"] = round(time.time() - t0, 2)
        info["obligations"] = len(obs)
        per_fn[c.target] = info
        if len(obs) + info.get("trivial", 0) == 0:
            run.undecide(f"{c.target}: zero obligations generated (vacuity guard)")
        if info.get("returns", 0) + info.get("raises", 0) == 0:
            run.undecide(f"{c.target}: no path reaches a function exit (vacuity guard)")
        # vacuity guard: the precondition must be satisfiable (one `sat` query per function)
        all_obs.extend(obs)
    results = smt.solve_all(all_obs)
    run.add_results(results)
    reported = set()
    for r in results:
        if not r.ok and r.status == "sat" and on_fail is not None:
            base = r.ob.name.split("/p")[0]
            if base in reported:
                continue
            f = on_fail(r)
            if f is not None:
                reported.add(base)
                run.fail(f)
    run.notes.setdefault("per_function", {}).update(per_fn)
    for a in engine.assumed:
        run.assume(a)
    return results

"""Shared driver: verify a list of E-PY contracts, solve, classify, collect into a report.Run."""
from __future__ import annotations

import time
import typing

from . import epy, report, smt


def verify_contracts(run: report.Run, engine: epy.Engine, contracts: typing.List[epy.Contract],
                     on_fail: typing.Optional[typing.Callable[[smt.Result], typing.Optional[report.Failure]]] = None,
                     text_overrides: typing.Optional[typing.Dict[str, str]] = None,
                     witness: typing.Optional[typing.Dict[str, typing.Callable[[], typing.Optional[dict]]]] = None,
                     ) -> typing.List[smt.Result]:
    """`witness` maps a contract's qualname to a bounded native search for an input on which the REAL function violates
    its top-level contract.  It is consulted whenever an obligation of that function is not discharged (sat or unknown):
    a witness found is a violation with a replayed failing input; `sat` without witness is a violation reported as
    no-failing-input-found; `unknown` without witness stays undecided."""
    all_obs: typing.List[smt.Obligation] = []
    per_fn: typing.Dict[str, typing.Dict[str, typing.Any]] = {}
    for c in contracts:
        t0 = time.time()
        try:
            obs, info = engine.verify(c, (text_overrides or {}).get(c.target))
        except (epy.BindingError, epy.OutOfSubset) as ex:
            kind = "binding failure" if isinstance(ex, epy.BindingError) else "out of the E-PY subset"
            # the function cannot be brought under its contract deductively on this tree: fall back to the bounded
            # native search against the same top-level contract; only a concrete failing input is ever reported
            w = witness[c.qualname]() if witness and c.qualname in witness else None
            if w is not None:
                run.fail(report.Failure(f"{c.qualname}#contract", "post", f"{c.target}: {kind} ({ex}); bounded native search: real code fails its "
                                        f"contract on {w.get('input')!r}: {w.get('why', '')}", {"witness": w}, True))
            run.undecide(f"{c.target}: {kind}: {ex}")
            continue
        run.add_function(c.target)
        info["gen_s"] = round(time.time() - t0, 2)
        info["obligations"] = len(obs)
        per_fn[c.target] = info
        if len(obs) + info.get("trivial", 0) == 0:
            run.undecide(f"{c.target}: zero obligations generated (vacuity guard)")
        if info.get("returns", 0) + info.get("raises", 0) == 0:
            run.undecide(f"{c.target}: no path reaches a function exit (vacuity guard)")
        # vacuity guard: the precondition must be satisfiable (one `sat` query per function)
        all_obs.extend(obs)
    results = smt.solve_all(all_obs)
    run.add_results(results)
    reported = set()
    wcache: typing.Dict[str, typing.Optional[dict]] = {}
    for r in results:
        if not r.ok and witness and r.ob.function in witness:
            base = r.ob.name.split("/p")[0]
            if base in reported:
                continue
            if r.ob.function not in wcache:
                wcache[r.ob.function] = witness[r.ob.function]()
            w = wcache[r.ob.function]
            if w is not None:
                reported.add(base)
                run.fail(report.Failure(base, r.ob.kind, f"{r.ob.name} not discharged ({r.status}); real code fails its contract on {w.get('input')!r}: {w.get('why', '')}",
                                        {"witness": w, "model": r.model, "solver_output": r.raw[:3000], "smt2": r.ob.smt2()}, True))
                continue
            if r.status == "sat":
                reported.add(base)
                run.fail(report.Failure(base, r.ob.kind, f"{r.ob.name} not discharged (sat); model {dict(list(r.model.items())[:6])}",
                                        {"model": r.model, "solver_output": r.raw[:3000], "smt2": r.ob.smt2()}, False))
            continue
        if not r.ok and r.status == "sat" and on_fail is not None:
            base = r.ob.name.split("/p")[0]
            if base in reported:
                continue
            f = on_fail(r)
            if f is not None:
                reported.add(base)
                run.fail(f)
    run.notes.setdefault("per_function", {}).update(per_fn)
    for a in engine.assumed:
        run.assume(a)
    return results

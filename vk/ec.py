"""
E-C: verification-condition generator for the C that nunavut emits.

Front end: clang's typed JSON AST of the real rendered header (all implicit conversions explicit).
Semantics: path-wise symbolic execution (re-execution with a decision prefix, as in E-PY); loops are cut at invariants
from the sidecar contract; calls are replaced by callee contracts; every C-level hazard is a proof obligation.

Integer model (DESIGN 2.3): a value is either in the *index domain* (SMT Int; `size_t` and everything computed from
it) -- every + - * there carries a no-wraparound obligation, so Int and machine semantics agree -- or in the *bit
domain* (SMT bit-vector of the exact width, modular for unsigned, UB obligations for signed).  Conversions between the
domains use int2bv/bv2nat, after a case split when the integer is provably in a small range.

Memory model: region + byte offset.  A region's content is a *write log* over a base array: single stores, memset,
memmove and CopyBits entries; reads resolve through the log, so everything stays quantifier free.  Contracts state
"final memory == specification memory", proved pointwise at a Skolem byte index.
"""
from __future__ import annotations

import dataclasses
import json
import pathlib
import re
import subprocess
import typing

from . import smt
from .smt import And, Eq, Implies, Ite, Not, Or, app, int_lit


class COutOfSubset(Exception):
    pass


class CBindingError(Exception):
    pass


class PathEnd(Exception):
    pass


TWO64 = str(2 ** 64)
_SYMS = re.compile(r"\|[^|]+\|")

# ------------------------------------------------------------------------------------------------
# front end
# ------------------------------------------------------------------------------------------------


def clang_ast(tu_text: str, include_dirs: typing.List[str], name_filter: str, std: str = "c11", workdir: typing.Optional[str] = None,
              extra: typing.Optional[typing.List[str]] = None) -> typing.List[dict]:
    """Compile a translation unit with -Werror and return the FunctionDecl objects whose name contains name_filter."""
    import tempfile

    with tempfile.TemporaryDirectory(dir=workdir) as d:
        tu = pathlib.Path(d) / "tu.c"
        tu.write_text(tu_text)
        argv = ["clang", f"-std={std}", "-fsyntax-only", "-Wall", "-Wextra", "-Werror", "-Wno-unused-function"]
        for inc in include_dirs:
            argv += ["-I", inc]
        argv += (extra or []) + ["-Xclang", "-ast-dump=json", "-Xclang", f"-ast-dump-filter={name_filter}", str(tu)]
        p = subprocess.run(argv, capture_output=True, text=True)
        if p.returncode != 0:
            raise CBindingError("clang rejected the rendered header:\n" + p.stderr[:3000])
        s = p.stdout
    dec = json.JSONDecoder()
    i, objs = 0, []
    while i < len(s):
        while i < len(s) and s[i] in " \n\r\t":
            i += 1
        if i >= len(s):
            break
        if s[i] != "{":
            j = s.find("\n", i)
            i = j + 1 if j >= 0 else len(s)
            continue
        o, j = dec.raw_decode(s, i)
        objs.append(o)
        i = j
    return objs


# ------------------------------------------------------------------------------------------------
# C types
# ------------------------------------------------------------------------------------------------


@dataclasses.dataclass(frozen=True)
class CT:
    kind: str  # int | float | ptr | array | record | void | func
    width: int = 0  # bits for int/float
    signed: bool = False
    index: bool = False  # size_t sugar
    elem: typing.Optional["CT"] = None
    count: int = 0
    name: str = ""
    is_bool: bool = False

    @property
    def size(self) -> int:
        if self.kind in ("int", "float"):
            return max(1, self.width // 8)
        if self.kind == "ptr":
            return 8
        if self.kind == "array":
            return self.elem.size * self.count  # type: ignore
        raise COutOfSubset(f"sizeof {self}")


INT_TYPES = {
    "_Bool": (8, False), "bool": (8, False), "char": (8, True), "signed char": (8, True), "unsigned char": (8, False),
    "short": (16, True), "unsigned short": (16, False), "int": (32, True), "unsigned int": (32, False),
    "long": (64, True), "unsigned long": (64, False), "long long": (64, True), "unsigned long long": (64, False),
    "int8_t": (8, True), "uint8_t": (8, False), "int16_t": (16, True), "uint16_t": (16, False), "int32_t": (32, True),
    "uint32_t": (32, False), "int64_t": (64, True), "uint64_t": (64, False), "size_t": (64, False), "uintptr_t": (64, False),
    "__uint8_t": (8, False), "__uint16_t": (16, False), "__uint32_t": (32, False), "__uint64_t": (64, False),
    "__int8_t": (8, True), "__int16_t": (16, True), "__int32_t": (32, True), "__int64_t": (64, True),
}


def strip_quals(q: str) -> str:
    q = re.sub(r"\b(const|volatile|restrict|static|inline)\b", "", q)
    return re.sub(r"\s+", " ", q).strip()


class Types:
    def __init__(self) -> None:
        self.records: typing.Dict[str, typing.Dict[str, typing.Any]] = {}  # name -> {"union": bool, "fields": [(name, CT)]}
        self.last_record: typing.Optional[str] = None

    def parse(self, t: dict) -> CT:
        q = strip_quals(t.get("qualType", ""))
        d = strip_quals(t.get("desugaredQualType", "")) or q
        return self.parse_str(q, d)

    def parse_str(self, q: str, d: typing.Optional[str] = None) -> CT:
        d = d or q
        if q.endswith("*") or d.endswith("*"):
            base = (q if q.endswith("*") else d)[:-1].strip()
            try:
                return CT("ptr", elem=self.parse_str(strip_quals(base)))
            except COutOfSubset:
                return CT("ptr", elem=CT("void"))
        m = re.match(r"^(.*)\[(\d+)\]$", d) or re.match(r"^(.*)\[(\d+)\]$", q)
        if m:
            qm = re.match(r"^(.*)\[(\d+)\]$", q)
            return CT("array", elem=self.parse_str(strip_quals(qm.group(1) if qm else m.group(1))), count=int(m.group(2)))
        if q in ("void",) or d == "void":
            return CT("void")
        if q == "size_t":
            return CT("int", 64, False, index=True)
        if q in INT_TYPES:
            w, s = INT_TYPES[q]
            return CT("int", w, s, is_bool=q in ("_Bool", "bool"))
        if d in INT_TYPES:
            w, s = INT_TYPES[d]
            return CT("int", w, s, is_bool=d in ("_Bool", "bool"))
        if q == "float" or d == "float":
            return CT("float", 32)
        if q == "double" or d == "double":
            return CT("float", 64)
        for cand in (q, d):
            nm = re.sub(r"^(union|struct)\s+", "", cand)
            if nm in self.records:
                return CT("record", name=nm)
            if "unnamed" in cand or "anonymous" in cand:
                # anonymous record: clang prints its location; it is the record declared in the same DeclStmt
                if self.last_record:
                    return CT("record", name=self.last_record)
        if "(" in q:
            return CT("func")
        raise COutOfSubset(f"C type {q!r} / {d!r}")

    def is_scalar_union(self, t: CT) -> bool:
        r = self.records[t.name]
        return bool(r["union"]) and all(ft.kind in ("int", "float") for _, ft in r["fields"])

    def sizeof(self, t: CT) -> int:
        if t.kind == "record":
            r = self.records[t.name]
            sizes = [self.sizeof(ft) for _, ft in r["fields"]]
            if r["union"]:
                return max(sizes)
            raise COutOfSubset("sizeof struct (layout) not modelled here")
        if t.kind == "array":
            return self.sizeof(t.elem) * t.count  # type: ignore
        return t.size


# ------------------------------------------------------------------------------------------------
# values
# ------------------------------------------------------------------------------------------------


@dataclasses.dataclass
class Val:
    """Integer value: rep 'I' (SMT Int holding the mathematical value) or 'B' (bit-vector of ct.width)."""

    ct: CT
    rep: str
    t: str


@dataclasses.dataclass
class FVal:
    """A float/double object: its bit pattern (so that NaN payloads and union punning are exact); `t` is the
    IEEE-754 value of those bits as an SMT FloatingPoint term."""

    ct: CT
    bits: str

    @property
    def t(self) -> str:
        e, s = (8, 24) if self.ct.width == 32 else (11, 53)
        return f"((_ to_fp {e} {s}) {self.bits})"


@dataclasses.dataclass
class PVal:
    """Pointer: region id (None = NULL) and byte offset (Int term)."""

    ct: CT
    region: typing.Optional[str]
    off: str
    path: typing.Tuple[str, ...] = ()  # for pointers to (sub)structures: field path below the root object
    is_struct: bool = False


@dataclasses.dataclass
class UVal:
    """A record made of overlapping scalars (union): its bytes as one bit-vector."""

    ct: CT
    bits: str
    width: int


def bvlit(v: int, w: int) -> str:
    return f"(_ bv{v % (1 << w)} {w})"


def lit_of(t: str) -> typing.Optional[int]:
    try:
        return smt.smt_int(t)
    except (ValueError, AttributeError):
        m = re.fullmatch(r"\(_ bv(\d+) (\d+)\)", t)
        if m:
            return int(m.group(1))
        return None
    except Exception:
        return None


# memories -----------------------------------------------------------------------------------------


class Mem:
    def read(self, idx: str) -> str:
        raise NotImplementedError

    def bit(self, pos: str) -> str:
        """bit at absolute bit position pos (Int term) as (_ BitVec 1)"""
        k = lit_of(pos)
        if k is not None:
            b = k % 8
            return f"((_ extract {b} {b}) {self.read(str(k // 8))})"
        q, r = divmod8(pos)
        byte = self.read(q)
        if r is not None:
            return f"((_ extract {r} {r}) {byte})"
        return f"((_ extract 0 0) (bvlshr {byte} ((_ int2bv 8) (mod {pos} 8))))"


class BaseMem(Mem):
    def __init__(self, sym: str):
        self.sym = sym

    def read(self, idx: str) -> str:
        return f"(select {self.sym} {idx})"


class ConstMem(Mem):
    def __init__(self, byte: str = "#x00"):
        self.byte = byte

    def read(self, idx: str) -> str:
        return self.byte


class IntCellMem(Mem):
    """an 8-byte object holding an index-domain integer (e.g. a size_t variable whose address is taken)"""

    def __init__(self, term: str):
        self.term = term

    def read(self, idx: str) -> str:
        k = lit_of(idx)
        v = lit_of(self.term)
        if k is not None and v is not None:
            return bvlit((v >> (8 * k)) & 0xFF, 8) if 0 <= k < 8 else "#x00"
        bv = f"((_ int2bv 64) {self.term})"
        if k is not None:
            return f"((_ extract {8 * k + 7} {8 * k}) {bv})"
        t = "#x00"
        for i in range(7, -1, -1):
            t = Ite(Eq(idx, str(i)), f"((_ extract {8 * i + 7} {8 * i}) {bv})", t)
        return t


class StoreMem(Mem):
    def __init__(self, parent: Mem, idx: str, val: str):
        self.parent, self.idx, self.val = parent, idx, val

    def read(self, idx: str) -> str:
        a, b = lit_of(idx), lit_of(self.idx)
        if a is not None and b is not None:
            return self.val if a == b else self.parent.read(idx)
        return Ite(Eq(idx, self.idx), self.val, self.parent.read(idx))


class MemsetMem(Mem):
    def __init__(self, parent: Mem, start: str, count: str, val: str):
        self.parent, self.start, self.count, self.val = parent, start, count, val

    def read(self, idx: str) -> str:
        return Ite(And(app("<=", self.start, idx), app("<", idx, app("+", self.start, self.count))), self.val, self.parent.read(idx))


class MoveMem(Mem):
    """memmove(dst+dstart, src+sstart, count): byte granular"""

    def __init__(self, parent: Mem, dstart: str, src: Mem, sstart: str, count: str):
        self.parent, self.dstart, self.src, self.sstart, self.count = parent, dstart, src, sstart, count

    def read(self, idx: str) -> str:
        inr = And(app("<=", self.dstart, idx), app("<", idx, app("+", self.dstart, self.count)))
        return Ite(inr, self.src.read(app("+", self.sstart, app("-", idx, self.dstart))), self.parent.read(idx))


class CopyBitsMem(Mem):
    """Specification memory: parent with bits [doff, doff+len) replaced by bits [soff, soff+len) of src."""

    def __init__(self, parent: Mem, doff: str, ln: str, src: Mem, soff: str):
        self.parent, self.doff, self.ln, self.src, self.soff = parent, doff, ln, src, soff
        self._cache: typing.Dict[str, str] = {}

    def read(self, idx: str) -> str:
        r = self._cache.get(idx)
        if r is None:
            r = self._read(idx)
            self._cache[idx] = r
        return r

    def _read(self, idx: str) -> str:
        k, d, n = lit_of(idx), lit_of(self.doff), lit_of(self.ln)
        if k is not None and d is not None and n is not None:
            # everything literal: decide per bit here; a byte the copy does not touch is the parent's byte itself
            inside = [d <= 8 * k + b < d + n for b in range(8)]
            if not any(inside):
                return self.parent.read(idx)
            so = lit_of(self.soff)
            pbyte = self.parent.read(idx) if not all(inside) else None
            bits = []
            for b in range(7, -1, -1):
                if inside[b]:
                    sp = str(so + 8 * k + b - d) if so is not None else app("+", self.soff, str(8 * k + b - d))
                    bits.append(self.src.bit(sp))
                else:
                    bits.append(f"((_ extract {b} {b}) vk_pb)")
            body = "(concat " + " ".join(bits) + ")"
            return body if pbyte is None else f"(let ((vk_pb {pbyte})) {body})"
        bits = []
        for b in range(7, -1, -1):
            p = app("+", app("*", "8", idx), str(b))
            if k is not None:
                p = str(8 * k + b)
            inr = And(app("<=", self.doff, p), app("<", p, app("+", self.doff, self.ln)))
            sp = app("+", self.soff, app("-", p, self.doff))
            bits.append(Ite(inr, self.src.bit(sp), f"((_ extract {b} {b}) vk_pb)"))
        return f"(let ((vk_pb {self.parent.read(idx)})) (concat " + " ".join(bits) + "))"


class HavocMem(Mem):
    """Memory after a loop cut: equal to `spec` (a specification memory over loop-head scalars)."""

    def __init__(self, spec: Mem):
        self.spec = spec

    def read(self, idx: str) -> str:
        return self.spec.read(idx)


@dataclasses.dataclass
class Region:
    name: str
    mem: Mem
    length: str  # Int term: bytes
    writable: bool = True
    base: typing.Optional[str] = None  # symbolic address for pointer comparisons


# ------------------------------------------------------------------------------------------------
# contracts
# ------------------------------------------------------------------------------------------------


@dataclasses.dataclass
class CLoop:
    invariant: typing.Callable[["Exec"], typing.List[typing.Tuple[str, str]]]  # -> [(name, Bool term)]
    mem_invariant: typing.Optional[typing.Callable[["Exec"], typing.Dict[str, Mem]]] = None  # region -> spec memory
    variant: typing.Optional[typing.Callable[["Exec"], str]] = None  # Int term


@dataclasses.dataclass
class CContract:
    name: str
    # requires(cx) -> list of Bool terms over cx.arg(name) etc.
    requires: typing.Callable[["CallCx"], typing.List[str]]
    # ensures(cx) -> dict with optional keys: "result": spec term (same rep/sort as the C result),
    #                "mem": {region_id: spec Mem}, "extra": [(name, Bool)]
    ensures: typing.Callable[["CallCx"], typing.Dict[str, typing.Any]]
    loops: typing.Dict[int, CLoop] = dataclasses.field(default_factory=dict)
    param_rep: typing.Dict[str, str] = dataclasses.field(default_factory=dict)  # override 'I'/'B' per parameter
    region_len: typing.Dict[str, typing.Callable[["CallCx"], str]] = dataclasses.field(default_factory=dict)
    note: str = ""
    timeout: int = 60
    theory: str = "arith"
    null_params: typing.Set[str] = dataclasses.field(default_factory=set)
    scalar_ptr_params: typing.Set[str] = dataclasses.field(default_factory=set)
    # setup(ex, args): run before `requires` (e.g. fix the shape of the object: array counts, union tags)
    setup: typing.Optional[typing.Callable[["Exec", typing.Dict[str, typing.Any]], None]] = None
    variant_label: str = ""
    symbolic_pointer_offsets: bool = False


class CallCx:
    """View of one call (or of the function under verification) for contract evaluation."""

    def __init__(self, ex: "Exec", args: typing.Dict[str, typing.Any], old_mems: typing.Dict[str, Mem]):
        self.ex = ex
        self.args = args
        self.old = old_mems  # region id -> memory at call time
        self.result: typing.Any = None

    def i(self, name: str) -> str:
        """argument as Int term"""
        return self.ex.to_int(self.args[name]).t

    def b(self, name: str) -> str:
        """argument as bit-vector term"""
        return self.ex.to_bv(self.args[name]).t

    def f(self, name: str) -> str:
        return self.args[name].t

    def fbits(self, name: str) -> str:
        return self.args[name].bits

    def ptr(self, name: str) -> PVal:
        return self.args[name]

    def mem(self, name: str) -> Mem:
        p = self.args[name]
        return self.old[p.region]

    def length(self, name: str) -> str:
        return self.ex.regions[self.args[name].region].length

    def known(self, t: str) -> str:
        """the literal value of an Int term when the current path has fixed it by a case split"""
        k = self.ex.known.get(t)
        return str(k) if k is not None else t

    def abs_bit(self, name: str, bit_off: str) -> str:
        """absolute bit position inside the region of pointer `name` for a bit offset relative to the pointer"""
        p = self.args[name]
        return _fold(app("+", _fold(app("*", "8", p.off)), bit_off)) if p.off != "0" else bit_off


# ------------------------------------------------------------------------------------------------
# executor
# ------------------------------------------------------------------------------------------------


class _Return(Exception):
    def __init__(self, v: typing.Any):
        self.v = v


class _Break(Exception):
    pass


class _Continue(Exception):
    pass


class Explorer:
    MAX_PATHS = 20000

    def __init__(self) -> None:
        self.obligations: typing.List[smt.Obligation] = []
        self._seen: typing.Set[typing.Tuple] = set()
        self.prefix: typing.List[int] = []
        self.arity: typing.List[int] = []
        self.pos = 0
        self.paths = 0
        self.trivial = 0
        self.aux = 0
        self.exits = 0
        self.new_from = 0
        self.is_new = True
        self.aux_cache: typing.Dict[int, str] = {}

    def decide(self, n: int) -> int:
        """self.is_new tells the caller whether this decision was already validated (feasible) in an earlier run."""
        if self.pos < len(self.prefix):
            d = self.prefix[self.pos]
            self.is_new = self.pos >= self.new_from
            self.pos += 1
            return d
        self.prefix.append(0)
        self.arity.append(n)
        self.is_new = True
        self.pos += 1
        return 0

    def add(self, ob: smt.Obligation) -> None:
        key = (ob.name, tuple(ob.assumptions), ob.goal)
        if key in self._seen:
            return
        self._seen.add(key)
        n = sum(1 for o in self.obligations if o.name.split("/p")[0] == ob.name)
        ob.name = f"{ob.name}/p{n}"
        self.obligations.append(ob)

    def run(self, path_fn: typing.Callable[[], None]) -> None:
        self.prefix, self.arity = [], []
        self.new_from = 0
        while True:
            self.pos = 0
            self.paths += 1
            if self.paths > self.MAX_PATHS:
                raise COutOfSubset("path explosion")
            try:
                path_fn()
            except PathEnd:
                pass
            # a path that ended early (pruned) may not have consumed the whole prefix: drop the unconsumed tail
            del self.prefix[self.pos:]
            del self.arity[self.pos:]
            while self.prefix:
                if self.prefix[-1] + 1 < self.arity[-1]:
                    self.prefix[-1] += 1
                    break
                self.prefix.pop()
                self.arity.pop()
            else:
                return
            if not self.prefix:
                return
            self.new_from = len(self.prefix) - 1


class Exec:
    def __init__(self, engine: "CEngine", xp: Explorer, fn: dict, contract: CContract):
        self.e = engine
        self.xp = xp
        self.fn = fn
        self.c = contract
        self.fname = fn["name"]
        self.pc: typing.List[str] = []
        self.decls: typing.List[str] = list(engine.global_decls)
        self.vars: typing.Dict[str, typing.Any] = {}  # decl id -> value (SSA scalars) | ("region", rid, ct)
        self.names: typing.Dict[str, str] = {}  # C name -> decl id (latest)
        self.regions: typing.Dict[str, Region] = {}
        self.counter = 0
        self.loop_ordinal = 0
        self.call_ord: typing.Dict[str, int] = {}
        self.known: typing.Dict[str, int] = {}
        self.model_vars: typing.List[str] = []
        self.addr_taken: typing.Set[str] = set()
        self.entry_mems: typing.Dict[str, Mem] = {}
        self.params: typing.Dict[str, typing.Any] = {}
        self.cut = 0
        self.addr_active = False
        self.addr_facts: typing.List[str] = []
        self.struct_roots: typing.Dict[str, bool] = {}
        self.param_roots: typing.Set[str] = set()
        self.shape: typing.Dict[typing.Any, typing.Any] = {}
        self.region_alias: typing.Dict[str, str] = {}
        self.leaf_info: typing.Dict[str, typing.Tuple[str, typing.Tuple[str, ...], CT]] = {}

    # -- symbols --------------------------------------------------------------------------------------
    def fresh(self, sort: str, hint: str, model: bool = False) -> str:
        self.counter += 1
        nm = f"|{hint}!{self.counter}|"
        self.decls.append(f"(declare-const {nm} {sort})")
        if model:
            self.model_vars.append(nm)
        return nm

    def assume(self, t: str) -> None:
        if t == "false":
            raise PathEnd()
        if t != "true":
            self.pc.append(t)

    def prove(self, goal: str, kind: str, label: str, theory: typing.Optional[str] = None) -> None:
        if goal == "true":
            self.xp.trivial += 1
            return
        ob = smt.Obligation(f"{self.fname}#{kind}:{label}", kind, list(self.decls), list(self.pc), goal, theory or self.c.theory,
                            model_vars=list(self.model_vars), timeout=self.c.timeout, function=self.fname)
        if self.cut:
            ob.alt_assumptions = [list(self.pc[self.cut:])]
        self.xp.add(ob)

    def branch(self, cond: str) -> bool:
        if cond == "true":
            return True
        if cond == "false":
            return False
        if cond in self.pc:
            return True
        if Not(cond) in self.pc:
            return False
        # cheap feasibility pruning keeps the number of (trivially discharged) infeasible paths down
        d = self.xp.decide(2)
        t = cond if d == 0 else Not(cond)
        if self.e.prune and self.xp.is_new and not self.feasible(t):
            raise PathEnd()
        self.pc.append(t)
        return d == 0

    def _aux(self, extra: str) -> str:
        """Auxiliary query on the cone of influence of `extra` only: dropping unrelated hypotheses is sound for both
        uses (an unsat slice means the whole is unsat; a sat slice merely keeps a path / a heavier encoding)."""
        syms = set(_SYMS.findall(extra))
        sel: typing.List[str] = []
        rest = [(t, set(_SYMS.findall(t))) for t in self.pc]
        changed = True
        while changed:
            changed = False
            keep = []
            for t, ts in rest:
                if ts & syms:
                    sel.append(t)
                    syms |= ts
                    changed = True
                else:
                    keep.append((t, ts))
            rest = keep
        key = hash(("\x00".join(sorted(sel)), extra))
        r = self.xp.aux_cache.get(key)
        if r is None:
            self.xp.aux += 1
            decls = [d for d in self.decls if not d.startswith("(declare-const") or d.split(" ")[1] in syms]
            r = self.e.session.check(decls, sel + [extra])
            self.xp.aux_cache[key] = r
        return r

    def feasible(self, t: str) -> bool:
        return self._aux(t) != "unsat"

    def implied(self, t: str) -> bool:
        return self._aux(Not(t)) == "unsat"

    # -- integer conversions ------------------------------------------------------------------------
    def to_int(self, v: typing.Any) -> Val:
        if isinstance(v, Val):
            if v.rep == "I":
                return v
            k = lit_of(v.t)
            if k is not None:
                if v.ct.signed and k >= 1 << (v.ct.width - 1):
                    k -= 1 << v.ct.width
                return Val(v.ct, "I", int_lit(k))
            if v.ct.signed:
                w = v.ct.width
                return Val(v.ct, "I", Ite(f"(bvslt {v.t} {bvlit(0, w)})", app("-", f"(bv2nat {v.t})", str(1 << w)), f"(bv2nat {v.t})"))
            return Val(v.ct, "I", f"(bv2nat {v.t})")
        raise COutOfSubset(f"to_int of {type(v).__name__}")

    def small_split(self, t: str, limit: int = 64, known_range: bool = False) -> typing.Optional[int]:
        """If the Int term t is provably within [0, limit], enumerate its value (path split) and return it.
        known_range: the caller has already established 0 <= t <= limit on this path."""
        k = lit_of(t)
        if k is not None:
            return k
        if t in self.known:
            return self.known[t]
        hi = limit if known_range else None
        m = re.fullmatch(r"\(mod (.+) (\d+)\)", t)
        if hi is not None:
            pass
        elif m and int(m.group(2)) <= limit + 1:
            hi = int(m.group(2)) - 1
        elif self.e.split_casts and self.implied(And(app("<=", "0", t), app("<=", t, str(limit)))):
            hi = limit
            for cand in (1, 2, 4, 8, 16, 32):
                if cand < limit and self.implied(app("<=", t, str(cand))):
                    hi = cand
                    break
        if hi is None:
            return None
        d = self.xp.decide(hi + 1)
        c = Eq(t, str(d))
        if self.e.prune and self.xp.is_new and not self.feasible(c):
            raise PathEnd()
        self.pc.append(c)
        self.known[t] = d
        return d

    def to_bv(self, v: typing.Any, width: typing.Optional[int] = None) -> Val:
        if isinstance(v, Val):
            w = width or v.ct.width
            if v.rep == "B":
                if v.ct.width == w:
                    return v
                return self.bv_resize(v, w)
            k = lit_of(v.t)
            if k is None:
                k = self.small_split(v.t)
            if k is not None:
                return Val(dataclasses.replace(v.ct, width=w), "B", bvlit(k, w))
            return Val(dataclasses.replace(v.ct, width=w), "B", f"((_ int2bv {w}) {v.t})")
        raise COutOfSubset(f"to_bv of {type(v).__name__}")

    def bv_resize(self, v: Val, w: int) -> Val:
        cw = v.ct.width
        ct = dataclasses.replace(v.ct, width=w)
        k = lit_of(v.t)
        if k is not None:
            if v.ct.signed and k >= 1 << (cw - 1):
                k -= 1 << cw
            return Val(ct, "B", bvlit(k, w))
        if w == cw:
            return Val(ct, "B", v.t)
        if w < cw:
            return Val(ct, "B", f"((_ extract {w - 1} 0) {v.t})")
        ext = "sign_extend" if v.ct.signed else "zero_extend"
        return Val(ct, "B", f"((_ {ext} {w - cw}) {v.t})")

    def convert(self, v: typing.Any, to: CT, explicit: bool = False) -> typing.Any:
        """C integer conversion (IntegralCast)."""
        if isinstance(v, Val) and to.kind == "int":
            if to.is_bool:
                return self.from_cond(self.nonzero(v), to)
            if v.rep == "I":
                k = lit_of(v.t)
                lo, hi = self.range_of(to)
                if k is not None:
                    if lo <= k <= hi:
                        return Val(to, "I", v.t)
                    return Val(to, "I", int_lit((k - lo) % (hi - lo + 1) + lo))
                if to.index or (to.width == 64 and not to.signed):
                    # value-preserving if non-negative (index domain: obligation, not wraparound)
                    slo, shi = self.range_of(v.ct)
                    if slo < 0:
                        self.prove(app("<=", "0", v.t), "safety", f"index-domain-conversion-nonneg@{self.where}")
                    return Val(to, "I", v.t)
                slo, shi = self.range_of(v.ct)
                if lo <= slo and shi <= hi:
                    return Val(to, "I", v.t)
                # narrowing: go through bits (after a small-range split when possible)
                b = self.to_bv(Val(v.ct, "I", v.t), to.width)
                return Val(to, "B", b.t)
            # bit-vector source
            if to.index:
                return Val(to, "I", self.to_int(v).t if not v.ct.signed else self._signed_to_index(v))
            return Val(to, "B", self.bv_resize(v, to.width).t)
        if isinstance(v, PVal) and to.kind == "ptr":
            return PVal(to if not v.is_struct else v.ct, v.region, v.off, v.path, v.is_struct)
        raise COutOfSubset(f"conversion {type(v).__name__} -> {to}")

    def _signed_to_index(self, v: Val) -> str:
        i = self.to_int(v)
        self.prove(app("<=", "0", i.t), "safety", f"index-domain-conversion-nonneg@{self.where}")
        return i.t

    def range_of(self, ct: CT) -> typing.Tuple[int, int]:
        if ct.is_bool:
            return (0, 1)
        if ct.signed:
            return (-(1 << (ct.width - 1)), (1 << (ct.width - 1)) - 1)
        return (0, (1 << ct.width) - 1)

    def nonzero(self, v: typing.Any) -> str:
        if isinstance(v, Val):
            if v.rep == "I":
                k = lit_of(v.t)
                if k is not None:
                    return "true" if k != 0 else "false"
                m = re.fullmatch(r"\(ite (.+) 1 0\)", v.t)
                if m and _balanced(m.group(1)):
                    return m.group(1)
                return Not(Eq(v.t, "0"))
            return Not(Eq(v.t, bvlit(0, v.ct.width)))
        if isinstance(v, PVal):
            return "true" if v.region is not None else "false"
        if isinstance(v, FVal):
            return Not(f"(fp.isZero {v.t})")
        raise COutOfSubset("truth value")

    def from_cond(self, cond: str, ct: typing.Optional[CT] = None) -> Val:
        ct = ct or CT("int", 32, True)
        return Val(ct, "I", Ite(cond, "1", "0") if cond not in ("true", "false") else ("1" if cond == "true" else "0"))

    # -- memory ---------------------------------------------------------------------------------------
    def new_region(self, name: str, length: str, mem: typing.Optional[Mem] = None, writable: bool = True) -> Region:
        self.counter += 1
        rid = f"{name}#{self.counter}"
        if mem is None:
            sym = self.fresh("(Array Int (_ BitVec 8))", f"mem.{name}")
            mem = BaseMem(sym)
        base = self.fresh("Int", f"addr.{name}")
        r = Region(rid, mem, length, writable, base)
        # distinct objects do not overlap; addresses are positive and do not wrap.  These facts only matter for
        # relational pointer comparisons / pointer-to-integer casts: they join the path condition on first use.
        facts = [And(app("<", "0", base), app("<", app("+", base, length), TWO64))]
        for o in self.regions.values():
            facts.append(Or(app("<=", app("+", base, length), o.base), app("<=", app("+", o.base, o.length), base)))  # type: ignore
        if self.addr_active:
            for f in facts:
                self.assume(f)
        else:
            self.addr_facts.extend(facts)
        self.regions[rid] = r
        return r

    def need_addresses(self) -> None:
        if not self.addr_active:
            self.addr_active = True
            for f in self.addr_facts:
                self.assume(f)
            self.addr_facts = []

    def new_struct_root(self, name: str, writable: bool = True) -> str:
        self.counter += 1
        rid = f"{name}#{self.counter}"
        self.struct_roots[rid] = writable
        return rid

    def subregion(self, root: str, path: typing.Tuple[str, ...], ct: CT) -> Region:
        """Field-sensitive object model: every scalar/array leaf of a structure is its own byte region, created on
        first use with unconstrained content (= any object contents).  Members of a union are modelled as disjoint
        leaves (assumption: generated code only touches the member selected by the tag)."""
        key = root + "/" + ".".join(path)
        if key in self.region_alias:
            return self.regions[self.region_alias[key]]
        r = self.new_region(key.replace("#", "_"), str(self.e.types.sizeof(ct)), writable=self.struct_roots.get(root, True))
        self.region_alias[key] = r.name
        if root in self.param_roots:
            self.entry_mems.setdefault(r.name, r.mem)
        self.leaf_info[r.name] = (root, path, ct)
        return r

    def member_lvalue(self, base: typing.Any, name: str) -> typing.Any:
        _, root, path, rct = base
        rec = self.e.types.records[rct.name]
        for fname, ft in rec["fields"]:
            if fname == name:
                np = path + (name,)
                if ft.kind == "record":
                    return ("struct", root, np, ft)
                if ft.kind == "array" and ft.elem is not None and ft.elem.kind == "record":
                    return ("structarr", root, np, ft)
                r = self.subregion(root, np, ft)
                return ("mem", PVal(CT("ptr", elem=ft), r.name, "0"), ft)
        raise COutOfSubset(f"no field {name} in {rct.name}")

    def check_access(self, p: PVal, nbytes: str, what: str, write: bool) -> Region:
        if p.region is None:
            self.prove("false", "safety", f"null-dereference:{what}@{self.where}")
            raise PathEnd()
        r = self.regions[p.region]
        self.prove(And(app("<=", "0", p.off), app("<=", app("+", p.off, nbytes), r.length)), "safety", f"in-bounds:{what}@{self.where}")
        if write and not r.writable:
            self.prove("false", "safety", f"write-to-const:{what}@{self.where}")
        return r

    def load(self, p: PVal, ct: CT) -> typing.Any:
        n = self.e.types.sizeof(ct) if ct.kind != "int" else ct.size
        r = self.check_access(p, str(n), "load", False)
        if isinstance(r.mem, IntCellMem) and ct.kind == "int" and ct.width == 64 and not ct.signed and p.off == "0":
            return Val(ct, "I", r.mem.term)
        bytes_ = [r.mem.read(app("+", p.off, str(i)) if p.off != "0" or i else "0") if False else r.mem.read(_addi(p.off, i)) for i in range(n)]
        lits = [lit_of(b) if b.startswith("(_ bv") or b.startswith("#x") else None for b in bytes_]
        if all(x is not None for x in lits):
            bits = bvlit(sum(v << (8 * i) for i, v in enumerate(lits)), 8 * n)  # type: ignore
        else:
            bits = bytes_[0] if n == 1 else "(concat " + " ".join(reversed(bytes_)) + ")"
        if ct.kind == "int":
            return Val(ct, "B", bits)
        if ct.kind == "float":
            return FVal(ct, bits)
        raise COutOfSubset(f"load of {ct}")

    def store(self, p: PVal, ct: CT, v: typing.Any) -> None:
        n = ct.size
        r = self.check_access(p, str(n), "store", True)
        if ct.kind == "int" and ct.width == 64 and not ct.signed and p.off == "0" and isinstance(v, Val) and lit_of(r.length) == 8:
            vv = self.convert(v, ct)
            if vv.rep == "I":
                r.mem = IntCellMem(vv.t)
                return
        if ct.kind == "int":
            b = self.to_bv(self.convert(v, ct) if isinstance(v, Val) else v, ct.width)
            bits = b.t
        elif ct.kind == "float":
            bits = self.float_bits(v)
        else:
            raise COutOfSubset(f"store of {ct}")
        mem = r.mem
        for i in range(n):
            byte = bits if n == 1 else f"((_ extract {8 * i + 7} {8 * i}) {bits})"
            mem = StoreMem(mem, _addi(p.off, i), self.name_term(byte, "(_ BitVec 8)", "st"))
        r.mem = mem

    def float_bits(self, v: FVal) -> str:
        return v.bits

    def float_from_term(self, ct: CT, fpterm: str) -> FVal:
        """Result of a floating-point operation: some bit pattern whose value is the term (NaN payload unspecified)."""
        w = ct.width
        b = self.fresh(f"(_ BitVec {w})", "fbits")
        self.assume(Eq(f"((_ to_fp {8 if w == 32 else 11} {24 if w == 32 else 53}) {b})", fpterm))
        return FVal(ct, b)

    def name_term(self, t: str, sort: str, hint: str) -> str:
        if sort == "Int":
            t = simp_int(t)
        if len(t) < 60:
            return t
        c = self.fresh(sort, hint)
        self.pc.append(Eq(c, t))
        return c

    # -- statements -----------------------------------------------------------------------------------
    where = "?"

    def exec(self, n: dict) -> None:
        k = n["kind"]
        self.where = f"L{n.get('range', {}).get('begin', {}).get('line', n.get('loc', {}).get('line', '?'))}" if False else self.where
        m = getattr(self, "s_" + k, None)
        if m is None:
            # expression statement
            if k.endswith("Expr") or k.endswith("Operator") or k.endswith("Literal"):
                self.eval(n)
                return
            raise COutOfSubset(f"statement {k}")
        m(n)

    def s_CompoundStmt(self, n: dict) -> None:
        for ch in n.get("inner", []):
            self.exec(ch)

    def s_NullStmt(self, n: dict) -> None:
        pass

    def s_StaticAssertDecl(self, n: dict) -> None:
        pass

    def s_DeclStmt(self, n: dict) -> None:
        for d in n.get("inner", []):
            k = d["kind"]
            if k == "VarDecl":
                self.var_decl(d)
            elif k in ("RecordDecl",):
                self.e.record_decl(d)
            elif k in ("TypedefDecl", "StaticAssertDecl", "EnumDecl"):
                if k == "TypedefDecl":
                    self.e.typedef_decl(d)
            else:
                raise COutOfSubset(f"declaration {k}")

    def var_decl(self, d: dict) -> None:
        ct = self.e.types.parse(d["type"])
        init = [x for x in d.get("inner", []) if x["kind"] not in ("FullComment",)]
        init = init[0] if init else None
        vid = d["id"]
        self.names[d["name"]] = vid
        if ct.kind == "array":
            r = self.new_region(d["name"], str(self.e.types.sizeof(ct)), ConstMem("#x00") if init is not None else None)
            self.vars[vid] = ("region", r.name, ct)
            if init is not None:
                self.init_array(r, ct, init)
            return
        if ct.kind == "record" and not self.e.types.is_scalar_union(ct):
            root = self.new_struct_root(d["name"])
            self.vars[vid] = ("structroot", root, ct)
            if init is not None:
                raise COutOfSubset("initialiser of a local structure")
            return
        if ct.kind == "record":
            w = 8 * self.e.types.sizeof(ct)
            if init is None:
                self.vars[vid] = UVal(ct, self.fresh(f"(_ BitVec {w})", d["name"] + ".uninit"), w)
            else:
                self.vars[vid] = self.init_record(ct, init)
            return
        if vid in self.addr_taken:
            r = self.new_region(d["name"], str(ct.size))
            self.vars[vid] = ("region", r.name, ct)
            if init is not None:
                self.store(PVal(CT("ptr", elem=ct), r.name, "0"), ct, self.eval(init))
            return
        if init is None:
            self.vars[vid] = ("uninit", ct)
        else:
            self.vars[vid] = self.coerce_to(self.eval(init), ct)

    def coerce_to(self, v: typing.Any, ct: CT) -> typing.Any:
        if isinstance(v, Val) and ct.kind == "int":
            if v.ct.width == ct.width and v.ct.signed == ct.signed and v.ct.is_bool == ct.is_bool:
                return Val(ct, v.rep, v.t)
            return self.convert(v, ct)
        return v

    def init_array(self, r: Region, ct: CT, init: dict) -> None:
        if init["kind"] != "InitListExpr":
            raise COutOfSubset("array initialiser")
        items = init.get("inner", [])
        if "array_filler" in init:
            items = [x for x in init["array_filler"] if x["kind"] != "ImplicitValueInitExpr"]
        el = ct.elem
        assert el is not None
        for i, it in enumerate(items):
            if it["kind"] == "ImplicitValueInitExpr":
                continue
            self.store(PVal(CT("ptr", elem=el), r.name, str(i * el.size)), el, self.eval(it))

    def init_record(self, ct: CT, init: dict) -> UVal:
        rec = self.e.types.records[ct.name]
        w = 8 * self.e.types.sizeof(ct)
        if init["kind"] != "InitListExpr":
            raise COutOfSubset("record initialiser")
        items = init.get("inner", [])
        fld = init.get("field")
        fname, fct = rec["fields"][0]
        if fld:
            for nm, t in rec["fields"]:
                if nm == fld.get("name"):
                    fname, fct = nm, t
        u = UVal(ct, bvlit(0, w), w)
        return self.union_write(u, fct, self.eval(items[0]))

    def union_read(self, u: UVal, fct: CT) -> typing.Any:
        fw = 8 * fct.size
        bits = u.bits if fw == u.width else f"((_ extract {fw - 1} 0) {u.bits})"
        if fct.kind == "int":
            return Val(fct, "B", bits)
        if fct.kind == "float":
            return FVal(fct, bits)
        raise COutOfSubset("union member kind")

    def union_write(self, u: UVal, fct: CT, v: typing.Any) -> UVal:
        fw = 8 * fct.size
        if fct.kind == "int":
            bits = self.to_bv(self.coerce_to(v, fct), fct.width).t
        elif fct.kind == "float":
            bits = self.float_bits(v)
        else:
            raise COutOfSubset("union member kind")
        if fw < u.width:
            bits = f"(concat ((_ extract {u.width - 1} {fw}) {u.bits}) {bits})"
        return UVal(u.ct, self.name_term(bits, f"(_ BitVec {u.width})", "u"), u.width)

    def s_ReturnStmt(self, n: dict) -> None:
        inner = n.get("inner", [])
        raise _Return(self.eval(inner[0]) if inner else None)

    def s_IfStmt(self, n: dict) -> None:
        inner = n["inner"]
        c = self.nonzero(self.eval(inner[0]))
        if c not in ("true", "false") and _simple_block(inner[1]) and (len(inner) < 3 or _simple_block(inner[2])) and _pure_cond(inner[0]) \
                and not any(isinstance(self.vars.get(v), tuple) for arm in inner[1:3] for v in _assigned_ids(arm)):
            # (a local whose address is taken lives in a memory region: assignments to it are stores, which this merge
            #  does not guard -- such blocks take the ordinary path split below)
            # both arms only assign register scalars: execute both under their guard and merge (no path split).
            # This is what keeps a sequence of independent saturation tests linear instead of exponential.
            before = dict(self.vars)
            at = len(self.pc)
            self.pc.append(c)
            self.exec(inner[1])
            del self.pc[at]  # only the guard goes; definitions of fresh symbols introduced in the arm stay
            then_vars = self.vars
            self.vars = dict(before)
            if len(inner) > 2:
                at = len(self.pc)
                self.pc.append(Not(c))
                self.exec(inner[2])
                del self.pc[at]
            else_vars = self.vars
            merged = dict(before)
            for vid in set(then_vars) | set(else_vars):
                a, b = then_vars.get(vid), else_vars.get(vid)
                if a is b or a == b:
                    merged[vid] = a
                    continue
                if isinstance(a, Val) and isinstance(b, Val):
                    if a.rep == b.rep and a.ct.width == b.ct.width:
                        merged[vid] = Val(a.ct, a.rep, Ite(c, a.t, b.t))
                    else:
                        x, y = self.to_bv(a, a.ct.width), self.to_bv(b, a.ct.width)
                        merged[vid] = Val(a.ct, "B", Ite(c, x.t, y.t))
                elif isinstance(a, FVal) and isinstance(b, FVal):
                    merged[vid] = FVal(a.ct, Ite(c, a.bits, b.bits))
                else:
                    raise COutOfSubset("merge of non-scalar variables")
            self.vars = merged
            return
        if self.branch(c):
            self.exec(inner[1])
        elif len(inner) > 2:
            self.exec(inner[2])

    def s_BreakStmt(self, n: dict) -> None:
        raise _Break()

    def s_ContinueStmt(self, n: dict) -> None:
        raise _Continue()

    def s_WhileStmt(self, n: dict) -> None:
        idx = self.loop_ordinal
        self.loop_ordinal += 1
        if idx not in self.c.loops:
            raise CBindingError(f"{self.fname}: loop #{idx} has no invariant in the contract")
        lp = self.c.loops[idx]
        cond_n, body = n["inner"][0], n["inner"][1]
        # establishment
        for nm, t in lp.invariant(self):
            self.prove(t, "inv-init", f"loop{idx}.{nm}")
        if lp.mem_invariant:
            for rid, spec in lp.mem_invariant(self).items():
                self.prove_mem_eq(self.regions[rid], spec, "inv-init", f"loop{idx}.mem.{_short(rid)}")
        # havoc: scalars assigned in the loop, memories written in the loop
        assigned = self.assigned_in(n)
        for vid in assigned:
            v = self.vars.get(vid)
            if isinstance(v, Val):
                srt = "Int" if v.rep == "I" else f"(_ BitVec {v.ct.width})"
                nv = Val(v.ct, v.rep, self.fresh(srt, "h"))
                if v.rep == "I":
                    lo, hi = self.range_of(v.ct)
                    self.assume(And(app("<=", str(lo), nv.t), app("<=", nv.t, str(hi))))
                self.vars[vid] = nv
            elif v is not None and not isinstance(v, tuple):
                raise COutOfSubset("havoc of a non-integer variable")
        self.cut = len(self.pc)
        self.known = {}
        if lp.mem_invariant:
            for rid, spec in lp.mem_invariant(self).items():
                self.regions[rid].mem = HavocMem(spec)
        else:
            for rid in self.written_regions(n):
                raise CBindingError(f"{self.fname}: loop #{idx} writes memory but has no memory invariant")
        for nm, t in lp.invariant(self):
            self.assume(t)
        v0 = lp.variant(self) if lp.variant else None
        c = self.nonzero(self.eval(cond_n))
        if self.branch(c):
            try:
                self.exec(body)
            except _Break:
                return
            except _Continue:
                pass
            for nm, t in lp.invariant(self):
                self.prove(t, "inv-pres", f"loop{idx}.{nm}")
            if lp.mem_invariant:
                for rid, spec in lp.mem_invariant(self).items():
                    self.prove_mem_eq(self.regions[rid], spec, "inv-pres", f"loop{idx}.mem.{_short(rid)}")
            if v0 is not None:
                v1 = lp.variant(self)  # type: ignore
                self.prove(And(app("<=", "0", v0), app("<", v1, v0)), "variant", f"loop{idx}")
            raise PathEnd()

    def assigned_in(self, n: dict) -> typing.List[str]:
        out: typing.List[str] = []

        def walk(x: dict) -> None:
            k = x.get("kind")
            if k in ("BinaryOperator", "CompoundAssignOperator") and (x.get("opcode", "").endswith("=") and x.get("opcode") not in ("==", "!=", "<=", ">=")):
                lhs = x["inner"][0]
                while lhs["kind"] in ("ParenExpr",):
                    lhs = lhs["inner"][0]
                if lhs["kind"] == "DeclRefExpr":
                    out.append(lhs["referencedDecl"]["id"])
            if k == "UnaryOperator" and x.get("opcode") in ("++", "--"):
                lhs = x["inner"][0]
                if lhs["kind"] == "DeclRefExpr":
                    out.append(lhs["referencedDecl"]["id"])
            for ch in x.get("inner", []):
                walk(ch)

        walk(n)
        return list(dict.fromkeys(out))

    def written_regions(self, n: dict) -> typing.List[str]:
        found: typing.List[str] = []

        def walk(x: dict) -> None:
            k = x.get("kind")
            if k in ("BinaryOperator", "CompoundAssignOperator") and x.get("opcode", "").endswith("=") and x.get("opcode") not in ("==", "!=", "<=", ">="):
                lhs = x["inner"][0]
                if lhs["kind"] in ("ArraySubscriptExpr", "UnaryOperator", "MemberExpr"):
                    found.append("?")
            if k == "CallExpr":
                found.append("?call")
            for ch in x.get("inner", []):
                walk(ch)

        walk(n)
        return found

    def prove_mem_eq(self, r: Region, spec: Mem, kind: str, label: str) -> None:
        j = self.fresh("Int", "j")
        saved = len(self.pc)
        self.pc.append(And(app("<=", "0", j), app("<", j, r.length)))
        self.prove(Eq(r.mem.read(j), spec.read(j)), kind, label)
        del self.pc[saved:]

    MAX_UNROLL = 72

    def s_ForStmt(self, n: dict) -> None:
        """Generated array loops run to a bound that is a constant of the program text (the capacity): they are fully
        unrolled; the unrolling stops when the loop condition is infeasible (checked), never by a fixed cut-off."""
        init, _condvar, cond, inc, body = (n["inner"] + [{}] * 5)[:5]
        if init:
            self.exec(init)
        for k in range(self.MAX_UNROLL + 1):
            if cond:
                c = self.nonzero(self.eval(cond))
                if not self.branch(c):
                    return
            if k == self.MAX_UNROLL:
                raise COutOfSubset("loop does not terminate within the unrolling limit (capacity too large for this engine)")
            try:
                self.exec(body)
            except _Break:
                return
            except _Continue:
                pass
            if inc:
                self.eval(inc)

    def string_literal(self, n: dict) -> PVal:
        raw = n.get("value", '""')
        try:
            text = json.loads(raw) if raw.startswith('"') else raw
        except Exception:
            text = ""
        data = text.encode("latin-1", "replace") + b"\x00"
        mem: Mem = ConstMem("#x00")
        for i, b in enumerate(data):
            mem = StoreMem(mem, str(i), bvlit(b, 8))
        r = self.new_region("strlit", str(len(data)), mem, writable=False)
        return PVal(CT("ptr", elem=CT("int", 8, True)), r.name, "0")

    # -- expressions ----------------------------------------------------------------------------------
    def eval(self, n: dict) -> typing.Any:
        k = n["kind"]
        m = getattr(self, "e_" + k, None)
        if m is None:
            raise COutOfSubset(f"expression {k}")
        return m(n)

    def e_ParenExpr(self, n: dict) -> typing.Any:
        return self.eval(n["inner"][0])

    def e_ConstantExpr(self, n: dict) -> typing.Any:
        return self.eval(n["inner"][0])

    def e_IntegerLiteral(self, n: dict) -> typing.Any:
        return Val(self.e.types.parse(n["type"]), "I", int_lit(int(n["value"])))

    def e_CharacterLiteral(self, n: dict) -> typing.Any:
        return Val(self.e.types.parse(n["type"]), "I", int_lit(int(n["value"])))

    def e_CXXBoolLiteralExpr(self, n: dict) -> typing.Any:
        return Val(CT("int", 8, False, is_bool=True), "I", "1" if n["value"] else "0")

    def e_FloatingLiteral(self, n: dict) -> typing.Any:
        ct = self.e.types.parse(n["type"])
        return FVal(ct, fp_bits_const(float(n["value"]), ct.width))

    def e_UnaryExprOrTypeTraitExpr(self, n: dict) -> typing.Any:
        if n.get("name") != "sizeof":
            raise COutOfSubset(n.get("name", "trait"))
        if "argType" in n:
            sz = self.e.types.sizeof(self.e.types.parse(n["argType"]))
        else:
            sz = self.e.types.sizeof(self.e.types.parse(n["inner"][0]["type"]))
        return Val(CT("int", 64, False, index=True), "I", str(sz))

    def e_DeclRefExpr(self, n: dict) -> typing.Any:
        # as an rvalue only for functions / enum constants; variables are read through LValueToRValue
        return ("lvalue-var", n["referencedDecl"]["id"], n["referencedDecl"].get("name"))

    def lvalue(self, n: dict) -> typing.Any:
        k = n["kind"]
        if k == "ParenExpr":
            return self.lvalue(n["inner"][0])
        if k == "DeclRefExpr":
            vid = n["referencedDecl"]["id"]
            v = self.vars.get(vid)
            if isinstance(v, tuple) and v[0] == "region":
                return ("mem", PVal(CT("ptr", elem=v[2]), v[1], "0"), v[2])
            if isinstance(v, tuple) and v[0] == "structroot":
                return ("struct", v[1], (), v[2])
            return ("var", vid)
        if k == "ArraySubscriptExpr":
            base = self.eval(n["inner"][0])
            idx = self.to_int(self.eval(n["inner"][1]))
            if not isinstance(base, PVal):
                raise COutOfSubset("subscript base")
            if base.is_struct:
                # element of an array of structures: the index is made literal (case split) so that the element is a path
                kk = lit_of(idx.t)
                if kk is None:
                    kk = self.small_split(idx.t)
                if kk is None:
                    raise COutOfSubset("symbolic index into an array of structures")
                cap = getattr(base, "count", None)
                return ("struct", base.region, base.path + (str(kk),), base.ct.elem)
            el = base.ct.elem
            assert el is not None
            off = _add(base.off, _mul(idx.t, el.size))
            return ("mem", PVal(base.ct, base.region, off), el)
        if k == "UnaryOperator" and n["opcode"] == "*":
            p = self.eval(n["inner"][0])
            if not isinstance(p, PVal):
                raise COutOfSubset("deref of non-pointer")
            return ("mem", p, p.ct.elem)
        if k == "MemberExpr":
            if n.get("isArrow"):
                p = self.eval(n["inner"][0])
                if not (isinstance(p, PVal) and p.is_struct):
                    raise COutOfSubset("-> on a non-structure pointer")
                if p.region is None:
                    self.prove("false", "safety", f"null-dereference:member@{self.where}")
                    raise PathEnd()
                base = ("struct", p.region, p.path, p.ct.elem)
            else:
                base = self.lvalue(n["inner"][0])
            if base[0] == "struct":
                return self.member_lvalue(base, n.get("name", ""))
            ct = self.e.types.parse(n["type"])
            return ("member", base, n["name"], ct)
        raise COutOfSubset(f"lvalue {k}")

    def read_lvalue(self, lv: typing.Any) -> typing.Any:
        if lv[0] == "var":
            v = self.vars.get(lv[1])
            if v is None:
                raise COutOfSubset("read of unknown variable")
            if isinstance(v, tuple) and v[0] == "uninit":
                self.prove("false", "safety", f"read-of-uninitialised-variable@{self.where}")
                raise PathEnd()
            return v
        if lv[0] == "mem":
            ct = lv[2]
            if ct.kind == "array":
                return PVal(CT("ptr", elem=ct.elem), lv[1].region, lv[1].off)
            return self.load(lv[1], ct)
        if lv[0] == "member":
            u = self.read_lvalue(lv[1])
            if not isinstance(u, UVal):
                raise COutOfSubset("member of non-union")
            return self.union_read(u, lv[3])
        if lv[0] == "structarr":
            return PVal(CT("ptr", elem=lv[3].elem), lv[1], "0", lv[2], True)
        raise COutOfSubset("lvalue read")

    def write_lvalue(self, lv: typing.Any, v: typing.Any) -> None:
        if lv[0] == "var":
            cur = self.vars.get(lv[1])
            if isinstance(cur, Val):
                v = self.coerce_to(v, cur.ct)
            elif isinstance(cur, tuple) and cur[0] == "uninit":
                v = self.coerce_to(v, cur[1])
            if isinstance(v, Val):
                v = Val(v.ct, v.rep, self.name_term(v.t, "Int" if v.rep == "I" else f"(_ BitVec {v.ct.width})", "v"))
            self.vars[lv[1]] = v
            return
        if lv[0] == "mem":
            self.store(lv[1], lv[2], v)
            return
        if lv[0] == "member":
            u = self.read_lvalue(lv[1])
            self.write_lvalue(lv[1], self.union_write(u, lv[3], v))
            return
        raise COutOfSubset("lvalue write")

    def e_ImplicitCastExpr(self, n: dict) -> typing.Any:
        return self.cast(n)

    def e_CStyleCastExpr(self, n: dict) -> typing.Any:
        return self.cast(n)

    def cast(self, n: dict) -> typing.Any:
        ck = n["castKind"]
        sub = n["inner"][0]
        if ck == "LValueToRValue":
            return self.read_lvalue(self.lvalue(sub))
        if ck == "ArrayToPointerDecay":
            if sub["kind"] == "StringLiteral":
                return self.string_literal(sub)
            lv = self.lvalue(sub)
            if lv[0] == "structarr":
                return PVal(CT("ptr", elem=lv[3].elem), lv[1], "0", lv[2], True)
            if lv[0] != "mem":
                raise COutOfSubset("array decay")
            return PVal(CT("ptr", elem=lv[2].elem), lv[1].region, lv[1].off)
        if ck in ("FunctionToPointerDecay", "BuiltinFnToFnPtr"):
            return ("function", sub["referencedDecl"]["name"])
        to = self.e.types.parse(n["type"])
        v = self.eval(sub)
        if ck in ("NoOp",):
            if isinstance(v, Val) and to.kind == "int":
                return Val(to if (to.width == v.ct.width and to.signed == v.ct.signed) else v.ct, v.rep, v.t)
            if isinstance(v, PVal) and to.kind == "ptr" and not v.is_struct:
                return PVal(to, v.region, v.off)
            return v
        if ck == "IntegralCast":
            return self.convert(v, to, explicit=n["kind"] == "CStyleCastExpr")
        if ck == "IntegralToBoolean":
            return self.from_cond(self.nonzero(v), to)
        if ck == "BitCast":
            if isinstance(v, PVal):
                return PVal(to if not v.is_struct else v.ct, v.region, v.off, v.path, v.is_struct)
            raise COutOfSubset("bitcast")
        if ck == "NullToPointer":
            return PVal(to, None, "0")
        if ck == "PointerToIntegral":
            self.need_addresses()
            if isinstance(v, PVal) and v.region is not None:
                return Val(to, "I", _add(self.regions[v.region].base, v.off))  # type: ignore
            return Val(to, "I", "0")
        if ck == "PointerToBoolean":
            return self.from_cond(self.nonzero(v), to)
        if ck == "ToVoid":
            return None
        if ck == "FloatingCast":
            assert isinstance(v, FVal)
            e, s = (8, 24) if to.width == 32 else (11, 53)
            if to.width == v.ct.width:
                return FVal(to, v.bits)
            return self.float_from_term(to, f"((_ to_fp {e} {s}) RNE {v.t})")
        if ck == "IntegralToFloating":
            e, s = (8, 24) if to.width == 32 else (11, 53)
            b = self.to_bv(v)
            fn = "to_fp" if v.ct.signed else "to_fp_unsigned"
            return self.float_from_term(to, f"((_ {fn} {e} {s}) RNE {b.t})")
        if ck == "FloatingToIntegral":
            assert isinstance(v, FVal)
            # UB unless the truncated value is representable
            lo, hi = self.range_of(to)
            e, s = (8, 24) if v.ct.width == 32 else (11, 53)
            self.prove(And(Not(f"(fp.isNaN {v.t})"), Not(f"(fp.isInfinite {v.t})"),
                           f"(fp.lt {fp_const(float(lo) - 1.0, v.ct.width)} {v.t})", f"(fp.lt {v.t} {fp_const(float(hi) + 1.0, v.ct.width)})"),
                       "safety", f"float-to-int-in-range@{self.where}", "fp")
            fn = "fp.to_sbv" if to.signed else "fp.to_ubv"
            return Val(to, "B", f"((_ {fn} {to.width}) RTZ {v.t})")
        if ck == "FloatingToBoolean":
            return self.from_cond(self.nonzero(v), to)
        raise COutOfSubset(f"cast kind {ck}")

    def e_UnaryOperator(self, n: dict) -> typing.Any:
        op = n["opcode"]
        sub = n["inner"][0]
        if op == "&":
            lv = self.lvalue(sub)
            if lv[0] == "struct":
                return PVal(CT("ptr", elem=lv[3]), lv[1], "0", lv[2], True)
            if lv[0] == "mem":
                return PVal(CT("ptr", elem=lv[2]), lv[1].region, lv[1].off)
            raise COutOfSubset("address of a register variable (pre-scan missed it)")
        if op == "*":
            return self.read_lvalue(self.lvalue(n))
        if op in ("++", "--"):
            lv = self.lvalue(sub)
            cur = self.read_lvalue(lv)
            one = Val(cur.ct, "I", "1")
            new = self.arith("+" if op == "++" else "-", cur, one, cur.ct)
            self.write_lvalue(lv, new)
            return cur if n.get("isPostfix") else new
        v = self.eval(sub)
        ct = self.e.types.parse(n["type"])
        if op == "!":
            return self.from_cond(Not(self.nonzero(v)), ct)
        if op == "~":
            k = lit_of(v.t) if isinstance(v, Val) else None
            if k is not None:
                r = (~k) % (1 << ct.width)
                if ct.signed and r >= 1 << (ct.width - 1):
                    r -= 1 << ct.width
                return Val(ct, "I", int_lit(r))
            b = self.to_bv(v, ct.width)
            return Val(ct, "B", f"(bvnot {b.t})")
        if op == "-":
            if isinstance(v, FVal):
                w = v.ct.width
                return FVal(v.ct, f"(bvxor {v.bits} {bvlit(1 << (w - 1), w)})")
            return self.arith("-", Val(ct, "I", "0"), v, ct)
        if op == "+":
            return v
        raise COutOfSubset(f"unary {op}")

    def e_ConditionalOperator(self, n: dict) -> typing.Any:
        c = self.nonzero(self.eval(n["inner"][0]))
        if c in ("true", "false"):
            return self.eval(n["inner"][1 if c == "true" else 2])
        if _pure(n["inner"][1]) and _pure(n["inner"][2]):
            # no side effects in either arm: evaluate both under their guard and merge (no path split)
            at = len(self.pc)
            self.pc.append(c)
            a = self.eval(n["inner"][1])
            del self.pc[at]
            at = len(self.pc)
            self.pc.append(Not(c))
            b = self.eval(n["inner"][2])
            del self.pc[at]
            if isinstance(a, Val) and isinstance(b, Val):
                if a.rep == "I" or b.rep == "I":
                    x, y = self.to_int(a), self.to_int(b)
                    return Val(a.ct, "I", Ite(c, x.t, y.t))
                if a.ct.width == b.ct.width:
                    return Val(a.ct, "B", Ite(c, a.t, b.t))
            if isinstance(a, FVal) and isinstance(b, FVal):
                return FVal(a.ct, Ite(c, a.bits, b.bits))
        if self.branch(c):
            return self.eval(n["inner"][1])
        return self.eval(n["inner"][2])

    def e_BinaryOperator(self, n: dict) -> typing.Any:
        op = n["opcode"]
        a_n, b_n = n["inner"]
        ct = self.e.types.parse(n["type"]) if n["type"].get("qualType") else None
        if op == "=":
            lv = self.lvalue(a_n)
            v = self.eval(b_n)
            self.write_lvalue(lv, v)
            return v
        if op == "&&":
            a = self.nonzero(self.eval(a_n))
            if not self.branch(a):
                return self.from_cond("false")
            return self.from_cond(self.nonzero(self.eval(b_n)))
        if op == "||":
            a = self.nonzero(self.eval(a_n))
            if self.branch(a):
                return self.from_cond("true")
            return self.from_cond(self.nonzero(self.eval(b_n)))
        if op == ",":
            self.eval(a_n)
            return self.eval(b_n)
        if op == "/":
            # the array-length idiom sizeof(a) / sizeof(a[0]): independent of the element's layout
            lt, rt = self._sizeof_arg(a_n), self._sizeof_arg(b_n)
            if lt is not None and rt is not None and lt.kind == "array" and lt.elem == rt:
                return Val(CT("int", 64, False, index=True), "I", str(lt.count))
        a, b = self.eval(a_n), self.eval(b_n)
        return self.binop(op, a, b, ct)

    def _sizeof_arg(self, n: dict) -> typing.Optional[CT]:
        while n.get("kind") in ("ParenExpr", "ImplicitCastExpr") and n.get("inner"):
            n = n["inner"][0]
        if n.get("kind") != "UnaryExprOrTypeTraitExpr" or n.get("name") != "sizeof":
            return None
        try:
            return self.e.types.parse(n["argType"] if "argType" in n else n["inner"][0]["type"])
        except COutOfSubset:
            return None

    def e_CompoundAssignOperator(self, n: dict) -> typing.Any:
        op = n["opcode"][:-1]
        lv = self.lvalue(n["inner"][0])
        cur = self.read_lvalue(lv)
        rhs = self.eval(n["inner"][1])
        comp = self.e.types.parse(n["computeResultType"]) if "computeResultType" in n else None
        if isinstance(cur, Val) and comp is not None and comp.kind == "int":
            cur_c = self.convert(cur, comp) if (cur.ct.width != comp.width or cur.ct.signed != comp.signed) else cur
            if isinstance(rhs, Val) and (rhs.ct.width != comp.width or rhs.ct.signed != comp.signed) and op not in ("<<", ">>"):
                rhs = self.convert(rhs, comp)
            res = self.binop(op, cur_c, rhs, comp)
            res = self.convert(res, cur.ct) if (cur.ct.width != comp.width or cur.ct.signed != comp.signed) else res
        else:
            res = self.binop(op, cur, rhs, cur.ct if isinstance(cur, (Val, FVal)) else None)
        self.write_lvalue(lv, res)
        return res

    def binop(self, op: str, a: typing.Any, b: typing.Any, ct: typing.Optional[CT]) -> typing.Any:
        if isinstance(a, FVal) or isinstance(b, FVal):
            return self.fbinop(op, a, b, ct)
        if isinstance(a, PVal) or isinstance(b, PVal):
            return self.pbinop(op, a, b, ct)
        assert isinstance(a, Val) and isinstance(b, Val), (op, a, b)
        if op in ("<", ">", "<=", ">=", "==", "!="):
            return self.from_cond(self.icompare(op, a, b))
        assert ct is not None
        if op in ("+", "-", "*", "/", "%"):
            return self.arith(op, a, b, ct)
        if op in ("&", "|", "^") and lit_of(a.t) is not None and lit_of(b.t) is not None:
            x_, y_ = lit_of(a.t) % (1 << ct.width), lit_of(b.t) % (1 << ct.width)  # type: ignore
            r = {"&": x_ & y_, "|": x_ | y_, "^": x_ ^ y_}[op]
            if ct.signed and r >= 1 << (ct.width - 1):
                r -= 1 << ct.width
            return Val(ct, "I", int_lit(r))
        if op == "&" and (a.rep == "I" or b.rep == "I"):
            # x & ~(2^k - 1)  and  x & (2^k - 1) on non-negative integers stay in the integer domain
            for x_, m_ in ((a, b), (b, a)):
                mk = lit_of(m_.t)
                if mk is not None and x_.rep == "I" and not x_.ct.signed:
                    mk %= 1 << ct.width
                    low = (1 << ct.width) - mk
                    if mk + 1 > 0 and (mk + 1) & mk == 0:
                        simp = simplify_mod_div("mod", x_.t, mk + 1)
                        if simp is not None:
                            return Val(ct, "I", simp)
                        return Val(ct, "I", _fold(app("mod", x_.t, str(mk + 1))))
                    if low > 0 and low & (low - 1) == 0:
                        simp = simplify_mod_div("floor8", x_.t, low)
                        if simp is not None:
                            return Val(ct, "I", simp)
                        return Val(ct, "I", _fold(app("*", _fold(app("div", x_.t, str(low))), str(low))))
        if op in ("&", "|", "^"):
            x, y = self.to_bv(a, ct.width), self.to_bv(b, ct.width)
            return Val(ct, "B", f"({ {'&': 'bvand', '|': 'bvor', '^': 'bvxor'}[op]} {x.t} {y.t})")
        if op in ("<<", ">>"):
            return self.shift(op, a, b, ct)
        raise COutOfSubset(f"binary {op}")

    def icompare(self, op: str, a: Val, b: Val) -> str:
        if a.rep == "B" and b.rep == "I" and lit_of(b.t) is not None and lit_of(a.t) is None:
            b = Val(a.ct, "B", bvlit(lit_of(b.t), a.ct.width))  # type: ignore
        elif b.rep == "B" and a.rep == "I" and lit_of(a.t) is not None and lit_of(b.t) is None:
            a = Val(b.ct, "B", bvlit(lit_of(a.t), b.ct.width))  # type: ignore
        if a.rep == "B" and b.rep == "B" and a.ct.width == b.ct.width:
            s = a.ct.signed
            sym = {"<": "bvslt" if s else "bvult", ">": "bvsgt" if s else "bvugt", "<=": "bvsle" if s else "bvule",
                   ">=": "bvsge" if s else "bvuge"}.get(op)
            if sym:
                return f"({sym} {a.t} {b.t})"
            return Eq(a.t, b.t) if op == "==" else Not(Eq(a.t, b.t))
        x, y = self.to_int(a), self.to_int(b)
        if op == "==":
            return Eq(x.t, y.t)
        if op == "!=":
            return Not(Eq(x.t, y.t))
        return app(op, x.t, y.t)

    def arith(self, op: str, a: Val, b: Val, ct: CT) -> Val:
        a_bv = a.rep == "B" and lit_of(a.t) is None
        b_bv = b.rep == "B" and lit_of(b.t) is None
        if (a_bv or b_bv) and not ct.index:
            # bit domain: exact machine arithmetic; signed overflow (UB) is checked by widening
            x, y = self.to_bv(a, ct.width), self.to_bv(b, ct.width)
            w = ct.width
            if op in ("/", "%"):
                self.prove(Not(Eq(y.t, bvlit(0, w))), "safety", f"division-by-zero@{self.where}")
                if ct.signed:
                    self.prove(Not(And(Eq(x.t, bvlit(1 << (w - 1), w)), Eq(y.t, bvlit(-1, w)))), "safety", f"signed-overflow({op})@{self.where}")
                sym = {"/": "bvsdiv" if ct.signed else "bvudiv", "%": "bvsrem" if ct.signed else "bvurem"}[op]
                return Val(ct, "B", f"({sym} {x.t} {y.t})")
            sym = {"+": "bvadd", "-": "bvsub", "*": "bvmul"}[op]
            if ct.signed:
                ext = w if op == "*" else 1
                wide = f"({sym} ((_ sign_extend {ext}) {x.t}) ((_ sign_extend {ext}) {y.t}))"
                narrow = f"((_ sign_extend {ext}) ((_ extract {w - 1} 0) {wide}))"
                self.prove(Eq(wide, narrow), "safety", f"signed-overflow({op})@{self.where}")
            return Val(ct, "B", f"({sym} {x.t} {y.t})")
        x, y = self.to_int(a), self.to_int(b)
        lo, hi = self.range_of(ct)
        if op in ("/", "%"):
            self.prove(Not(Eq(y.t, "0")), "safety", f"division-by-zero@{self.where}")
            if ct.signed:
                # C truncates toward zero
                q = Ite(And(app(">=", x.t, "0"), app(">", y.t, "0")), app("div", x.t, y.t),
                        Ite(app(">=", x.t, "0"), app("-", app("div", x.t, app("-", y.t))),
                            Ite(app(">", y.t, "0"), app("-", app("div", app("-", x.t), y.t)), app("div", app("-", x.t), app("-", y.t)))))
                r = q if op == "/" else app("-", x.t, app("*", y.t, q))
            else:
                r = None
                if lit_of(y.t) == 8:
                    r = simplify_mod_div("div" if op == "/" else "mod", x.t, 8)
                if r is None:
                    r = app("div" if op == "/" else "mod", x.t, y.t)
            return Val(ct, "I", _fold(r))
        r = _fold(app(op, x.t, y.t))
        k = lit_of(r)
        if k is not None:
            if lo <= k <= hi:
                return Val(ct, "I", r)
            if ct.signed:
                self.prove("false", "safety", f"signed-overflow({op})@{self.where}")
            return Val(ct, "I", int_lit((k - lo) % (hi - lo + 1) + lo))
        if ct.signed:
            self.prove(And(app("<=", str(lo), r), app("<=", r, str(hi))), "safety", f"signed-overflow({op})@{self.where}")
            return Val(ct, "I", r)
        if ct.index or ct.width == 64:
            # index domain: wraparound is an obligation, so Int and machine arithmetic agree
            self.prove(And(app("<=", "0", r), app("<", r, TWO64)), "safety", f"no-wraparound({op})@{self.where}")
            return Val(ct, "I", r)
        # narrower unsigned: modular
        if self.e.split_casts and False:
            pass
        return Val(ct, "I", app("mod", r, str(hi + 1)))

    def shift(self, op: str, a: Val, b: Val, ct: CT) -> Val:
        w = ct.width
        x = self.to_bv(a, w) if a.ct.width == w or a.rep == "I" else self.bv_resize(self.to_bv(a), w)
        bi = self.to_int(b)
        k = lit_of(bi.t)
        if k is None:
            k = self.small_split(bi.t, 64)
        if k is None:
            self.prove(And(app("<=", "0", bi.t), app("<", bi.t, str(w))), "safety", f"shift-amount-in-range@{self.where}")
            amt = self.to_bv(Val(ct, "I", bi.t), w).t
        else:
            if not 0 <= k < w:
                self.prove("false", "safety", f"shift-amount-in-range@{self.where}")
                raise PathEnd()
            amt = bvlit(k, w)
        if op == "<<":
            if ct.signed:
                xi = self.to_int(x)
                r = app("*", xi.t, str(1 << k)) if k is not None else None
                if r is None:
                    raise COutOfSubset("signed left shift by a symbolic amount")
                lo, hi = self.range_of(ct)
                self.prove(And(app("<=", "0", xi.t), app("<=", r, str(hi))), "safety", f"signed-left-shift-overflow@{self.where}")
            return Val(ct, "B", f"(bvshl {x.t} {amt})")
        return Val(ct, "B", f"({'bvashr' if ct.signed else 'bvlshr'} {x.t} {amt})")

    def fbinop(self, op: str, a: typing.Any, b: typing.Any, ct: typing.Optional[CT]) -> typing.Any:
        assert isinstance(a, FVal) and isinstance(b, FVal)
        if op in ("<", ">", "<=", ">=", "==", "!="):
            sym = {"<": "fp.lt", ">": "fp.gt", "<=": "fp.leq", ">=": "fp.geq", "==": "fp.eq"}.get(op)
            if sym:
                return self.from_cond(f"({sym} {a.t} {b.t})")
            return self.from_cond(Not(f"(fp.eq {a.t} {b.t})"))
        sym = {"+": "fp.add", "-": "fp.sub", "*": "fp.mul", "/": "fp.div"}[op]
        return self.float_from_term(a.ct, f"({sym} RNE {a.t} {b.t})")

    def pbinop(self, op: str, a: typing.Any, b: typing.Any, ct: typing.Optional[CT]) -> typing.Any:
        if op in ("+", "-") and isinstance(a, PVal) and isinstance(b, Val) or (op == "+" and isinstance(b, PVal) and isinstance(a, Val)):
            p, i = (a, b) if isinstance(a, PVal) else (b, a)
            el = p.ct.elem
            sz = 1 if el is None or el.kind == "void" else el.size
            iv = self.to_int(i).t
            off = _add(p.off, _mul(iv, sz)) if op == "+" else _fold(app("-", p.off, _mul(iv, sz)))
            q = PVal(p.ct, p.region, off)
            if p.region is not None:
                # forming a pointer outside [base, base+len] is undefined behaviour even without dereferencing it
                self.prove(And(app("<=", "0", off), app("<=", off, self.regions[p.region].length)), "safety", f"pointer-arithmetic-in-object@{self.where}")
            return q
        if op in ("==", "!=") and isinstance(a, PVal) and isinstance(b, PVal):
            if a.region is None or b.region is None:
                same = "true" if a.region == b.region else "false"
            elif a.region == b.region:
                same = Eq(a.off, b.off)
            else:
                same = "false"
            return self.from_cond(same if op == "==" else Not(same))
        if op in ("<", ">", "<=", ">=") and isinstance(a, PVal) and isinstance(b, PVal):
            # relational comparison of pointers into different objects is unspecified; nunavut uses it only inside
            # assertions, evaluated here over the symbolic addresses of the (non-overlapping) objects
            self.need_addresses()
            x = _add(self.regions[a.region].base, a.off)  # type: ignore
            y = _add(self.regions[b.region].base, b.off)  # type: ignore
            return self.from_cond(app(op, x, y))
        raise COutOfSubset(f"pointer operation {op}")

    def e_ArraySubscriptExpr(self, n: dict) -> typing.Any:
        return self.read_lvalue(self.lvalue(n))

    def e_MemberExpr(self, n: dict) -> typing.Any:
        return self.read_lvalue(self.lvalue(n))

    def e_InitListExpr(self, n: dict) -> typing.Any:
        raise COutOfSubset("initialiser list outside a declaration")

    def e_CallExpr(self, n: dict) -> typing.Any:
        callee = self.eval(n["inner"][0])
        if not (isinstance(callee, tuple) and callee[0] == "function"):
            raise COutOfSubset("indirect call")
        name = callee[1]
        args = [self.eval(a) for a in n["inner"][1:]]
        return self.call(name, args, n)

    def call(self, name: str, args: typing.List[typing.Any], n: dict) -> typing.Any:
        k = self.call_ord.get(name, 0)
        self.call_ord[name] = k + 1
        if name == "__vk_assert":
            c = self.nonzero(args[0])
            self.prove(c, "assert", f"NUNAVUT_ASSERT#{k}")
            self.assume(c)
            return None
        if name in ("memmove", "memcpy"):
            dst, src, cnt = args[0], args[1], self.to_int(args[2]).t
            rd = self.check_access(dst, cnt, name + ".dst", True)
            rs = self.check_access(src, cnt, name + ".src", False)
            if name == "memcpy" and dst.region == src.region:
                self.prove(Or(app("<=", app("+", dst.off, cnt), src.off), app("<=", app("+", src.off, cnt), dst.off)), "safety", f"memcpy-no-overlap@{self.where}")
            rd.mem = MoveMem(rd.mem, dst.off, rs.mem, src.off, cnt)
            return dst
        if name == "memset":
            dst, val, cnt = args[0], self.to_bv(args[1], 8), self.to_int(args[2]).t
            rd = self.check_access(dst, cnt, "memset", True)
            rd.mem = MemsetMem(rd.mem, dst.off, cnt, val.t)
            return dst
        if name in ("__builtin_isfinite", "isfinite", "__builtin_isnan", "isnan", "__builtin_isinf", "isinf", "__builtin_isinf_sign"):
            v = args[0]
            if not isinstance(v, FVal):
                raise COutOfSubset(f"{name} of a non-float")
            t = {"isfinite": And(Not(f"(fp.isNaN {v.t})"), Not(f"(fp.isInfinite {v.t})")), "isnan": f"(fp.isNaN {v.t})",
                 "isinf": f"(fp.isInfinite {v.t})"}[name.replace("__builtin_", "").replace("_sign", "")]
            return self.from_cond(t)
        if name not in self.e.contracts:
            raise COutOfSubset(f"call to {name}: no contract")
        c = self.e.contracts[name]
        fdecl = self.e.functions[name]
        pnames = [p["name"] for p in fdecl.get("inner", []) if p["kind"] == "ParmVarDecl"]
        ptypes = [self.e.types.parse(p["type"]) for p in fdecl.get("inner", []) if p["kind"] == "ParmVarDecl"]
        amap = {}
        for pn, pt, a in zip(pnames, ptypes, args):
            amap[pn] = self.coerce_to(a, pt) if isinstance(a, Val) else a
        cx = CallCx(self, amap, {rid: r.mem for rid, r in self.regions.items()})
        for i, r in enumerate(c.requires(cx)):
            self.prove(r, "pre", f"{name}.requires{i}@call{k}")
            self.assume(r)
        post = c.ensures(cx)
        for rid, spec in post.get("mem", {}).items():
            if not self.regions[rid].writable:
                self.prove("false", "safety", f"callee-writes-const-region@{name}")
            self.regions[rid].mem = spec
        rt = self.e.types.parse_str(strip_quals(fdecl["type"]["qualType"].split("(")[0].strip()))
        res: typing.Any = None
        if rt.kind == "int":
            spec = post.get("result")
            if spec is None:
                srt = "Int" if rt.index else f"(_ BitVec {rt.width})"
                res = Val(rt, "I" if rt.index else "B", self.fresh(srt, name + ".ret"))
            else:
                res = Val(rt, spec[0], self.name_term(spec[1], "Int" if spec[0] == "I" else f"(_ BitVec {rt.width})", name + ".ret"))
            if res.rep == "I":
                lo, hi = self.range_of(rt)
                self.assume(And(app("<=", str(lo), res.t), app("<=", res.t, str(hi))))
        elif rt.kind == "float":
            spec = post.get("result")
            t = self.fresh(f"(_ BitVec {rt.width})", name + ".ret")
            res = FVal(rt, t)
            if spec is not None:
                # ("bits", term): exact bit pattern;  ("fp", term): the IEEE value
                self.assume(Eq(t, spec[1]) if spec[0] == "bits" else Eq(res.t, spec[1]))
        cx.result = res
        for nm, t in post.get("extra_fn", lambda cx: [])(cx) if callable(post.get("extra_fn")) else []:
            self.assume(t)
        for nm, t in post.get("extra", []):
            self.assume(t)
        return res


_PURE_BUILTINS = ("__builtin_isfinite", "__builtin_isnan", "__builtin_isinf", "__builtin_isinf_sign", "isfinite", "isnan", "isinf")


def _pure_cond(n: dict) -> bool:
    k = n.get("kind")
    if k == "CallExpr":
        callee = n["inner"][0]
        while callee.get("kind") in ("ImplicitCastExpr", "ParenExpr"):
            callee = callee["inner"][0]
        if (callee.get("referencedDecl") or {}).get("name") not in _PURE_BUILTINS:
            return False
        return all(_pure_cond(a) for a in n["inner"][1:])
    if k in ("CompoundAssignOperator", "ConditionalOperator"):
        return False
    if k == "BinaryOperator" and n.get("opcode") in ("=", ",", "&&", "||"):
        return False
    if k == "UnaryOperator" and n.get("opcode") in ("++", "--", "*"):
        return False
    if k in ("ArraySubscriptExpr", "MemberExpr"):
        return False  # memory reads carry bounds obligations: keep them on their own path
    return all(_pure_cond(ch) for ch in n.get("inner", []))


def _assigned_ids(n: dict) -> typing.List[str]:
    """ids of the variables assigned (plain `=`) anywhere in a simple block"""
    out = []
    if n.get("kind") == "BinaryOperator" and n.get("opcode") == "=":
        lhs = n["inner"][0]
        while lhs.get("kind") in ("ParenExpr",):
            lhs = lhs["inner"][0]
        if lhs.get("kind") == "DeclRefExpr":
            out.append(lhs["referencedDecl"]["id"])
    for ch in n.get("inner", []) or []:
        if isinstance(ch, dict):
            out += _assigned_ids(ch)
    return out


def _simple_block(n: dict) -> bool:
    """only assignments of pure expressions to local (register) scalar variables, possibly under nested simple ifs"""
    k = n.get("kind")
    if k == "CompoundStmt":
        return all(_simple_block(ch) for ch in n.get("inner", []))
    if k == "NullStmt":
        return True
    if k == "IfStmt":
        inner = n["inner"]
        return _pure_cond(inner[0]) and all(_simple_block(x) for x in inner[1:])
    if k == "BinaryOperator" and n.get("opcode") == "=":
        lhs, rhs = n["inner"]
        while lhs.get("kind") == "ParenExpr":
            lhs = lhs["inner"][0]
        return lhs.get("kind") == "DeclRefExpr" and _pure_cond(rhs)
    return False


def _pure(n: dict) -> bool:
    k = n.get("kind")
    if k in ("CallExpr", "CompoundAssignOperator"):
        return False
    if k == "BinaryOperator" and n.get("opcode") in ("=", "&&", "||", ","):
        return False
    if k == "UnaryOperator" and n.get("opcode") in ("++", "--"):
        return False
    if k == "ConditionalOperator":
        return False
    return all(_pure(ch) for ch in n.get("inner", []))


def _balanced(s: str) -> bool:
    d = 0
    for ch in s:
        if ch == "(":
            d += 1
        elif ch == ")":
            d -= 1
            if d < 0:
                return False
    return d == 0


def _short(rid: str) -> str:
    return rid.split("#")[0]


def _addi(off: str, i: int) -> str:
    if i == 0:
        return off
    k = lit_of(off)
    if k is not None:
        return str(k + i)
    return app("+", off, str(i))


def _add(a: str, b: str) -> str:
    return _fold(app("+", a, b))


def _mul(a: str, k: int) -> str:
    if k == 1:
        return a
    return _fold(app("*", a, str(k)))


def _fold(t: str) -> str:
    m = re.fullmatch(r"\(([-+*]) (\(- \d+\)|\d+) (\(- \d+\)|\d+)\)", t)
    if m:
        a, b = smt.smt_int(m.group(2)), smt.smt_int(m.group(3))
        return int_lit({"+": a + b, "-": a - b, "*": a * b}[m.group(1)])
    m = re.fullmatch(r"\(\+ (.+) 0\)", t)
    if m and _balanced(m.group(1)):
        return m.group(1)
    m = re.fullmatch(r"\(\+ 0 (.+)\)", t)
    if m and _balanced(m.group(1)):
        return m.group(1)
    m = re.fullmatch(r"\((div|mod) (\d+) (\d+)\)", t)
    if m and int(m.group(3)) > 0:
        a, b = int(m.group(2)), int(m.group(3))
        return str(a // b if m.group(1) == "div" else a % b)
    return t


def _lin(e: typing.Any) -> typing.Optional[typing.Tuple[int, typing.Dict[str, int]]]:
    """linear form (constant, {atom: coefficient}) of an Int s-expression built from + - * by literals"""
    if isinstance(e, str):
        try:
            return (int(e), {})
        except ValueError:
            return (0, {e: 1})
    if not e:
        return None
    op = e[0]
    if op == "+":
        c, m = 0, {}
        for x in e[1:]:
            r = _lin(x)
            if r is None:
                return None
            c += r[0]
            for k, v in r[1].items():
                m[k] = m.get(k, 0) + v
        return (c, m)
    if op == "-" and len(e) == 2:
        r = _lin(e[1])
        return None if r is None else (-r[0], {k: -v for k, v in r[1].items()})
    if op == "-":
        r = _lin(e[1])
        if r is None:
            return None
        c, m = r[0], dict(r[1])
        for x in e[2:]:
            q = _lin(x)
            if q is None:
                return None
            c -= q[0]
            for k, v in q[1].items():
                m[k] = m.get(k, 0) - v
        return (c, m)
    if op == "*" and len(e) == 3:
        a, b = _lin(e[1]), _lin(e[2])
        if a is None or b is None:
            return None
        if not a[1]:
            return (a[0] * b[0], {k: v * a[0] for k, v in b[1].items()})
        if not b[1]:
            return (a[0] * b[0], {k: v * b[0] for k, v in a[1].items()})
        return None
    return (0, {smt.sexpr_to_str(e): 1})


def divmod8(term: str) -> typing.Tuple[str, typing.Optional[int]]:
    """(term div 8 as a term, term mod 8 as a literal if it is one).  Bit offsets of the form c + 8*s keep a literal
    bit-in-byte position, which keeps shifts literal."""
    k = lit_of(term)
    if k is not None:
        return (str(k // 8), k % 8)
    try:
        e = smt.parse_sexprs(term)[0]
        r = _lin(e)
    except Exception:
        r = None
    if r is not None and all(v % 8 == 0 for v in r[1].values()) and all(v >= 0 for v in r[1].values()):
        c, m = r
        parts = [str(c // 8)] if c // 8 else []
        for a, v in m.items():
            parts.append(a if v == 8 else f"(* {v // 8} {a})")
        q = parts[0] if len(parts) == 1 else ("(+ " + " ".join(parts) + ")" if parts else "0")
        return (q, c % 8)
    return (f"(div {term} 8)", None)


LOWER: typing.Dict[str, int] = {}  # known lower bounds of integer symbols on the current verification variant


def _lb(x: typing.Any) -> typing.Optional[int]:
    """a lower bound of an evaluated integer s-expression, from LOWER (sums and products by non-negative literals)"""
    if isinstance(x, bool):
        return None
    if isinstance(x, int):
        return x
    if isinstance(x, str):
        return LOWER.get(x)
    if isinstance(x, list) and x:
        if x[0] == "+":
            bs = [_lb(y) for y in x[1:]]
            return None if any(b is None for b in bs) else sum(bs)  # type: ignore
        if x[0] == "*" and len(x) == 3:
            a, b = x[1], x[2]
            if isinstance(a, int) and not isinstance(a, bool) and a >= 0:
                lb = _lb(b)
                return None if lb is None else a * lb
            if isinstance(b, int) and not isinstance(b, bool) and b >= 0:
                lb = _lb(a)
                return None if lb is None else b * lb
    return None


def simp_int(term: str) -> str:
    """evaluate closed integer/boolean sub-terms (literals only, plus comparisons decided by the known lower bounds
    in LOWER); leaves everything else alone"""
    if "(" not in term:
        return term
    try:
        e = smt.parse_sexprs(term)[0]
    except Exception:
        return term

    def ev(x: typing.Any) -> typing.Any:
        if isinstance(x, str):
            try:
                return int(x)
            except ValueError:
                return {"true": True, "false": False}.get(x, x)
        if not x:
            return x
        op = x[0]
        if isinstance(op, list):
            return [ev(y) if i else y for i, y in enumerate(x)]
        args = [ev(y) for y in x[1:]]
        lit = all(isinstance(a, int) and not isinstance(a, bool) for a in args)
        blit = all(isinstance(a, bool) for a in args)
        try:
            if op == "-" and len(args) == 1 and lit:
                return -args[0]
            if lit and args:
                if op == "+":
                    return sum(args)
                if op == "-":
                    return args[0] - sum(args[1:])
                if op == "*":
                    r = 1
                    for a in args:
                        r *= a
                    return r
                if op == "div" and len(args) == 2 and args[1] > 0:
                    return args[0] // args[1]
                if op == "mod" and len(args) == 2 and args[1] > 0:
                    return args[0] % args[1]
                if op in ("<", "<=", ">", ">=", "=") and len(args) == 2:
                    return {"<": args[0] < args[1], "<=": args[0] <= args[1], ">": args[0] > args[1], ">=": args[0] >= args[1], "=": args[0] == args[1]}[op]
            if LOWER and op in ("<", "<=", ">", ">=") and len(args) == 2:
                a, b = args
                if op in (">", ">="):
                    a, b, op2 = b, a, {">": "<", ">=": "<="}[op]
                else:
                    op2 = op
                # a op2 b  with a literal and b bounded below
                if isinstance(a, int) and not isinstance(a, bool):
                    lb = _lb(b)
                    if lb is not None and (a < lb if op2 == "<" else a <= lb):
                        return True
            if op == "not" and blit and args:
                return not args[0]
            if op == "and":
                if any(a is False for a in args):
                    return False
                if blit:
                    return True
            if op == "or":
                if any(a is True for a in args):
                    return True
                if blit:
                    return False
            if op == "ite" and len(args) == 3 and isinstance(args[0], bool):
                return args[1] if args[0] else args[2]
        except Exception:
            pass
        return [op] + args

    def out(x: typing.Any) -> str:
        if isinstance(x, bool):
            return "true" if x else "false"
        if isinstance(x, int):
            return int_lit(x)
        if isinstance(x, list):
            return "(" + " ".join(out(y) for y in x) + ")"
        return x

    return out(ev(e))


def ite_s(c: str, a: str, b: str) -> str:
    c2 = simp_int(c)
    if c2 == "true":
        return a
    if c2 == "false":
        return b
    return Ite(c2, a, b)


def simplify_mod_div(op: str, x: str, k: int) -> typing.Optional[str]:
    """x mod 8 / x div 8 / round-down-to-8 for terms of the form c + 8*s (literal bit-in-byte position)"""
    if k != 8:
        return None
    q, r = divmod8(x)
    if r is None:
        return None
    if op == "mod":
        return str(r)
    if op == "div":
        return q
    if op == "floor8":  # (x div 8) * 8
        return _fold(app("-", x, str(r))) if r else x
    return None


def fp_bits_const(x: float, width: int) -> str:
    import struct

    if width == 32:
        return bvlit(struct.unpack("<I", struct.pack("<f", x))[0], 32)
    return bvlit(struct.unpack("<Q", struct.pack("<d", x))[0], 64)


def fp_const(x: float, width: int) -> str:
    import struct

    if width == 32:
        bits = struct.unpack("<I", struct.pack("<f", x))[0]
        return f"((_ to_fp 8 24) {bvlit(bits, 32)})"
    bits = struct.unpack("<Q", struct.pack("<d", x))[0]
    return f"((_ to_fp 11 53) {bvlit(bits, 64)})"


# ------------------------------------------------------------------------------------------------
# engine
# ------------------------------------------------------------------------------------------------


class CEngine:
    def __init__(self) -> None:
        self.types = Types()
        self.functions: typing.Dict[str, dict] = {}
        self.contracts: typing.Dict[str, CContract] = {}
        self.prune = True
        self.split_casts = True
        self.session = smt.Z3Session()
        self.global_decls: typing.List[str] = []

    def load(self, decls: typing.List[dict]) -> None:
        for d in decls:
            if d["kind"] == "FunctionDecl" and any(x["kind"] == "CompoundStmt" for x in d.get("inner", [])):
                self.functions[d["name"]] = d
            elif d["kind"] == "FunctionDecl":
                self.functions.setdefault(d["name"], d)
            elif d["kind"] == "RecordDecl":
                self.record_decl(d)
            elif d["kind"] == "TypedefDecl":
                self.typedef_decl(d)

    def record_decl(self, d: dict) -> str:
        fields = []
        last_nested = None
        for f in d.get("inner", []):
            if f["kind"] == "RecordDecl":
                last_nested = self.record_decl(f)
            elif f["kind"] == "FieldDecl":
                q = f["type"].get("qualType", "")
                if ("unnamed" in q or "anonymous" in q) and last_nested is not None:
                    ft = CT("record", name=last_nested)
                    m = re.search(r"\[(\d+)\]$", q)
                    if m:
                        ft = CT("array", elem=ft, count=int(m.group(1)))
                else:
                    try:
                        ft = self.types.parse(f["type"])
                    except COutOfSubset:
                        ft = CT("void")  # a type outside the subset (system headers): only an error if it is ever used
                fields.append((f.get("name", ""), ft))
        name = d.get("name") or f"anon@{d['id']}"
        rec = {"union": d.get("tagUsed") == "union", "fields": fields, "id": d["id"]}
        self.types.records[name] = rec
        self.types.records["id:" + d["id"]] = rec
        self._last_record = name
        self.types.last_record = name
        return name

    def load_full(self, root: dict, prefixes: typing.Tuple[str, ...]) -> None:
        """Index a complete translation-unit AST: all records and typedefs, and the functions whose name starts with
        one of `prefixes`."""
        by_id: typing.Dict[str, str] = {}
        for d in root.get("inner", []):
            k = d.get("kind")
            if k == "RecordDecl":
                by_id[d["id"]] = self.record_decl(d)
            elif k == "TypedefDecl":
                tid = None
                for ch in d.get("inner", []):
                    tid = (ch.get("ownedTagDecl") or {}).get("id") or tid
                    for g in ch.get("inner", []):
                        tid = (g.get("decl") or {}).get("id") or tid
                if tid and tid in by_id:
                    self.types.records[d["name"]] = self.types.records[by_id[tid]]
            elif k == "FunctionDecl" and any(d.get("name", "").startswith(p) for p in prefixes):
                if any(x.get("kind") == "CompoundStmt" for x in d.get("inner", [])):
                    self.functions[d["name"]] = d
                else:
                    self.functions.setdefault(d["name"], d)

    def typedef_decl(self, d: dict) -> None:
        # typedef union {...} Name;  -> alias of the record declared just before
        q = d["type"]["qualType"]
        nm = re.sub(r"^(union|struct)\s+", "", strip_quals(q))
        if nm in self.types.records:
            self.types.records[d["name"]] = self.types.records[nm]
        elif getattr(self, "_last_record", None):
            self.types.records[d["name"]] = self.types.records[self._last_record]
            self.types.records[nm] = self.types.records[self._last_record]

    def verify(self, name: str) -> typing.Tuple[typing.List[smt.Obligation], typing.Dict[str, typing.Any]]:
        if name not in self.functions:
            raise CBindingError(f"function {name} not found in the rendered header")
        if name not in self.contracts:
            raise CBindingError(f"no contract for {name}")
        fn = self.functions[name]
        c = self.contracts[name]
        body = [x for x in fn.get("inner", []) if x["kind"] == "CompoundStmt"]
        if not body:
            raise CBindingError(f"{name} has no body")
        xp = Explorer()
        params = [p for p in fn.get("inner", []) if p["kind"] == "ParmVarDecl"]
        addr_taken = _addr_taken(body[0])

        def one_path() -> None:
            ex = Exec(self, xp, fn, c)
            ex.addr_taken = addr_taken
            amap: typing.Dict[str, typing.Any] = {}
            for p in params:
                ct = self.types.parse(p["type"])
                nm = p["name"]
                ex.names[nm] = p["id"]
                if ct.kind == "int":
                    rep = c.param_rep.get(nm, "I" if (ct.index or ct.width <= 8) and not ct.is_bool else "B")
                    if ct.is_bool:
                        rep = "I"
                    if rep == "I":
                        t = ex.fresh("Int", nm, model=True)
                        lo, hi = ex.range_of(ct)
                        ex.assume(And(app("<=", str(lo), t), app("<=", t, str(hi))))
                    else:
                        t = ex.fresh(f"(_ BitVec {ct.width})", nm, model=True)
                    v: typing.Any = Val(ct, rep, t)
                elif ct.kind == "float":
                    v = FVal(ct, ex.fresh(f"(_ BitVec {ct.width})", nm, model=True))
                elif ct.kind == "ptr":
                    const = "const" in p["type"]["qualType"].split("*")[0]
                    if nm in c.null_params:
                        v = PVal(ct, None, "0", (), ct.elem is not None and ct.elem.kind == "record")
                    elif ct.elem is not None and ct.elem.kind == "record":
                        root = ex.new_struct_root(nm, writable=not const)
                        ex.param_roots.add(root)
                        v = PVal(ct, root, "0", (), True)
                    elif ct.elem is not None and ct.elem.kind == "int" and (ct.elem.width > 8 or nm in c.scalar_ptr_params):
                        cell = None
                        if ct.elem.width == 64 and not ct.elem.signed:
                            iv = ex.fresh("Int", f"val.{nm}", model=True)
                            ex.assume(And(app("<=", "0", iv), app("<", iv, TWO64)))
                            cell = IntCellMem(iv)
                        r = ex.new_region(nm, str(ct.elem.size), cell, writable=not const)
                        v = PVal(ct, r.name, "0")
                    else:
                        ln = ex.fresh("Int", f"len.{nm}", model=True)
                        ex.assume(And(app("<=", "0", ln), app("<", ln, str(2 ** 61))))
                        r = ex.new_region(nm, ln, writable=not const)
                        if c.symbolic_pointer_offsets:
                            # the pointer may point anywhere into its object: contracts are pointer-relative
                            po = ex.fresh("Int", f"ptroff.{nm}", model=True)
                            ex.assume(And(app("<=", "0", po), app("<=", po, ln)))
                            v = PVal(ct, r.name, po)
                        else:
                            v = PVal(ct, r.name, "0")
                else:
                    raise COutOfSubset(f"parameter type {ct}")
                ex.vars[p["id"]] = v
                amap[nm] = v
            ex.params = amap
            ex.entry_mems = {rid: r.mem for rid, r in ex.regions.items()}
            # a parameter whose address is taken lives in memory (a local object initialised with the argument)
            for p in params:
                if p["id"] in addr_taken and isinstance(amap[p["name"]], (Val, FVal)):
                    ct = self.types.parse(p["type"])
                    r = ex.new_region(p["name"], str(ct.size))
                    ex.vars[p["id"]] = ("region", r.name, ct)
                    ex.store(PVal(CT("ptr", elem=ct), r.name, "0"), ct, amap[p["name"]])
            if c.setup is not None:
                c.setup(ex, amap)
            cx = CallCx(ex, amap, dict(ex.entry_mems))
            ex.cx = cx  # type: ignore
            for r in c.requires(cx):
                ex.assume(r)
            try:
                ex.exec(body[0])
                result = None
            except _Return as r:
                result = r.v
            xp.exits += 1
            cx.result = result
            post = c.ensures(cx)
            if "result" in post and post["result"] is not None and not post.get("result_is_definition"):
                rep, spec = post["result"]
                if isinstance(result, Val):
                    got = ex.to_int(result).t if rep == "I" else ex.to_bv(result).t
                    ex.prove(Eq(got, spec), "post", "result")
                elif isinstance(result, FVal):
                    ex.prove(Eq(result.bits, spec) if rep == "bits" else Eq(result.t, spec), "post", "result", "fp")
                else:
                    ex.prove("false", "post", "result-missing")
            for rid, r in list(ex.regions.items()):
                if rid not in ex.entry_mems:
                    continue  # locals
                if rid in post.get("skip_frame", ()) or rid in post.get("mem_bytes", {}):
                    continue
                spec_mem = post.get("mem", {}).get(rid)
                if spec_mem is None:
                    if r.mem is not ex.entry_mems[rid]:
                        ex.prove_mem_eq(r, ex.entry_mems[rid], "frame", f"{_short(rid)}-unchanged")
                else:
                    ex.prove_mem_eq(r, spec_mem, "post", f"mem.{_short(rid)}")
            for rid, (spec_mem, nbytes, rest_unchanged) in post.get("mem_bytes", {}).items():
                r = ex.regions[rid]
                for jb in range(nbytes):
                    ex.prove(Eq(r.mem.read(str(jb)), spec_mem.read(str(jb))), "post", f"mem.{_short(rid)}[{jb}]")
                if rest_unchanged:
                    j = ex.fresh("Int", "j")
                    saved = len(ex.pc)
                    ex.pc.append(And(app("<=", str(nbytes), j), app("<", j, r.length)))
                    ex.prove(Eq(r.mem.read(j), ex.entry_mems[rid].read(j)), "frame", f"{_short(rid)}-beyond-the-message-unchanged")
                    del ex.pc[saved:]
            for nm, t in post.get("extra", []):
                ex.prove(t, "post", nm)
            if callable(post.get("extra_fn")):
                for nm, t in post["extra_fn"](cx):
                    ex.prove(t, "post", nm, post.get("extra_theory"))

        xp.run(one_path)
        return xp.obligations, {"paths": xp.paths, "exits": xp.exits, "trivial": xp.trivial, "aux_queries": xp.aux}


def summaries(engine: "CEngine", name: str, suffix: str) -> typing.List[typing.Tuple[typing.List[str], typing.List[str], typing.Dict[str, typing.Any], typing.Any]]:
    """Path summaries of a (pure) function: [(decls, path condition, {param: value}, result)], symbols tagged with
    `suffix` so that two runs can be composed (relational obligations such as monotonicity)."""
    fn = engine.functions[name]
    c = engine.contracts[name]
    body = [x for x in fn.get("inner", []) if x["kind"] == "CompoundStmt"][0]
    params = [p for p in fn.get("inner", []) if p["kind"] == "ParmVarDecl"]
    xp = Explorer()
    out: typing.List[typing.Any] = []

    def one() -> None:
        ex = Exec(engine, xp, fn, c)
        orig_fresh = ex.fresh

        def fresh(sort: str, hint: str, model: bool = False) -> str:
            return orig_fresh(sort, f"{hint}{suffix}", model)

        ex.fresh = fresh  # type: ignore
        amap: typing.Dict[str, typing.Any] = {}
        for p in params:
            ct = engine.types.parse(p["type"])
            if ct.kind == "float":
                v: typing.Any = FVal(ct, ex.fresh(f"(_ BitVec {ct.width})", p["name"], True))
            elif ct.kind == "int":
                v = Val(ct, "B", ex.fresh(f"(_ BitVec {ct.width})", p["name"], True))
            else:
                raise COutOfSubset("summaries: parameter kind")
            ex.vars[p["id"]] = v
            ex.names[p["name"]] = p["id"]
            amap[p["name"]] = v
        ex.params = amap
        saved = len(xp.obligations)
        try:
            ex.exec(body)
            res = None
        except _Return as r:
            res = r.v
        del xp.obligations[saved:]  # safety obligations are discharged by verify(); summaries only collect terms
        out.append((list(ex.decls), list(ex.pc), amap, res))

    xp.run(one)
    return out


def _addr_taken(body: dict) -> typing.Set[str]:
    out: typing.Set[str] = set()

    def walk(x: dict) -> None:
        if x.get("kind") == "UnaryOperator" and x.get("opcode") == "&":
            s = x["inner"][0]
            while s["kind"] == "ParenExpr":
                s = s["inner"][0]
            if s["kind"] == "DeclRefExpr":
                out.add(s["referencedDecl"]["id"])
        for ch in x.get("inner", []):
            walk(ch)

    walk(body)
    return out

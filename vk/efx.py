"""
E-FX: frame / effect / guard-dominance checker over the real ASTs (Python sources and Jinja templates).

It decides obligations of the form "every occurrence of effect class E reachable from root R is dominated by guard G"
by a closed-world walk of the call graph it can resolve; every callee it cannot resolve is reported (assumed pure),
never silently skipped.  It is a decision procedure on syntax: either all occurrences are guarded, or it names the
unguarded occurrence (file, line, expression).
"""
from __future__ import annotations

import ast
import dataclasses
import pathlib
import re
import typing


# ------------------------------------------------------------------------------------------------
# Python index
# ------------------------------------------------------------------------------------------------


@dataclasses.dataclass
class Fn:
    qual: str  # module:Class.func
    module: str
    cls: typing.Optional[str]
    name: str
    node: ast.FunctionDef
    file: str


@dataclasses.dataclass
class Cls:
    module: str
    name: str
    bases: typing.List[str]
    node: ast.ClassDef
    methods: typing.Dict[str, Fn]


class PyIndex:
    def __init__(self, src_root: pathlib.Path, package: str = "nunavut", exclude: typing.Tuple[str, ...] = ("jinja/jinja2/", "jinja/markupsafe/")):
        self.src_root = src_root
        self.fns: typing.Dict[str, Fn] = {}
        self.classes: typing.Dict[str, typing.List[Cls]] = {}
        self.modules: typing.Dict[str, ast.Module] = {}
        self.module_funcs: typing.Dict[str, typing.Dict[str, Fn]] = {}
        self.imports: typing.Dict[str, typing.Dict[str, str]] = {}  # module -> local name -> dotted origin
        root = src_root / package
        for path in sorted(root.rglob("*.py")):
            rel = path.relative_to(src_root).as_posix()
            if any(x in rel for x in exclude):
                continue
            mod = rel[:-3].replace("/", ".")
            if mod.endswith(".__init__"):
                mod = mod[: -len(".__init__")]
            try:
                tree = ast.parse(path.read_text())
            except SyntaxError:
                continue
            self.modules[mod] = tree
            self.module_funcs[mod] = {}
            self.imports[mod] = {}
            for n in ast.walk(tree):
                if isinstance(n, ast.Import):
                    for a in n.names:
                        self.imports[mod][a.asname or a.name.split(".")[0]] = a.name
                elif isinstance(n, ast.ImportFrom):
                    base = n.module or ""
                    if n.level:
                        parts = mod.split(".")
                        is_pkg = path.name == "__init__.py"
                        up = n.level - (1 if is_pkg else 0)
                        prefix = parts[: len(parts) - up] if up else parts
                        if not is_pkg and n.level >= 1:
                            prefix = parts[: len(parts) - n.level]
                        base = ".".join(prefix + ([n.module] if n.module else []))
                    for a in n.names:
                        self.imports[mod][a.asname or a.name] = f"{base}.{a.name}"
            for n in tree.body:
                if isinstance(n, ast.FunctionDef):
                    f = Fn(f"{mod}:{n.name}", mod, None, n.name, n, rel)
                    self.fns[f.qual] = f
                    self.module_funcs[mod][n.name] = f
                elif isinstance(n, ast.ClassDef):
                    self._add_class(mod, n, rel)

    def _add_class(self, mod: str, n: ast.ClassDef, rel: str) -> None:
        bases = []
        for b in n.bases:
            try:
                bases.append(ast.unparse(b).split(".")[-1].split("[")[0])
            except Exception:
                pass
        c = Cls(mod, n.name, bases, n, {})
        for m in n.body:
            if isinstance(m, ast.FunctionDef):
                f = Fn(f"{mod}:{n.name}.{m.name}", mod, n.name, m.name, m, rel)
                self.fns[f.qual] = f
                c.methods[m.name] = f
        self.classes.setdefault(n.name, []).append(c)

    def cls(self, name: str, near_module: typing.Optional[str] = None) -> typing.Optional[Cls]:
        cands = self.classes.get(name, [])
        if not cands:
            return None
        if near_module:
            for c in cands:
                if c.module == near_module:
                    return c
        return cands[0]

    def mro(self, c: Cls) -> typing.List[Cls]:
        out, seen, todo = [], set(), [c]
        while todo:
            x = todo.pop(0)
            if (x.module, x.name) in seen:
                continue
            seen.add((x.module, x.name))
            out.append(x)
            for b in x.bases:
                bc = self.cls(b, x.module)
                if bc:
                    todo.append(bc)
        return out

    def subclasses(self, c: Cls) -> typing.List[Cls]:
        out = []
        for lst in self.classes.values():
            for k in lst:
                if k is not c and any(m is c for m in self.mro(k)):
                    out.append(k)
        return out

    def resolve_method(self, c: Cls, name: str, include_overrides: bool = True) -> typing.List[Fn]:
        """All implementations a call `self.name()` in class c can dispatch to: first definition along the MRO, plus
        overrides in subclasses (the receiver may be any subclass instance)."""
        out: typing.List[Fn] = []
        for k in self.mro(c):
            if name in k.methods:
                out.append(k.methods[name])
                break
        if include_overrides:
            for k in self.subclasses(c):
                if name in k.methods and k.methods[name] not in out:
                    out.append(k.methods[name])
        return out


# ------------------------------------------------------------------------------------------------
# guards (dominating conditions) inside one function
# ------------------------------------------------------------------------------------------------


def _exits(stmts: typing.List[ast.stmt]) -> bool:
    return bool(stmts) and isinstance(stmts[-1], (ast.Return, ast.Raise, ast.Continue, ast.Break))


Guard = typing.Tuple[str, bool]  # (condition source text, polarity)


def walk_with_guards(fn: ast.AST) -> typing.Iterator[typing.Tuple[ast.AST, typing.Tuple[Guard, ...]]]:
    """Yield every expression/statement node of a function body with the conditions that dominate it: enclosing
    if/elif/else tests, and `if c: <exit>` tests that precede it in the same block (then `not c` holds)."""

    def block(stmts: typing.List[ast.stmt], g: typing.Tuple[Guard, ...]) -> typing.Iterator:
        cur = g
        for s in stmts:
            yield from stmt(s, cur)
            if isinstance(s, ast.If) and _exits(s.body) and not s.orelse:
                cur = cur + ((ast.unparse(s.test), False),)
            elif isinstance(s, ast.If) and s.orelse and _exits(s.orelse) and not _exits(s.body):
                cur = cur + ((ast.unparse(s.test), True),)

    def stmt(s: ast.stmt, g: typing.Tuple[Guard, ...]) -> typing.Iterator:
        if isinstance(s, (ast.FunctionDef, ast.AsyncFunctionDef, ast.ClassDef)):
            return
        if isinstance(s, ast.If):
            yield from expr(s.test, g)
            t = ast.unparse(s.test)
            yield from block(s.body, g + ((t, True),))
            yield from block(s.orelse, g + ((t, False),))
            return
        if isinstance(s, (ast.For, ast.While, ast.With, ast.Try)):
            yield (s, g)
            for fld in ("iter", "test"):
                if hasattr(s, fld):
                    yield from expr(getattr(s, fld), g)
            if isinstance(s, ast.With):
                for it in s.items:
                    yield from expr(it.context_expr, g)
            for fld in ("body", "orelse", "finalbody"):
                if hasattr(s, fld):
                    yield from block(getattr(s, fld), g)
            if isinstance(s, ast.Try):
                for h in s.handlers:
                    yield from block(h.body, g)
            return
        yield (s, g)
        for ch in ast.iter_child_nodes(s):
            if isinstance(ch, ast.expr):
                yield from expr(ch, g)

    def expr(e: ast.AST, g: typing.Tuple[Guard, ...]) -> typing.Iterator:
        if isinstance(e, ast.IfExp):
            t = ast.unparse(e.test)
            yield from expr(e.test, g)
            yield from expr(e.body, g + ((t, True),))
            yield from expr(e.orelse, g + ((t, False),))
            return
        if isinstance(e, (ast.Lambda,)):
            return
        yield (e, g)
        for ch in ast.iter_child_nodes(e):
            if isinstance(ch, (ast.expr, ast.keyword, ast.comprehension)):
                yield from expr(ch, g)

    body = fn.body if hasattr(fn, "body") else []
    yield from block(body, ())  # type: ignore


def guard_holds(guards: typing.Tuple[Guard, ...], pattern: str, polarity: bool) -> bool:
    """Is some dominating condition exactly `pattern` with the given polarity (or `not pattern` with the opposite)?"""
    for text, pol in guards:
        t = text.strip()
        if t == pattern and pol == polarity:
            return True
        if t == f"not {pattern}" and pol == (not polarity):
            return True
        # conjunctions: `a and b` true implies each conjunct
        if pol and polarity and re.split(r"\s+and\s+", t).count(pattern):
            return True
        if pol and not polarity and re.split(r"\s+and\s+", t).count(f"not {pattern}"):
            return True
    return False


# ------------------------------------------------------------------------------------------------
# effect tables
# ------------------------------------------------------------------------------------------------

AMBIENT_CALLS = [
    (r"(datetime\.)?datetime\.(utc)?now$|datetime\.(utc)?now$|datetime\.today$|date\.today$", "clock"),
    (r"time\.(time|monotonic|perf_counter|localtime|gmtime|strftime|ctime)(_ns)?$", "clock"),
    (r"platform\.\w+$", "platform"),
    (r"os\.(getcwd|getpid|uname|getlogin|urandom)$", "process/cwd"),
    (r"(pathlib\.)?Path\.cwd$|(pathlib\.)?Path\.home$", "cwd"),
    (r"\.resolve$|\.absolute$|os\.path\.(abspath|realpath)$", "absolute path"),
    (r"^id$|^hash$", "object identity / hash seed"),
    (r"random\.\w+$|uuid\.uuid[14]$|secrets\.\w+$", "randomness"),
    (r"socket\.gethostname$|getpass\.getuser$", "host/user"),
]
AMBIENT_ATTRS = [
    (r"os\.environ$", "environment"),
    (r"sys\.(version|version_info|platform|executable|argv|path|flags|hexversion|implementation)$", "interpreter/platform"),
]
FS_WRITE_CALLS = [
    (r"^open$", "open"),  # only with a writing mode
    (r"\.(write_text|write_bytes|mkdir|chmod|unlink|rmdir|rename|replace|touch|symlink_to|hardlink_to)$", "pathlib write"),
    (r"shutil\.(copy|copy2|copyfile|copytree|move|rmtree)$", "shutil"),
    (r"os\.(remove|unlink|mkdir|makedirs|rename|replace|rmdir|chmod|chown|utime|truncate|symlink|link)$", "os write"),
    (r"subprocess\.\w+$|subprocess_run$|os\.system$", "subprocess"),
]


def dotted(e: ast.AST) -> str:
    try:
        return ast.unparse(e)
    except Exception:
        return "?"


def is_write_open(call: ast.Call) -> bool:
    mode = None
    if len(call.args) >= 2:
        mode = call.args[1]
    for k in call.keywords:
        if k.arg == "mode":
            mode = k.value
    if mode is None:
        return False
    if isinstance(mode, ast.Constant) and isinstance(mode.value, str):
        return any(c in mode.value for c in "wax+")
    return True  # unknown mode: treat as write


@dataclasses.dataclass
class Occurrence:
    kind: str  # ambient | fs_write | call
    what: str
    fn: Fn
    line: int
    expr: str
    guards: typing.Tuple[Guard, ...]

    def where(self) -> str:
        return f"{self.fn.file}:{self.line}"


def effects_in(fn: Fn) -> typing.Tuple[typing.List[Occurrence], typing.List[typing.Tuple[ast.Call, typing.Tuple[Guard, ...]]]]:
    occ: typing.List[Occurrence] = []
    calls: typing.List[typing.Tuple[ast.Call, typing.Tuple[Guard, ...]]] = []
    for node, g in walk_with_guards(fn.node):
        if isinstance(node, ast.Call):
            calls.append((node, g))
            name = dotted(node.func)
            for pat, what in AMBIENT_CALLS:
                if re.search(pat, name):
                    occ.append(Occurrence("ambient", what, fn, node.lineno, dotted(node)[:120], g))
                    break
            for pat, what in FS_WRITE_CALLS:
                if re.search(pat, name):
                    if what == "open" and not is_write_open(node):
                        continue
                    occ.append(Occurrence("fs_write", what, fn, node.lineno, dotted(node)[:120], g))
                    break
            if name.endswith("gzip.compress") and not any(k.arg == "mtime" for k in node.keywords):
                occ.append(Occurrence("ambient", "clock (gzip header mtime)", fn, node.lineno, dotted(node)[:120], g))
        elif isinstance(node, ast.Attribute):
            name = dotted(node)
            for pat, what in AMBIENT_ATTRS:
                if re.search(pat, name):
                    occ.append(Occurrence("ambient", what, fn, node.lineno, name[:120], g))
                    break
    return occ, calls


# ------------------------------------------------------------------------------------------------
# call resolution and reachability
# ------------------------------------------------------------------------------------------------


class CallGraph:
    def __init__(self, index: PyIndex, attr_types: typing.Optional[typing.Dict[str, str]] = None):
        """attr_types: declared classes of attributes/variables used as receivers, e.g. {"self._env": "CodeGenEnvironment"}"""
        self.ix = index
        self.attr_types = attr_types or {}
        self.unresolved: typing.Dict[str, typing.Set[str]] = {}

    def resolve(self, fn: Fn, call: ast.Call) -> typing.List[Fn]:
        f = call.func
        ix = self.ix
        name = dotted(f)
        if isinstance(f, ast.Name):
            mf = ix.module_funcs.get(fn.module, {})
            if f.id in mf:
                return [mf[f.id]]
            origin = ix.imports.get(fn.module, {}).get(f.id)
            if origin:
                mod, _, nm = origin.rpartition(".")
                if mod in ix.module_funcs and nm in ix.module_funcs[mod]:
                    return [ix.module_funcs[mod][nm]]
                c = ix.cls(nm)
                if c and "__init__" in c.methods:
                    return [c.methods["__init__"]]
            c = ix.cls(f.id, fn.module)
            if c:
                return [m for k in ix.mro(c)[:1] for m in ([k.methods["__init__"]] if "__init__" in k.methods else [])]
            self._unres(fn, name)
            return []
        if isinstance(f, ast.Attribute):
            recv = dotted(f.value)
            if recv in ("self", "cls") and fn.cls:
                c = ix.cls(fn.cls, fn.module)
                if c:
                    r = ix.resolve_method(c, f.attr)
                    if r:
                        return r
            if recv.startswith("super()") and fn.cls:
                c = ix.cls(fn.cls, fn.module)
                if c:
                    for k in ix.mro(c)[1:]:
                        if f.attr in k.methods:
                            return [k.methods[f.attr]]
            t = self.attr_types.get(recv) or self.attr_types.get(f"{fn.cls}.{recv}")
            if t:
                c = ix.cls(t)
                if c:
                    r = ix.resolve_method(c, f.attr)
                    if r:
                        return r
            # Class.method / module.func
            last = recv.split(".")[-1]
            c = ix.cls(last)
            if c and f.attr in {m for k in ix.mro(c) for m in k.methods}:
                return ix.resolve_method(c, f.attr, include_overrides=False)
            origin = ix.imports.get(fn.module, {}).get(recv.split(".")[0])
            if origin:
                full = origin + recv[len(recv.split(".")[0]):]
                if full in ix.module_funcs and f.attr in ix.module_funcs[full]:
                    return [ix.module_funcs[full][f.attr]]
            self._unres(fn, name)
            return []
        self._unres(fn, name)
        return []

    def _unres(self, fn: Fn, name: str) -> None:
        self.unresolved.setdefault(fn.qual, set()).add(name)

    def reach(self, roots: typing.List[Fn], stop: typing.Callable[[Fn], bool] = lambda f: False,
              ) -> typing.Iterator[typing.Tuple[Fn, typing.Tuple[typing.Tuple[Fn, int, typing.Tuple[Guard, ...]], ...]]]:
        """Yield (function, call chain) for every function reachable from the roots (each function once per distinct
        guard context is overkill: we keep the *weakest* context, i.e. the first chain found by BFS, and additionally any
        chain whose accumulated guards differ as a set of texts)."""
        seen: typing.Set[typing.Tuple[str, typing.FrozenSet[Guard]]] = set()
        todo: typing.List[typing.Tuple[Fn, tuple]] = [(r, ()) for r in roots]
        while todo:
            fn, chain = todo.pop(0)
            acc = frozenset(g for (_, _, gs) in chain for g in gs)
            key = (fn.qual, acc)
            if key in seen:
                continue
            seen.add(key)
            yield fn, chain
            if stop(fn):
                continue
            _, calls = effects_in(fn)
            for call, g in calls:
                for tgt in self.resolve(fn, call):
                    todo.append((tgt, chain + ((fn, call.lineno, g),)))


# ------------------------------------------------------------------------------------------------
# Jinja templates
# ------------------------------------------------------------------------------------------------


def parse_template(src_root: pathlib.Path, path: pathlib.Path):
    """Parse a template with the bundled (modified) Jinja2 front end."""
    import sys

    if str(src_root) not in sys.path:
        sys.path.insert(0, str(src_root))
    from nunavut.jinja.jinja2 import Environment
    from nunavut.jinja.extensions import JinjaAssert, UseQuery

    env = Environment(extensions=["nunavut.jinja.jinja2.ext.do", "nunavut.jinja.jinja2.ext.loopcontrols", JinjaAssert, UseQuery])
    return env.parse(path.read_text(), name=path.name, filename=str(path))


def jinja_outputs(tree) -> typing.Iterator[typing.Tuple[typing.Any, typing.Tuple[typing.Tuple[str, bool], ...]]]:
    """Yield (expression node, dominating template conditions) for every expression inside an Output node."""
    from nunavut.jinja.jinja2 import nodes as N

    def cond_text(t) -> str:
        return jinja_text(t)

    def walk(n, guards):
        if isinstance(n, N.If):
            t = cond_text(n.test)
            for b in n.body:
                yield from walk(b, guards + ((t, True),))
            neg = guards + ((t, False),)
            for el in getattr(n, "elif_", []) or []:
                yield from walk(el, neg)
            for b in n.else_ or []:
                yield from walk(b, neg)
            return
        if isinstance(n, N.Output):
            for e in n.nodes:
                if not isinstance(e, N.TemplateData):
                    yield (e, guards)
            return
        for ch in n.iter_child_nodes():
            yield from walk(ch, guards)

    yield from walk(tree, ())


def jinja_text(n) -> str:
    """A compact source-like rendering of a Jinja expression node (for matching and reporting)."""
    from nunavut.jinja.jinja2 import nodes as N

    if isinstance(n, N.Name):
        return n.name
    if isinstance(n, N.Getattr):
        return f"{jinja_text(n.node)}.{n.attr}"
    if isinstance(n, N.Getitem):
        return f"{jinja_text(n.node)}[{jinja_text(n.arg)}]"
    if isinstance(n, N.Const):
        return repr(n.value)
    if isinstance(n, N.Filter):
        args = ", ".join(jinja_text(a) for a in n.args)
        return f"{jinja_text(n.node) if n.node is not None else ''}|{n.name}" + (f"({args})" if args else "")
    if isinstance(n, N.Test):
        return f"{jinja_text(n.node)} is {n.name}"
    if isinstance(n, N.Call):
        args = ", ".join(jinja_text(a) for a in n.args)
        return f"{jinja_text(n.node)}({args})"
    if isinstance(n, N.Not):
        return f"not {jinja_text(n.node)}"
    if isinstance(n, N.And):
        return f"{jinja_text(n.left)} and {jinja_text(n.right)}"
    if isinstance(n, N.Or):
        return f"{jinja_text(n.left)} or {jinja_text(n.right)}"
    if isinstance(n, N.CondExpr):
        return f"{jinja_text(n.expr1)} if {jinja_text(n.test)} else {jinja_text(n.expr2) if n.expr2 is not None else ''}"
    if isinstance(n, N.Compare):
        ops = {"eq": "==", "ne": "!=", "lt": "<", "lteq": "<=", "gt": ">", "gteq": ">=", "in": "in", "notin": "not in"}
        return jinja_text(n.expr) + "".join(f" {ops.get(o.op, o.op)} {jinja_text(o.expr)}" for o in n.ops)
    if isinstance(n, N.Concat):
        return " ~ ".join(jinja_text(x) for x in n.nodes)
    if isinstance(n, N.MarkSafe):
        return f"MarkSafe({jinja_text(n.expr)})"
    kids = list(n.iter_child_nodes())
    return type(n).__name__ + "(" + ", ".join(jinja_text(k) for k in kids) + ")"


def jinja_tainted(expr, is_source: typing.Callable[[str, typing.Any], bool], sanitizers: typing.Set[str],
                  is_safe: typing.Optional[typing.Callable[[str, typing.Any], bool]] = None,
                  neutral_after: typing.Optional[typing.Set[str]] = None) -> typing.List[str]:
    """Sub-expressions of `expr` that are taint sources and reach the output without passing a sanitising filter.

    With `neutral_after` given, a sanitiser counts only if every filter applied AFTER it (further out in the chain) is
    itself a sanitiser or is in `neutral_after` (filters that cannot put markup back, unlike e.g. replace("&lt;", "<"))."""
    from nunavut.jinja.jinja2 import nodes as N

    found: typing.List[str] = []

    def walk(n, clean: bool, undone: bool = False) -> None:
        if isinstance(n, N.Filter):
            if not clean and is_source(f"|{n.name}", n):
                found.append(jinja_text(n))
                return
            c = clean or (n.name in sanitizers and not undone)
            u = undone or (neutral_after is not None and n.name not in sanitizers and n.name not in neutral_after)
            if n.node is not None:
                walk(n.node, c, u)
            for a in list(n.args) + [k.value for k in n.kwargs]:
                walk(a, c, u)
            return
        if isinstance(n, N.Test):
            return  # a test yields a boolean
        if isinstance(n, N.CondExpr):
            walk(n.expr1, clean, undone)
            if n.expr2 is not None:
                walk(n.expr2, clean, undone)
            return
        t = jinja_text(n)
        if is_safe is not None and is_safe(t, n):
            return  # a reduction of the source that carries no ambient information (e.g. path.name)
        if is_source(t, n) and not clean:
            found.append(t)
            return
        for ch in n.iter_child_nodes():
            walk(ch, clean, undone)

    walk(expr, False)
    return found

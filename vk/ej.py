"""E-J: verification conditions over expressions of the real Jinja templates.

The template is parsed with the bundled Jinja2 front end on every run; the emitted text is flattened into the
document-ordered sequence of literal data and expression nodes.  An obligation binds to "the expression printed right
after literal text matching <regex>" (e.g. `_EXTENT_BYTES_\\s+`), translates that expression into an SMT term over
symbols for the attributes of the pydsdl model it reads, and asks the solver whether the expected relation can fail
under the stated model invariants.  Integer semantics: Jinja's `//`, `%`, `*`, `+`, `-` on Python ints (floor division
for a positive divisor == SMT div), filters with contracts (`bits2bytes_ceil` by its E-PY-proved contract, `length`,
`int` on ints as identity).  Anything else is out of the subset (reported as undecided, never as a violation).
"""
import re
import typing

from . import efx


class EJOutOfSubset(Exception):
    pass


class EJBindingError(Exception):
    pass


def flat_outputs(tree) -> typing.List[tuple]:
    """[("data", text) | ("expr", node, guards)] in document order; descends into macros, ifs and loops."""
    from nunavut.jinja.jinja2 import nodes as N

    out: typing.List[tuple] = []

    def walk(n, guards):
        if isinstance(n, N.If):
            t = efx.jinja_text(n.test)
            for b in n.body:
                walk(b, guards + ((t, True),))
            neg = guards + ((t, False),)
            for el in getattr(n, "elif_", []) or []:
                walk(el, neg)
            for b in n.else_ or []:
                walk(b, neg)
            return
        if isinstance(n, N.Output):
            for e in n.nodes:
                if isinstance(e, N.TemplateData):
                    if out and out[-1][0] == "data":
                        out[-1] = ("data", out[-1][1] + e.data)
                    else:
                        out.append(("data", e.data))
                else:
                    out.append(("expr", e, guards))
            return
        for ch in n.iter_child_nodes():
            walk(ch, guards)

    walk(tree, ())
    return out


def exprs_after(items: typing.List[tuple], pattern: str) -> typing.List[typing.Tuple[typing.Any, tuple, str]]:
    """(expression, guards, following literal text) for every expression directly preceded by text matching `pattern$`"""
    rx = re.compile(pattern + r"\Z")
    found = []
    for i, it in enumerate(items):
        if it[0] == "expr" and i > 0 and items[i - 1][0] == "data" and rx.search(items[i - 1][1]):
            nxt = items[i + 1][1] if i + 1 < len(items) and items[i + 1][0] == "data" else ""
            found.append((it[1], it[2], nxt))
    return found


class Translator:
    """symbols: attribute path (tuple of names below an allowed root variable) -> (sort, SMT term)"""

    def __init__(self, roots: typing.Set[str], symbols: typing.Dict[tuple, typing.Tuple[str, str]], filters: typing.Optional[dict] = None):
        self.roots = roots
        self.symbols = symbols
        self.filters = filters or {}
        self.side: typing.List[str] = []  # axioms introduced by filter contracts
        self.decls: typing.List[str] = []
        self.n = 0

    def fresh(self, sort: str, hint: str) -> str:
        self.n += 1
        name = f"|ej.{hint}!{self.n}|"
        self.decls.append(f"(declare-const {name} {sort})")
        return name

    def path(self, n) -> typing.Optional[tuple]:
        from nunavut.jinja.jinja2 import nodes as N
        if isinstance(n, N.Name):
            return (n.name,)
        if isinstance(n, N.Getattr):
            p = self.path(n.node)
            return None if p is None else p + (n.attr,)
        return None

    def tr(self, n) -> typing.Tuple[str, str]:
        from nunavut.jinja.jinja2 import nodes as N
        p = self.path(n)
        if p is not None:
            if p[0] not in self.roots:
                # a different object than the one the surrounding macro describes: unconstrained
                return ("Int", self.fresh("Int", ".".join(p)))
            if p[1:] in self.symbols:
                return self.symbols[p[1:]]
            return ("Int", self.fresh("Int", ".".join(p)))
        if isinstance(n, N.Const):
            if isinstance(n.value, bool):
                return ("Bool", "true" if n.value else "false")
            if isinstance(n.value, int):
                return ("Int", str(n.value) if n.value >= 0 else f"(- {-n.value})")
            raise EJOutOfSubset(f"constant {n.value!r}")
        binops = {N.Add: "+", N.Sub: "-", N.Mul: "*"}
        if type(n) in binops:
            (sa, a), (sb, b) = self.tr(n.left), self.tr(n.right)
            if sa == sb == "Int":
                return ("Int", f"({binops[type(n)]} {a} {b})")
            raise EJOutOfSubset(f"{type(n).__name__} on {sa},{sb}")
        if isinstance(n, (N.FloorDiv, N.Mod)):
            (sa, a), (sb, b) = self.tr(n.left), self.tr(n.right)
            if sa == sb == "Int" and isinstance(n.right, N.Const) and isinstance(n.right.value, int) and n.right.value > 0:
                return ("Int", f"({'div' if isinstance(n, N.FloorDiv) else 'mod'} {a} {b})")
            raise EJOutOfSubset("floor division / modulo by a non-literal or non-positive divisor")
        if isinstance(n, N.Neg):
            s, a = self.tr(n.node)
            if s == "Int":
                return ("Int", f"(- {a})")
        if isinstance(n, N.Filter) and n.node is not None:
            if n.name in self.filters:
                return self.filters[n.name](self, n)
            raise EJOutOfSubset(f"filter {n.name}")
        raise EJOutOfSubset(f"{type(n).__name__}: {efx.jinja_text(n)}")


def f_bits2bytes_ceil(tr: Translator, n) -> typing.Tuple[str, str]:
    """contract of DSDLCodeGenerator.filter_bits2bytes_ceil (proved by E-PY in the same run): 8r >= x > 8(r-1), x >= 0"""
    s, a = tr.tr(n.node)
    if s != "Int":
        raise EJOutOfSubset("bits2bytes_ceil of a non-integer")
    r = tr.fresh("Int", "bits2bytes_ceil")
    tr.side.append(f"(=> (>= {a} 0) (and (>= (* 8 {r}) {a}) (< (* 8 (- {r} 1)) {a})))")
    return ("Int", r)


def f_int(tr: Translator, n) -> typing.Tuple[str, str]:
    s, a = tr.tr(n.node)
    if s == "Int":
        return (s, a)
    raise EJOutOfSubset("int of a non-integer")


def f_length_of(symbols_by_path: typing.Dict[tuple, str]):
    def f(tr: Translator, n) -> typing.Tuple[str, str]:
        p = tr.path(n.node)
        if p is not None and p[0] in tr.roots and p[1:] in symbols_by_path:
            return ("Int", symbols_by_path[p[1:]])
        return ("Int", tr.fresh("Int", "length"))
    return f
